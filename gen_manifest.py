#!/usr/bin/env python3
"""Writes MANIFEST.json from the table below (kept next to the checker so they change together)."""
import json, subprocess, os
D = os.path.dirname(os.path.abspath(__file__))
BASE = "for m in gnark-plonky2-verifier; do (cd /repo/$m && GOFLAGS=-mod=mod go test -json -vet=off -count=1 -timeout 25m ./...); done"
claimed = {
 "C01": ("structural necessary conditions only (level other): wiring of the entry points (must-call with the circuit's own fields), every input leaf bound (T2 leaf liveness generated from the types: each leaf reaches a must-executed constraint with full loop coverage or is observed by the transcript), plus the obligations of C11 C12 C13 C14 C16 C17 and C20's guards. Does not decide that the verification equations are the right polynomials. Also: no hidden state — outside initialisers/constructors nothing writes package-level variables or chip fields (tabled exceptions), so nothing is carried from one circuit, proof or call to the next.",
         "E2 must-call + leaf-liveness over the SSA origin/dependency analysis", "§4 C01"),
 "C02": ("partial (level other): W3 alignment of every constant width reaching the range primitive and, for every common_circuit_data.json in the repository, of 64-ProofOfWorkBits; C06's dispatch/constructor obligations (no backend skips or mis-selects checks); W2 honest fit by a magnitude analysis of the gadget layer (abstract interpretation over upper bounds: every reduction input below p·2^n in every calling context, every MulAdd/Inverse operand canonical, no intermediate value reaches the BN254 field, upper-layer functions exchange canonical values only), for all configurations and proof shapes under the assumption that proof data and constants are canonical; the sponge keeps previous lanes on a partial chunk (97-input circuit). That the algebraic identities hold for honest proofs (acceptance itself) is not decided.",
         "interprocedural constant propagation of widths + enum-dispatch path analysis + abstract interpretation of magnitudes (intervals, constant propagation, Kleene iteration with widening)", "§4 C02 / §10.10"),
 "C03": ("strong structural claim (level other): in CircuitFixed.Define every limb packed into a public value is, by the same slice element, the argument of a must-executed n-bit range check with 2^n ≤ the packing multiplier (evaluated as a linear form), all 4×4 limbs are covered under the refusal guard len==16, each public value is asserted equal to its packed form, and the packed bound is < 2^128; plus C06 (the width checks are live in every backend: dispatch, deferred drain, the collecting chip is never updated through a copy).",
         "linear-form evaluation of the packing expression + must-execute/loop-coverage analysis", "§4 C03"),
 "C04": ("strong structural claim (level other): for every type implementing frontend.Circuit whose Define reaches VerifierChip.Verify, the verifier-data argument originates from a field whose gnark visibility (struct tag parsed as gnark's schema walker does) is '-' (build-time constant) or public; a secret field is accepted only if pinned leaf-by-leaf to a constant field.",
         "struct-tag / origin analysis over go/types + SSA", "§4 C04"),
 "C05": ("R1 hint discipline for every NewHint site + W1 no-wrap of each tying equality per reaching quotient width + W3 + C06 (level other). Decides uniqueness of witnessed results structurally; operand magnitudes at every reduction site by the magnitude analysis W2 (values reduced below p·2^n and below the BN254 field in every calling context, §10.10).",
         "must-execute + origin analysis of hint outputs; polynomial bound evaluation; interprocedural constant propagation", "§4 C05"),
 "C06": ("strong structural claim (level other): enum-dispatch path analysis for every RangeCheckerType constant, constructor paths (Defer iff COMMIT, every kind whose checks are collected has its drain deferred, installed checker matches kind, selector conditions), the chip owning the collected checks is never updated through a copy (value receivers / dereferences located on the SSA), drain coverage and alignment refusals, bit-decomposition width, RangeCheck limb rules (linear forms). Ranges are not evaluated numerically.",
         "CFG path analysis per enum constant + linear-form evaluation + loop coverage", "§4 C06"),
 "C07": ("narrow structural clauses only (level other): zero branch of Inverse, Reduce's constant width ≥144 from a never-reassigned global, every reducing method returns a canonically range-checked hint output; MulAcc accumulator discipline (owned and dead after the call) at every MulAcc site of the goldilocks package, so results do not depend on the R1CS builder re-using storage; every returned value of a base-field gadget is computed from each of its operands (parameter relevance). Numerical exactness is not decided.",
         "expression-shape matching + origin analysis + ownership/liveness analysis of MulAcc accumulators", "§4 C07 / §10.8"),
 "C08": ("narrow structural clauses only (level other): InverseExtension asserts the product of both coordinates' zero tests is 0; DivExtension forwards its divisor to it; every quotient width reaching the witnessed reduction admits a single result (W1) with R1; the unreduced intermediate values of the extension operations fit their reduction and never reach the BN254 field in any calling context (magnitude analysis W2); every value an extension gadget returns is computed from each of its operands (parameter relevance, ExpExtension exempt). Field identities are not decided.",
         "expression-shape matching + must-call + abstract interpretation of magnitudes", "§4 C08 / §10.10"),
 "C09": ("narrow structural clauses only (level other): inputs reduced first (full-range loop, only reduction results reach the sponge); permutation is a function (R1/W1 of the s-box reductions); sibling constant tables agree and are canonical; the sponge absorbs in overwrite mode and squeezes from the rate part only (loop bounded by SPONGE_RATE). Equality with plonky2 for all inputs is not decided.",
         "origin analysis + constant-table comparison from type-checked syntax", "§4 C09"),
 "C10": ("narrow structural clauses only (level other): the injectivity half of the property — limb packing in HashNoPad/HashOrNoop is Σ limb_k·base^k with constant base ≥ 2^64, exponent = limb index, bounded limb count with base^T ≤ r; ToVec chunks the canonical decomposition into consecutive disjoint ≤63-bit chunks; MulAcc accumulator discipline at every MulAcc site of the poseidon package (builder-independent results); a rate lane is overwritten only by a limb packed from a non-empty chunk (overwrite-mode absorption). Numeric agreement of the BN254 Poseidon permutation/sponge/shortcut with the reference PoseidonBN128 is NOT decided (no sound static argument in reach). Also: no hidden state — outside initialisers/constructors nothing writes package-level variables or chip fields (tabled exceptions), so nothing is carried from one circuit, proof or call to the next.",
         "recurrence extraction from SSA phis + constant evaluation of package initialisers + slice-bound reasoning + ownership/liveness analysis of MulAcc accumulators", "§4 C10 / §10.6 / §10.8"),
 "C11": ("order + binding (level other): the observe/squeeze events of GetChallenges∘GetFriChallenges are totally ordered in plonky2's reference order, openings observed in content order, every transcript-bound leaf observed with full coverage, ObserveElement clears the output buffer, the challenger is never updated through a copy. The sponge arithmetic over arbitrary histories is not decided.",
         "event-sequence extraction over the SSA CFG (dominance order) + content-sequence analysis", "§4 C11"),
 "C12": ("presence / coverage / provenance (level other) of the Merkle equalities for initial and commit-phase trees, index-bit provenance, caps order. Left/right ordering and lookup arithmetic are test-pinned, not claimed. Also: no hidden state — outside initialisers/constructors nothing writes package-level variables or chip fields (tabled exceptions), so nothing is carried from one circuit, proof or call to the next.",
         "must-execute + dependency + loop-coverage analysis", "§4 C12"),
 "C13": ("presence and coverage only (level other) of the fold-consistency and final-polynomial equalities (both coordinates), invertibility assertions and round coverage. Formulas are not decided. Also: no hidden state — outside initialisers/constructors nothing writes package-level variables or chip fields (tabled exceptions), so nothing is carried from one circuit, proof or call to the next.",
         "must-execute + dependency + loop-coverage analysis", "§4 C13"),
 "C14": ("strong structural claim (level other): must-executed range check of FriPowResponse with width 64-ProofOfWorkBits, dependent on PowWitness, live in every backend (C06), widths aligned (W3). Also: no hidden state — outside initialisers/constructors nothing writes package-level variables or chip fields (tabled exceptions), so nothing is carried from one circuit, proof or call to the next.",
         "must-execute + origin/width-expression analysis", "§4 C14"),
 "C15": ("narrow structural clauses only (level other): the selector-filtering and position-wise-sum half of the property, decided on the SSA of plonk/gates — every gate evaluated once with its own row, selectorIndices[i], groups[selectorIndices[i]] and NumSelectors(); results added position-wise into a zeroed, returned vector; the selector constant read before RemovePrefix, exactly numSelectors constants stripped before the gate sees them, every returned constraint multiplied by the filter; computeFilter = ∏(i−s) over [start,end) skipping exactly i = row, times (UNUSED_SELECTOR−s) iff several selector polynomials, UNUSED_SELECTOR = 2^32−1. Equality of each Gate.EvalUnfiltered body with plonky2's gate polynomial for all wire values and parameterisations is numeric and NOT decided. Also: no hidden state — outside initialisers/constructors nothing writes package-level variables or chip fields (tabled exceptions), so nothing is carried from one circuit, proof or call to the next.",
         "SSA shape matching of the fold/map loops (counted-loop descriptors, must-execute, φ recurrences) + argument-role flow between caller and callee", "§5 C15 / §10.7"),
 "C16": ("presence and coverage only (level other) of the per-round extension equality and the L0 existence assertion, L0 evaluated uniformly, and the partial-product openings read through consecutive per-round windows of width NumPartialProducts (affine or cursor form). The products and quotient identities themselves are not decided. Also: no hidden state — outside initialisers/constructors nothing writes package-level variables or chip fields (tabled exceptions), so nothing is carried from one circuit, proof or call to the next.",
         "must-execute + dependency + loop-coverage analysis + polynomial normalisation of slice bounds", "§4 C16"),
 "C17": ("strong structural claim (level other): T2 coverage generated from go/types — every Goldilocks-typed leaf of the proof (both coordinates) reaches the canonical range check itself, on every path, with full loop coverage; plus C06.",
         "type-generated field coverage + must-execute + loop-coverage analysis", "§4 C17"),
 "C18": ("strong structural claim (level other): language-level analysis of the gate regex registry (product/subset automata via regexp/syntax): each supported identifier template matches its own pattern and no other (independence of map order), no pattern matches an unimplemented gate template unless the handler refuses, the no-match exit panics, capture groups flow through checked strconv parses into the tabled constructor arguments, hiding is refused. Also: no hidden state — outside initialisers/constructors nothing writes package-level variables or chip fields (tabled exceptions), so nothing is carried from one circuit, proof or call to the next.",
         "regular-language disjointness (automata) + SSA parameter-flow analysis", "§4 C18"),
 "C19": ("partial (level other): every json.Unmarshal error is checked and decodes into a fresh local; no document string is handed to gnark unparsed; raw decoder leaf types are uint64/string only; SetString uses base 10 with unmerged result; field-by-field copy completeness and position (full-range over the very list that is read at the loop's index, same index); raw 64-bit leaves are wrapped into variables as decoded (no intermediate computation). Value equality for arbitrary documents is not decided.",
         "decoder-discipline lint over go/types + SSA copy-map analysis", "§4 C19"),
 "C20": ("guard presence (level other): the 20 shape refusals, keyed by the compared quantities, execute on every path for all elements of the list they validate. That a shape change not covered by a guard is rejected by the equations is not decided. Also: no hidden state — outside initialisers/constructors nothing writes package-level variables or chip fields (tabled exceptions), so nothing is carried from one circuit, proof or call to the next.",
         "T3 guard table over must-execute analysis", "§4 C20"),
}
not_applicable = {
}
built = set(l.strip() for l in open(os.path.join(D, "claimed.txt")) if l.strip())
checks = []
for pid in sorted(claimed):
    if pid not in built:
        not_applicable[pid] = "check not built yet in this round (planned: " + claimed[pid][1] + ")"
        continue
    text, tech, ref = claimed[pid]
    checks.append({
        "property_id": pid,
        "quick_cmd": f"./check {pid} quick",
        "thorough_cmd": f"./check {pid} thorough",
        "evidence_file": f"/verif/evidence/{pid}.json",
        "replay_cmd_template": "./check --replay {path}",
        "engine": "glcheck",
        "level_claimed": {"category": "other", "text": text, "design_ref": "DESIGN.md " + ref},
        "level_note": "trusted: go/types+go/ssa (x/tools v0.29.0) model of the build; gnark v0.9.1 API semantics as tabled in analyzer/calls.go; the frozen obligation tables (analyzer/rules_*.go) derived by reading this code against plonky2's verifier. Deps is a may-relation (can hide a removal, cannot raise a false alarm); must-execute is exact on the CFG modulo infeasible paths.",
        "technique": "static analysis: " + tech,
    })
man = {
 "version": 1,
 "setup_cmd": "cd /verif/analyzer && GOFLAGS=-mod=mod GOPROXY=off GOSUMDB=off GOTOOLCHAIN=local GOWORK=off go build -o ../bin/glcheck .",
 "hooks": {
  "guard": "verif",
  "enable": "no source hooks: the analysis reads /repo's sources (unexported functions included) through go/packages; nothing is built with a tag",
  "baseline_off_cmd": "cd /repo/gnark-plonky2-verifier && GOFLAGS=-mod=mod go test -json -vet=off -count=1 -timeout 25m ./...",
  "source_commits": [],
  "add_only": True,
 },
 "engines": [{"name": "glcheck", "path": "analyzer/", "serves_properties": [c["property_id"] for c in checks],
              "kind_free_text": "repository-specific static analyzer over go/packages + go/ssa: abstract interpretation of origins/dependencies, must-execute modulo refusal, loop coverage, enum-dispatch path analysis, linear-form / bound evaluation, regex-language analysis"}],
 "checks": checks,
 "not_applicable": [{"property_id": k, "reason": v} for k, v in sorted(not_applicable.items())],
 "notes": "Repairs of genuine defects in /repo (separate 'fix:' commits f3321f6 450173e 8f48872 6b0db19) are recorded in known_findings.json as fixed; no finding is suppressed. thorough = quick + the both-ways self-test corpus (selftest/) replayed on scratch copies for the property's rules.",
}
json.dump(man, open(os.path.join(D, "MANIFEST.json"), "w"), indent=1)
print("checks:", [c["property_id"] for c in checks], "n/a:", sorted(not_applicable))
