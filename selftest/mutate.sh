#!/bin/bash
# usage: mutate.sh <name> <prop-list> <<< "python-style: file|old|new" lines  (or -p patchfile)
# Copies the Go module to a scratch dir, applies one textual edit, checks it still compiles, runs glcheck on it
# and prints the verdict. The scratch copy is removed afterwards. Never touches /repo.
set -u
name=$1; props=$2; spec=$3
S=$(mktemp -d /tmp/glmut.XXXXXX)
cp -r /repo/gnark-plonky2-verifier "$S/m"
python3 - "$S/m" "$spec" <<'PY'
import sys
root, spec = sys.argv[1], sys.argv[2]
for edit in spec.split("@@@"):
    f, old, new = edit.split("|||")
    p = root + "/" + f
    s = open(p).read()
    if s.count(old) < 1:
        print("EDIT-NOT-APPLICABLE", f, repr(old)); sys.exit(7)
    s = s.replace(old, new, 1)
    open(p, "w").write(s)
PY
rc=$?
if [ $rc -ne 0 ]; then rm -rf "$S"; echo "RESULT $name SKIP(edit)"; exit 0; fi
export GOFLAGS=-mod=mod GOPROXY=off GOSUMDB=off GOTOOLCHAIN=local; unset GOWORK
if ! (cd "$S/m" && go build ./... 2>"$S/build.err" && go vet ./tests >/dev/null 2>>"$S/build.err" || go test -count=1 -run '^$' ./tests >/dev/null 2>>"$S/build.err"); then
  echo "RESULT $name SKIP(does not compile)"; head -5 "$S/build.err"; rm -rf "$S"; exit 0
fi
out=$(cd /verif && GLCHECK_REPO="$S/m" VERIF_DIR="$S" GLCHECK_NO_EVIDENCE=1 ./bin/glcheck check $props quick 2>&1)
keys=$(echo "$out" | grep -E "^  (VIOLATED|UNDECIDED)" | awk '{print $2}' | tr '\n' ' ')
if echo "$out" | grep -q "^VIOLATION"; then echo "RESULT $name FIRED $keys"; else echo "RESULT $name SILENT"; fi
[ -n "${SHOW:-}" ] && echo "$out" | grep -v "^loaded" | head -${SHOW}
rm -rf "$S"
