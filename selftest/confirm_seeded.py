#!/usr/bin/env python3
"""Independently confirms a seeded change: in a fresh scratch worktree of /repo (removed afterwards) it checks that the
patch applies and compiles, that the 30 baseline tests still pass with it, that the demonstration FAILS with the
change and PASSES without it. usage: confirm_seeded.py <dir with patch.diff, demo test file(s), demo_cmd.txt> <name>
Writes <dir>/confirm.json."""
import sys, os, subprocess, json, shutil, glob, tempfile, re
src, name = sys.argv[1], sys.argv[2]
ENV = dict(os.environ, GOFLAGS='-mod=mod', GOPROXY='off', GOSUMDB='off', GOTOOLCHAIN='local')
ENV.pop('GOWORK', None)
base = json.load(open('/root/.vp/BASELINE.json'))
stable = set(t.split('example-near-light-client/')[1] for t in base['stable_pass'])
wt = tempfile.mkdtemp(prefix='confirm.', dir='/tmp')
os.rmdir(wt)
res = {'name': name, 'patch': os.path.join(src, 'patch.diff')}
def sh(cmd, cwd, timeout=3000, env=ENV):
    p = subprocess.run(cmd, cwd=cwd, env=env, shell=True, capture_output=True, text=True, timeout=timeout)
    return p.returncode, p.stdout + p.stderr
try:
    subprocess.check_call(['git', '-C', '/repo', 'worktree', 'add', '-q', '--detach', wt, 'HEAD'])
    mod = os.path.join(wt, 'gnark-plonky2-verifier')
    demos = sorted(glob.glob(os.path.join(src, '*_test.go')))
    names = []
    for f in demos:
        names += re.findall(r'^func (Test\w+)\(', open(f).read(), re.M)
    raw_cmd = open(os.path.join(src, 'demo_cmd.txt')).read() if os.path.exists(os.path.join(src, 'demo_cmd.txt')) else ''
    envp = dict(ENV)
    m = re.search(r'USE_BIT_DECOMPOSITION_RANGE_CHECK=(\w+)', raw_cmd)
    if m and 'go test' in raw_cmd.split('USE_BIT_DECOMPOSITION_RANGE_CHECK')[1].splitlines()[0]:
        envp['USE_BIT_DECOMPOSITION_RANGE_CHECK'] = m.group(1)
    pkgdir = {'tests': 'tests', 'fri': 'fri', 'goldilocks': 'goldilocks', 'poseidon': 'poseidon', 'plonk': 'plonk', 'gates': 'plonk/gates', 'verifier': 'verifier', 'challenger': 'challenger', 'types': 'types', 'variables': 'variables'}
    dest = 'tests'
    for f in demos:
        m0 = re.search(r'^package (\w+)', open(f).read(), re.M)
        if m0:
            dest = pkgdir.get(m0.group(1).replace('_test', ''), 'tests')
    res['demo_dir'] = dest
    demo_cmd = "go test -vet=off -count=1 -timeout 25m -run '^(%s)$' ./%s/" % ('|'.join(names), dest)
    res['demo_cmd'] = "copy %s into gnark-plonky2-verifier/<demo_dir>/ and run (in gnark-plonky2-verifier): %s" % (', '.join(os.path.basename(f) for f in demos), demo_cmd)
    res['demo_tests'] = names
    def run_demo():
        for f in demos:
            shutil.copy(f, os.path.join(mod, dest, os.path.basename(f)))
        rc, out = sh(demo_cmd, mod, env=envp)
        return rc, out[-3000:]
    rc, out = run_demo()
    res['demo_without_change'] = 'PASS' if rc == 0 else 'FAIL'
    res['demo_without_tail'] = out[-600:]
    rc, out = sh('git apply --whitespace=nowarn ' + os.path.join(src, 'patch.diff'), wt)
    res['applies'] = rc == 0
    rc, out = sh('go build ./...', mod)
    res['compiles'] = rc == 0
    rc, out = run_demo()
    res['demo_with_change'] = 'PASS' if rc == 0 else 'FAIL'
    res['demo_with_tail'] = out[-900:]
    for f in demos:
        os.remove(os.path.join(mod, dest, os.path.basename(f)))
    rc, out = sh('go test -json -vet=off -count=1 -timeout 25m ./... > ' + wt + '/suite.json 2>&1', mod)
    passed = set()
    for l in open(wt + '/suite.json'):
        try:
            e = json.loads(l)
        except Exception:
            continue
        if e.get('Action') == 'pass' and e.get('Test'):
            passed.add(e['Package'].split('example-near-light-client/')[1] + '::' + e['Test'])
    res['baseline_pass_with_change'] = len(stable & passed)
    res['baseline_missing'] = sorted(stable - passed)
    res['confirmed'] = bool(res['applies'] and res['compiles'] and res['demo_without_change'] == 'PASS' and res['demo_with_change'] == 'FAIL' and not res['baseline_missing'])
finally:
    subprocess.call(['git', '-C', '/repo', 'worktree', 'remove', '--force', wt])
    shutil.rmtree(wt, ignore_errors=True)
json.dump(res, open(os.path.join(src, 'confirm.json'), 'w'), indent=1)
print(name, 'CONFIRMED' if res.get('confirmed') else 'NOT-CONFIRMED', {k: res.get(k) for k in ('applies', 'compiles', 'demo_without_change', 'demo_with_change', 'baseline_pass_with_change')})
