#!/usr/bin/env python3
"""Re-runs the current checks against every installed seeded change (on scratch copies) and refreshes the
`my_checks` section of its meta.json; then regenerates the table in DESIGN.md. usage: refresh_seeded.py [id-prefix]"""
import sys, os, json, glob, subprocess, re, concurrent.futures as cf
pref = sys.argv[1] if len(sys.argv) > 1 else ''
dirs = sorted(d for d in glob.glob('/verif/seeded/*/') if os.path.exists(d + 'meta.json') and os.path.basename(d[:-1]).startswith(pref))
def one(d):
    meta = json.load(open(d + 'meta.json'))
    props = meta['my_checks'].get('ran') or meta['property']
    out = subprocess.run(['/verif/selftest/apply_seeded.sh', d + 'patch.diff', props], capture_output=True, text=True).stdout
    fired = sorted(set(re.findall(r'^  (?:VIOLATED|UNDECIDED) (\S+)', out, re.M)))
    pf = sorted(set(re.findall(r'^VIOLATION property=(\S+)', out, re.M)))
    meta['my_checks'].update({'properties_firing': pf, 'rules_firing': fired})
    json.dump(meta, open(d + 'meta.json', 'w'), indent=1)
    return meta['id'], pf, fired[:3]
with cf.ThreadPoolExecutor(max_workers=int(os.environ.get('SELFTEST_JOBS', '4'))) as ex:
    for sid, pf, fired in ex.map(one, dirs):
        print(f'{sid:10s} {"CAUGHT" if pf else "missed":7s} {",".join(pf):12s} {" ".join(fired)}'[:200])
subprocess.run(['python3', '/verif/selftest/seeded_table.py'], capture_output=True)
