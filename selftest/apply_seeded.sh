#!/bin/bash
# usage: apply_seeded.sh <patch.diff> <props>   — applies a seeded patch to a scratch copy of /repo's module and runs glcheck
set -u
patch=$1; props=$2
S=$(mktemp -d /tmp/glseed.XXXXXX)
mkdir -p "$S/r" && cp -r /repo/gnark-plonky2-verifier "$S/r/gnark-plonky2-verifier"
(cd "$S/r" && git init -q . 2>/dev/null; git apply --whitespace=nowarn "$patch") || { echo "PATCH-FAILED"; rm -rf "$S"; exit 2; }
export GOFLAGS=-mod=mod GOPROXY=off GOSUMDB=off GOTOOLCHAIN=local; unset GOWORK
(cd "$S/r/gnark-plonky2-verifier" && go build ./... ) || { echo "BUILD-FAILED"; rm -rf "$S"; exit 2; }
out=$(cd /verif && GLCHECK_REPO="$S/r/gnark-plonky2-verifier" VERIF_DIR="$S" GLCHECK_NO_EVIDENCE=1 ./bin/glcheck check "$props" quick 2>&1)
echo "$out" | grep -E "^  (VIOLATED|UNDECIDED)|^VIOLATION|^C[0-9]+:" | cut -c1-400
[ -n "${SHOW:-}" ] && echo "$out" | grep -A3 -E "^  (VIOLATED|UNDECIDED)" | cut -c1-600
rm -rf "$S"
