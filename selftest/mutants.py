#!/usr/bin/env python3
"""Both-ways self-test corpus: (name, properties expected to fire or [] for behaviour-preserving refactors, edits).
Each edit is (file, old, new) applied to a scratch copy of the Go module (never to /repo)."""
M = []
def m(name, props, *edits):
    M.append((name, props, edits))

B = 'goldilocks/base.go'
Q = 'goldilocks/quadratic_extension.go'
F = 'fri/fri.go'
FU = 'fri/fri_utils.go'
V = 'verifier/verifier.go'
U = 'verifier/util.go'
P = 'plonk/plonk.go'
PG = 'poseidon/goldilocks.go'
CH = 'challenger/challenger.go'

# ---- must fire
m('M01-mulad-no-rc-quotient', ['C05'], (B, "\tp.RangeCheck(quotient)\n\tp.RangeCheck(remainder)\n\treturn remainder", "\tp.RangeCheck(remainder)\n\treturn remainder"))
m('M02-inverse-no-rc', ['C05', 'C07'], (B, "\tp.RangeCheck(inverse)\n", ""))
m('M03-rangecheck-no-hi-limb', ['C06', 'C05'], (B, "\tp.rangeCheckerCheck(mostSigLimb, 32)\n", ""))
m('M04-muladd-no-eq', ['C05'], (B, "\tp.api.AssertIsEqual(lhs, rhs)\n", "\t_, _ = lhs, rhs\n"))
m('M05-no-top-limb', ['C06'], (B, "\tp.api.AssertIsEqual(\n\t\tp.api.Select(\n\t\t\tshouldCheck,\n\t\t\tleastSigLimb,\n\t\t\tfrontend.Variable(0),\n\t\t),\n\t\tfrontend.Variable(0),\n\t)\n", "\t_ = shouldCheck\n"))
m('M06-sbox-192', ['C05', 'C09'], (PG, "ReduceWithMaxBits(x3, 128)", "ReduceWithMaxBits(x3, 192)"))
m('M07-nbbits-200', ['C05'], (B, "var RANGE_CHECK_NB_BITS int = 144", "var RANGE_CHECK_NB_BITS int = 208"))
m('M08-nbbits-140', ['C05'], (B, "var RANGE_CHECK_NB_BITS int = 144", "var RANGE_CHECK_NB_BITS int = 140"))
m('M08b-nbbits-128', ['C07'], (B, "var RANGE_CHECK_NB_BITS int = 144", "var RANGE_CHECK_NB_BITS int = 128"))
m('M09-native-empty', ['C06', 'C17', 'C14', 'C05'], (B, "\tcase NATIVE_RANGE_CHECKER, BIT_DECOMP_RANGE_CHECKER:", "\tcase NATIVE_RANGE_CHECKER:\n\tcase BIT_DECOMP_RANGE_CHECKER:"))
m('M10-no-defer', ['C06'], (B, "\t\tif c.rangeCheckerType == COMMIT_RANGE_CHECKER {\n\t\t\tapi.Compiler().Defer(c.checkCollected)\n\t\t}\n", ""))
m('M11-drain-all-but-last', ['C06'], (B, "for _, v := range p.rangeCheckCollected {", "for _, v := range p.rangeCheckCollected[:len(p.rangeCheckCollected)-1] {"))
m('M12-bitdecomp-noop', ['C06'], ('goldilocks/utils.go', "\tbits.ToBinary(pl.api, v, bits.WithNbDigits(nbBits))\n", "\t_ = bits.ToBinary\n"))
m('M12b-bitdecomp-const-width', ['C06'], ('goldilocks/utils.go', "bits.WithNbDigits(nbBits)", "bits.WithNbDigits(64)"))
m('M13-no-sweep-zsnext', ['C17'], (V, "\tfor _, plonkZNext := range proof.Openings.PlonkZsNext {\n\t\tc.glChip.RangeCheckQE(plonkZNext)\n\t}\n", ""))
m('M14-sweep-wires-80', ['C17'], (V, "range proof.Openings.Wires {", "range proof.Openings.Wires[:80] {"))
m('M15-sweep-coord0', ['C17'], (V, "\t\tc.glChip.RangeCheckQE(quotientPoly)", "\t\tc.glChip.RangeCheck(quotientPoly[0])"))
m('M15b-sweep-continue', ['C17'], (V, "\tfor _, wire := range proof.Openings.Wires {\n\t\tc.glChip.RangeCheckQE(wire)", "\tfor i, wire := range proof.Openings.Wires {\n\t\tif i%2 == 1 {\n\t\t\tcontinue\n\t\t}\n\t\tc.glChip.RangeCheckQE(wire)"))
m('M16-no-rangecheckproof', ['C17'], (V, "\tc.rangeCheckProof(proof)\n", ""))
m('M17-no-merkle-eq', ['C12'], (F, "\tf.api.AssertIsEqual(currentDigest, merkleCapEntry)\n", "\t_ = merkleCapEntry\n"))
m('M18-siblings-from-1', ['C12'], (F, "for i, sibling := range proof.Siblings {", "for i, sibling := range proof.Siblings[1:] {"))
m('M19-initial-trees-from-1', ['C12'], (F, "for i := 0; i < len(initialMerkleCaps); i++ {", "for i := 1; i < len(initialMerkleCaps); i++ {"))
m('M20-fold-no-coord1', ['C13'], (F, "\t\tf.gl.AssertIsEqual(newEval[1], oldEval[1])\n", ""))
m('M21-no-final-poly', ['C13'], (F, "\tf.gl.AssertIsEqual(oldEval[0], finalPolyEval[0])\n\tf.gl.AssertIsEqual(oldEval[1], finalPolyEval[1])\n", "\t_ = finalPolyEval\n"))
m('M22-rounds-first-only', ['C13', 'C12'], (F, "for idx, xIndex := range friChallenges.FriQueryIndices {", "for idx, xIndex := range friChallenges.FriQueryIndices[:1] {"))
m('M23-no-hasinv-weights', ['C13'], (F, "\t\tinv, hasInv := f.gl.InverseExtension(barycentricWeights[i])\n\t\tf.api.AssertIsEqual(hasInv, frontend.Variable(1))", "\t\tinv, _ := f.gl.InverseExtension(barycentricWeights[i])"))
m('M24-no-pow', ['C14'], (F, "\tf.assertLeadingZeros(friChallenges.FriPowResponse, f.friParams.Config)\n", ""))
m('M25-pow-width-64', ['C14'], (F, "f.gl.RangeCheckWithMaxBits(powWitness, 64-friConfig.ProofOfWorkBits)", "f.gl.RangeCheckWithMaxBits(powWitness, 64)"))
m('M25b-pow-checks-alpha', ['C14'], (F, "f.assertLeadingZeros(friChallenges.FriPowResponse, f.friParams.Config)", "f.assertLeadingZeros(friChallenges.FriAlpha[0], f.friParams.Config)"))
m('M26-plonk-first-round-only', ['C16'], (P, "\t\tglApi.AssertIsEqualExtension(vanishingPolysZeta[i], prod)", "\t\tif i == 0 {\n\t\t\tglApi.AssertIsEqualExtension(vanishingPolysZeta[i], prod)\n\t\t}"))
m('M26b-plonk-no-assert', ['C16'], (P, "\t\tglApi.AssertIsEqualExtension(vanishingPolysZeta[i], prod)", "\t\t_ = prod"))
m('M27-no-hasquotient', ['C16'], (P, "\tp.api.AssertIsEqual(hasQuotient, frontend.Variable(1))\n", "\t_ = hasQuotient\n"))
m('M28-inverse-ext-no-nonzero', ['C08'], (Q, "\tp.api.AssertIsEqual(aIsZero, frontend.Variable(0))\n", "\t_ = aIsZero\n"))
m('M28b-iszero-one-coord', ['C08'], (Q, "\treturn p.api.Mul(x0IsZero, x1IsZero)", "\t_ = x1IsZero\n\treturn p.api.Mul(x0IsZero, x0IsZero)"))
m('M29-inverse-unconditional', ['C07'], (B, "\tproductToCheck := p.api.Select(hasInv, product.Limb, frontend.Variable(1))\n\tp.api.AssertIsEqual(productToCheck, frontend.Variable(1))", "\tp.api.AssertIsEqual(product.Limb, frontend.Variable(1))"))
m('M30-hash-no-reduce', ['C09'], (PG, "inputVars = append(inputVars, c.Gl.Reduce(input[i]))", "inputVars = append(inputVars, input[i])"))
m('M48-caps0-wires', ['C12'], (V, "\t\tverifierData.ConstantSigmasCap,\n\t\tproof.WiresCap,", "\t\tproof.WiresCap,\n\t\tproof.WiresCap,"))
m('M49-merkle-const-capbits', ['C12'], (F, "capIndexBits := xIndexBits[len(xIndexBits)-int(f.friParams.Config.CapHeight):]", "capIndexBits := xIndexBits[:int(f.friParams.Config.CapHeight)]"))
m('M50-commit-leaf-coord0', ['C12'], (F, "\t\t\tfieldEvals = append(fieldEvals, evals[j][1])\n", "\t\t\tfieldEvals = append(fieldEvals, evals[j][0])\n"))
m('M51-tables-vars-differ', ['C09'], ('poseidon/goldilocks_constants.go', "var MDS0TO0_VAR = frontend.Variable(uint64(25))", "var MDS0TO0_VAR = frontend.Variable(uint64(26))"))

# ---- C20 / C03 / C04 / C01 / C11
m('M33-shape-no-steps-guard', ['C20'], (FU, "\t\tif len(steps) != len(params.ReductionArityBits) {\n\t\t\tpanic(\"length of steps != params.reduction_arity_bits\")\n\t\t}\n", ""))
m('M33b-shape-no-finalpoly-guard', ['C20'], (FU, "\tif len(finalPoly.Coeffs) != params.FinalPolyLen() {\n\t\tpanic(\"len finalPoly doesn't match params FinalPolyLen\")\n\t}\n", "\t_ = finalPoly\n"))
m('M34-no-shape-validation', ['C20'], (F, "\tvalidateFriProofShape(friProof, instance, f.friParams)\n", ""))
m('M35-rounds-guard-lt', ['C20'], (F, "if int(f.friParams.Config.NumQueryRounds) != len(friProof.QueryRoundProofs) {", "if int(f.friParams.Config.NumQueryRounds) < len(friProof.QueryRoundProofs) {"))
m('M35b-shape-first-round-only', ['C20'], (FU, "\tfor _, queryRound := range queryRoundProofs {", "\tfor _, queryRound := range queryRoundProofs[:1] {"))
m('M35c-no-interp-arity-guard', ['C20'], (F, "\tif (len(evals)) != arity {\n\t\tpanic(\"len(evals) != arity\")\n\t}\n", "\t_ = arity\n"))
m('M35d-no-indices-guard', ['C20'], (F, "\tif len(friChallenges.FriQueryIndices) != len(friProof.QueryRoundProofs) {\n\t\tpanic(fmt.Sprintf(\n\t\t\t\"Number of query indices (%d) should equal number of query round proofs (%d)\",\n\t\t\tlen(friChallenges.FriQueryIndices),\n\t\t\tlen(friProof.QueryRoundProofs),\n\t\t))\n\t}\n", ""))
m('M35e-cap16-guard-and', ['C20'], (F, "if len(capIndexBits) != 4 || len(merkleCap) != 16 {", "if len(capIndexBits) != 4 && len(merkleCap) != 16 {"))
m('M41-no-hiding-refusal', ['C20', 'C18'], ('types/common_data.go', "\tif raw.FriParams.Hiding {\n\t\tpanic(\"Circuit has hiding enabled, which is not supported\")\n\t}\n", ""))
m('M31-no-limb-width-check', ['C03'], (U, "\t\t\tglChip.RangeCheckWithMaxBits(slicePub[i], 32)\n", ""), (U, "\tglChip := gl.New(api)\n", ""))
m('M31b-limb-width-64', ['C03'], (U, "glChip.RangeCheckWithMaxBits(slicePub[i], 32)", "glChip.RangeCheckWithMaxBits(slicePub[i], 64)"))
m('M31c-assert-3-values', ['C03'], (U, "\tfor j := 0; j < 4; j++ {\n\t\tpublicInputLimb", "\tfor j := 0; j < 3; j++ {\n\t\tpublicInputLimb"))
m('M31d-pis-guard-le', ['C03', 'C20'], (U, "if len(publicInputs) != 16 {", "if len(publicInputs) < 16 {"))
m('M31e-width-check-other-elem', ['C03'], (U, "glChip.RangeCheckWithMaxBits(slicePub[i], 32)", "glChip.RangeCheckWithMaxBits(slicePub[0], 32)"))
m('M32-untag-fixed', ['C04'], (U, "\tVerifierData      variables.VerifierOnlyCircuitData `gnark:\"-\"`\n", "\tVerifierData      variables.VerifierOnlyCircuitData\n"))
m('M32b-untag-verifiercircuit', ['C04'], (U, "\tVerifierData variables.VerifierOnlyCircuitData `gnark:\"-\"`\n", "\tVerifierData variables.VerifierOnlyCircuitData\n"))
m('M46-pow-observed-late', ['C11', 'C01'], (CH, "\tc.ObserveElement(powWitness)\n\n\tfriPowResponse := c.GetChallenge()\n", "\tfriPowResponse := c.GetChallenge()\n\tc.ObserveElement(powWitness)\n"))
m('M46b-skip-quotient-cap', ['C11'], (V, "\tchallenger.ObserveCap(proof.QuotientPolysCap)\n", ""))
m('M46c-zsnext-first-batch', ['C11'], (F, "\tvalues = append(values, c.PlonkZs...)         // num_challenges\n", "\tvalues = append(values, c.PlonkZsNext...)     // num_challenges\n"), (F, "\tzetaNextBatch := OpeningBatch{Values: c.PlonkZsNext}", "\tzetaNextBatch := OpeningBatch{Values: c.PlonkZs}"))
m('M46d-gammas-before-betas', ['C11'], (V, "\t\tPlonkBetas:  plonkBetas,\n\t\tPlonkGammas: plonkGammas,", "\t\tPlonkBetas:  plonkGammas,\n\t\tPlonkGammas: plonkBetas,"))
m('M46e-observe-cap-from-1', ['C11'], (CH, "\tfor i := 0; i < len(cap); i++ {\n\t\tc.ObserveBN254Hash(cap[i])", "\tfor i := 1; i < len(cap); i++ {\n\t\tc.ObserveBN254Hash(cap[i])"))
m('M47-no-buffer-reset', ['C11'], (CH, "\t// Clear the output buffer\n\tc.outputBuffer = make([]gl.Variable, 0)\n\tc.inputBuffer = append(c.inputBuffer, element)", "\tc.inputBuffer = append(c.inputBuffer, element)"))
m('M52-verify-wrong-pis', ['C01'], (U, "verifierChip.Verify(c.ProofWithPis.Proof, c.ProofWithPis.PublicInputs, c.VerifierData)", "verifierChip.Verify(c.ProofWithPis.Proof, c.ProofWithPis.PublicInputs[:8], c.VerifierData)"))
m('M53-plonk-hash-of-nothing', ['C01'], (V, "\tpublicInputsHash := c.GetPublicInputsHash(publicInputs)\n", "\tpublicInputsHash := c.GetPublicInputsHash(publicInputs[:0])\n"))
m('M54-no-plonk-verify', ['C01', 'C16'], (V, "\tc.plonkChip.Verify(proofChallenges, proof.Openings, publicInputsHash)\n", ""))
m('R15-guard-positive-form-pis', [], (U, "\tif len(publicInputs) != 16 {\n\t\treturn fmt.Errorf(\"expected 16 public inputs, got %d\", len(publicInputs))\n\t}", "\tif n := len(publicInputs); n != 16 {\n\t\treturn fmt.Errorf(\"expected 16 public inputs, got %d\", n)\n\t}"))
m('R16-challenger-local-rename', [], (V, "\tvar circuitDigest = verifierData.CircuitDigest\n\n\tchallenger.ObserveBN254Hash(circuitDigest)", "\tchallenger.ObserveBN254Hash(verifierData.CircuitDigest)"))
m('R17-packing-muladd-order', [], (U, "publicInputLimb = api.Add(pubU32, api.Mul(pubByte, publicInputLimb))", "publicInputLimb = api.Add(api.Mul(publicInputLimb, pubByte), pubU32)"))

# ---- C18
G = 'plonk/gates/'
m('M36-regex-arith-loose', ['C18'], (G+'arithmetic_gate.go', 'regexp.MustCompile("ArithmeticGate { num_ops: (?P<numOps>[0-9]+) }")', 'regexp.MustCompile("ArithmeticGate.*num_ops: (?P<numOps>[0-9]+)")'))
m('M36b-regex-reducing-prefix', ['C18'], (G+'reducing_gate.go', 'regexp.MustCompile("ReducingGate { num_coeffs: (?P<numCoeffs>[0-9]+) }")', 'regexp.MustCompile("Reducing.*Gate { num_coeffs: (?P<numCoeffs>[0-9]+) }")'))
m('M37-coset-any-degree', ['C18'], (G+'coset_interpolation_gate.go', "PhantomData<plonky2_field::goldilocks_field::GoldilocksField> }<D=2>`)", "PhantomData<plonky2_field::goldilocks_field::GoldilocksField> }`)"))
m('M38-unknown-gate-noop', ['C18'], (G+'gates.go', '\tpanic(fmt.Sprintf("Unknown gate ID %s", gateId))', '\tfmt.Printf("Unknown gate ID %s\\n", gateId)\n\treturn NewNoopGate()'))
m('M39-swap-bits-copies', ['C18'], (G+'random_access_gate.go', "\treturn NewRandomAccessGate(bitsInt, numCopiesInt, numExtraConstantsInt)", "\treturn NewRandomAccessGate(numCopiesInt, bitsInt, numExtraConstantsInt)"))
m('M40-ignore-atoi-error', ['C18'], (G+'constant_gate.go', "\tnumConstsInt, err := strconv.Atoi(numConsts)\n\tif err != nil {\n\t\tpanic(\"Invalid num_consts field in ConstantGate\")\n\t}\n", "\tnumConstsInt, _ := strconv.Atoi(numConsts)\n"))
m('M40b-exp-no-degree-check', ['C18'], (G+'exponentiation_gate.go', "\tif baseInt != gl.D {\n\t\tpanic(\"Expected base field in ExponentiationGate to equal gl.D\")\n\t}\n", "\t_ = baseInt\n"))
m('M40c-noop-loose', ['C18'], (G+'noop_gate.go', 'regexp.MustCompile("NoopGate")', 'regexp.MustCompile("Gate")'))
m('R18-anchor-regex', [], (G+'constant_gate.go', 'regexp.MustCompile("ConstantGate { num_consts: (?P<numConsts>[0-9]+) }")', 'regexp.MustCompile("ConstantGate \\\\{ num_consts: (?P<numConsts>[0-9]+) \\\\}")'))

# ---- C19
TD = 'types/deserialize.go'
VD = 'variables/deserialize.go'
m('M42-ignore-unmarshal-error', ['C19'], (TD, "\tvar raw VerifierOnlyCircuitDataRaw\n\tif err := json.Unmarshal(data, &raw); err != nil {\n\t\tpanic(err)\n\t}\n\treturn raw", "\tvar raw VerifierOnlyCircuitDataRaw\n\t_ = json.Unmarshal(data, &raw)\n\treturn raw"))
m('M43-raw-field-int64', ['C19'], (TD, "\t\t\tPowWitness uint64 `json:\"pow_witness\"`", "\t\t\tPowWitness int64 `json:\"pow_witness\"`"), (VD, "openingProof.PowWitness = gl.NewVariable(openingProofRaw.PowWitness)", "openingProof.PowWitness = gl.NewVariable(uint64(openingProofRaw.PowWitness))"), (VD, "\t\tFinalPoly  struct{ Coeffs [][]uint64 }\n\t\tPowWitness uint64\n", "\t\tFinalPoly  struct{ Coeffs [][]uint64 }\n\t\tPowWitness int64\n"), (VD, "\tFinalPoly struct {\n\t\tCoeffs [][]uint64\n\t}\n\tPowWitness uint64\n", "\tFinalPoly struct {\n\t\tCoeffs [][]uint64\n\t}\n\tPowWitness int64\n"))
m('M44-setstring-base0', ['C19'], (VD, "\t\tcapBigInt, _ := new(big.Int).SetString(merkleCapRaw[i], 10)", "\t\tcapBigInt, _ := new(big.Int).SetString(merkleCapRaw[i], 0)"))
m('M45-default-on-parse-failure', ['C19'], (VD, "\tcircuitDigestBigInt, _ := new(big.Int).SetString(raw.CircuitDigest, 10)\n", "\tcircuitDigestBigInt, ok := new(big.Int).SetString(raw.CircuitDigest, 10)\n\tif !ok {\n\t\tcircuitDigestBigInt = big.NewInt(0)\n\t}\n"))
m('M45b-zs-from-zsnext', ['C19'], (VD, "\t\tPlonkZs:         gl.Uint64ArrayToQuadraticExtensionArray(openingSetRaw.PlonkZs),", "\t\tPlonkZs:         gl.Uint64ArrayToQuadraticExtensionArray(openingSetRaw.PlonkZsNext),"))
m('M45c-copy-from-1', ['C19'], ('goldilocks/utils.go', "\tfor i := 0; i < len(input); i++ {\n\t\toutput = append(output, NewQuadraticExtensionVariable(NewVariable(input[i][0]), NewVariable(input[i][1])))", "\tfor i := 1; i < len(input); i++ {\n\t\toutput = append(output, NewQuadraticExtensionVariable(NewVariable(input[i][0]), NewVariable(input[i][1])))"))
m('M45d-siblings-shifted', ['C19'], (VD, "\t\thashBigInt, _ := new(big.Int).SetString(rawHashes[i], 10)", "\t\thashBigInt, _ := new(big.Int).SetString(rawHashes[len(rawHashes)-1-i], 10)"))
m('M45e-merkleproofraw-swallow', ['C19'], (TD, "\tif err := json.Unmarshal(data, &siblings); err != nil {\n\t\tpanic(err)\n\t}\n", "\tif err := json.Unmarshal(data, &siblings); err != nil {\n\t\treturn nil\n\t}\n"))

# ---- C10 (narrow)
PB = 'poseidon/bn254.go'
m('M60-hashornoop-threshold-4', ['C10'], (PB, "\tif len(input) <= 3 {", "\tif len(input) <= 4 {"))
m('M61-hashnopad-4-limbs', ['C10'], (PB, "\t\t\tendJ := c.min(len(rateChunk), j+3)", "\t\t\tendJ := c.min(len(rateChunk), j+4)"))
m('M62-tovec-chunk-64', ['C10'], (PB, "\tchunkSize := 56", "\tchunkSize := 64"))
m('M63-pack-base-2-32', ['C10'], (PB, "\t\talpha = new(big.Int).Mul(alpha, alpha)\n", ""))
m('M64-tovec-width-254', ['C10', 'C11'], (PB, "\tbits := c.api.ToBinary(hash)", "\tbits := c.api.ToBinary(hash, 254)"))

# ---- C15 (narrow: selector filter / position-wise sum)
EG = 'plonk/gates/evaluate_gates.go'
GV = 'plonk/gates/vars.go'
GS = 'plonk/gates/selectors.go'
m('M65-filter-no-row-skip', ['C15'], (EG, "\t\tif i == uint64(row) {\n\t\t\tcontinue\n\t\t}\n", ""))
m('M66-filter-end-inclusive', ['C15'], (EG, "i < groupRange.end; i++", "i <= groupRange.end; i++"))
m('M67-filter-unused-always', ['C15'], (EG, "\tif manySelector {\n\t\ttmp", "\tif manySelector || true {\n\t\ttmp"))
m('M68-filter-many-ge-1', ['C15'], (EG, "numSelectors > 1)", "numSelectors > 0)"))
m('M69-selector-after-strip', ['C15'], (EG, "\tfilter := g.computeFilter(row, groupRange, vars.localConstants[selectorIndex], numSelectors > 1)\n\n\tvars.RemovePrefix(numSelectors)\n", "\tvars.RemovePrefix(numSelectors)\n\tfilter := g.computeFilter(row, groupRange, vars.localConstants[selectorIndex], numSelectors > 1)\n"))
m('M70-no-remove-prefix', ['C15'], (EG, "\tvars.RemovePrefix(numSelectors)\n", "\tif numSelectors > 1 {\n\t\tvars.RemovePrefix(numSelectors)\n\t}\n"))
m('M71-filter-skips-first', ['C15'], (EG, "\tfor i := range unfiltered {\n\t\tunfiltered[i] = glApi.MulExtension(unfiltered[i], filter)", "\tfor i := 1; i < len(unfiltered); i++ {\n\t\tunfiltered[i] = glApi.MulExtension(unfiltered[i], filter)"))
m('M72-sum-shifted', ['C15'], (EG, "\t\t\tconstraints[i] = glApi.AddExtension(constraints[i], constraint)", "\t\t\tconstraints[0] = glApi.AddExtension(constraints[0], constraint)"))
m('M73-sum-overwrites', ['C15'], (EG, "\t\t\tconstraints[i] = glApi.AddExtension(constraints[i], constraint)", "\t\t\tconstraints[i] = glApi.AddExtension(gl.ZeroExtension(), constraint)"))
m('M74-group-by-row', ['C15'], (EG, "\t\t\tg.selectorsInfo.groups[selectorIndex],", "\t\t\tg.selectorsInfo.groups[i],"))
m('M75-selector-of-first-gate', ['C15'], (EG, "selectorIndex := g.selectorsInfo.selectorIndices[i]", "selectorIndex := g.selectorsInfo.selectorIndices[0]"))
m('M76-remove-prefix-off-by-one', ['C15'], (GV, "e.localConstants = e.localConstants[numSelectors:]", "e.localConstants = e.localConstants[numSelectors+1:]"))
m('M77-unused-selector-value', ['C15'], ('plonk/gates/types.go', "const UNUSED_SELECTOR = uint64(^uint32(0))", "const UNUSED_SELECTOR = uint64(^uint32(0)) - 1"))
m('M80-num-selectors-minus', ['C15'], ('plonk/gates/types.go', "\treturn uint64(len(s.groups))", "\treturn uint64(len(s.selectorIndices))"))
m('M78-skip-last-gate', ['C15', 'C01'], (EG, "\tfor i, gate := range g.gates {", "\tfor i, gate := range g.gates[:len(g.gates)-1] {"))
m('M79-filter-sub-reversed', ['C15'], (EG, "\t\tproduct = glApi.MulExtension(product, glApi.SubExtension(tmp, s))\n\t}\n\n\tif manySelector", "\t\tproduct = glApi.MulExtension(product, glApi.SubExtension(s, tmp))\n\t}\n\n\tif manySelector"))

# ---- added after the second round of seeded changes
m('M81-inverse-guard-on-output', ['C05', 'C07'], (B, "\tisZero := p.api.IsZero(x.Limb)\n\thasInv := p.api.Sub(1, isZero)\n\tp.RangeCheck(inverse)", "\tisZero := p.api.IsZero(inverse.Limb)\n\thasInv := p.api.Sub(1, isZero)\n\tp.RangeCheck(inverse)"))
m('M82-batch-shift-wrong-len', ['C13'], (F, "f.gl.ExpExtension(friAlpha, uint64(len(evals)))", "f.gl.ExpExtension(friAlpha, uint64(len(reducedOpenings)))"))
m('M83-leaf-subslice', ['C12'], (F, "\t\tevals := proof.EvalsProofs[i].Elements\n", "\t\tevals := proof.EvalsProofs[i].Elements[1:]\n"))
m('M84-sponge-zero-extend', ['C09', 'C02'], (PG, "\t\t\tif i+j < len(input) {\n\t\t\t\tstate[j] = input[i+j]\n\t\t\t}", "\t\t\tif i+j < len(input) {\n\t\t\t\tstate[j] = input[i+j]\n\t\t\t} else {\n\t\t\t\tstate[j] = gl.Zero()\n\t\t\t}"))

# ---- MulAcc accumulator discipline (C07: goldilocks sites, C10: poseidon sites)
PB2 = 'poseidon/bn254.go'
m('M85-muladdnoreduce-no-copy', ['C07'], (B, "\tcLimbCopy := p.api.Mul(c.Limb, 1)\n\treturn NewVariable(p.api.MulAcc(cLimbCopy, a.Limb, b.Limb))", "\treturn NewVariable(p.api.MulAcc(c.Limb, a.Limb, b.Limb))"))
m('M86-muladd-no-copy', ['C07'], (B, "\tcLimbCopy := p.api.Mul(c.Limb, 1)\n\tlhs := p.api.MulAcc(cLimbCopy, a.Limb, b.Limb)", "\tlhs := p.api.MulAcc(c.Limb, a.Limb, b.Limb)"))
m('M87-hashornoop-acc-from-input', ['C10'], (PB2, "\t\treturnVal := frontend.Variable(0)\n", "\t\treturnVal := input[0].Limb\n"), (PB2, "\t\tfor i, inputElement := range input {\n\t\t\tmulFactor", "\t\tfor i, inputElement := range input {\n\t\t\tif i == 0 {\n\t\t\t\tcontinue\n\t\t\t}\n\t\t\tmulFactor"))
m('M88-partial-rounds-array-copy', ['C10'], (PB2, "\t\tnewState0 := frontend.Variable(0)\n\t\tfor j := 0; j < BN254_SPONGE_WIDTH; j++ {\n\t\t\tnewState0 = c.api.MulAcc(newState0, sConstants[(BN254_SPONGE_WIDTH*2-1)*i+j], state[j])\n\t\t}\n\n\t\tfor k := 1; k < BN254_SPONGE_WIDTH; k++ {\n\t\t\tstate[k] = c.api.MulAcc(state[k], state[0], sConstants[(BN254_SPONGE_WIDTH*2-1)*i+BN254_SPONGE_WIDTH+k-1])\n\t\t}\n\t\tstate[0] = newState0\n", "\t\tprev := state\n\t\tfor k := 1; k < BN254_SPONGE_WIDTH; k++ {\n\t\t\tstate[k] = c.api.MulAcc(state[k], prev[0], sConstants[(BN254_SPONGE_WIDTH*2-1)*i+BN254_SPONGE_WIDTH+k-1])\n\t\t}\n\t\tstate[0] = frontend.Variable(0)\n\t\tfor j := 0; j < BN254_SPONGE_WIDTH; j++ {\n\t\t\tstate[0] = c.api.MulAcc(state[0], sConstants[(BN254_SPONGE_WIDTH*2-1)*i+j], prev[j])\n\t\t}\n"))
m('M89-mix-accumulates-on-input', ['C10'], (PB2, "\t\tresult[i] = frontend.Variable(0)\n", "\t\tresult[i] = state_[i]\n"))
m('M90-poseidon-keeps-state', ['C10'], (PB2, "\tstate = c.fullRounds(state, true)\n\tstate = c.partialRounds(state)\n", "\tstate = c.fullRounds(state, true)\n\tbefore := state\n\tstate = c.partialRounds(state)\n\tc.api.AssertIsDifferent(before[1], state[1])\n"))

# ---- added after the third batch of seeded changes
m('M91-chip-value-receiver', ['C03', 'C06'], (B, "func (p *Chip) RangeCheckWithMaxBits(x Variable, maxNbBits uint64) {", "func (p Chip) RangeCheckU32(x Variable) {\n\tp.RangeCheckWithMaxBits(x, 32)\n}\n\nfunc (p *Chip) RangeCheckWithMaxBits(x Variable, maxNbBits uint64) {"), (U, "glChip.RangeCheckWithMaxBits(slicePub[i], 32)", "glChip.RangeCheckU32(slicePub[i])"))
m('M92-dispatch-default-collects', ['C06'], (B, "\tcase NATIVE_RANGE_CHECKER, BIT_DECOMP_RANGE_CHECKER:\n\t\tp.rangeChecker.Check(x, nbBits)\n\tcase COMMIT_RANGE_CHECKER:", "\tcase BIT_DECOMP_RANGE_CHECKER:\n\t\tp.rangeChecker.Check(x, nbBits)\n\tdefault:"))

# ---- added after the fourth batch of seeded changes
DS = 'variables/deserialize.go'
GU = 'goldilocks/utils.go'
m('M94-key-embedded', ['C04'], (U, "type VerifierCircuit struct {", "type VerifierData = variables.VerifierOnlyCircuitData\n\ntype VerifierCircuit struct {"), (U, "\tVerifierData variables.VerifierOnlyCircuitData `gnark:\"-\"`\n\n", "\tVerifierData `gnark:\"-\"`\n\n"), (U, "\tVerifierData      variables.VerifierOnlyCircuitData `gnark:\"-\"`\n", "\tVerifierData      `gnark:\"-\"`\n"))
m('M95-squeeze-whole-state', ['C09'], (PG, "\t\tfor i := 0; i < SPONGE_RATE; i++ {\n\t\t\toutputs = append(outputs, state[i])", "\t\tfor i := 0; i < len(state); i++ {\n\t\t\toutputs = append(outputs, state[i])"))
m('M96-steps-bound-from-caps', ['C19'], (DS, "\t\tnumSteps := len(openingProofRaw.QueryRoundProofs[i].Steps)\n", "\t\tnumSteps := len(openingProof.CommitPhaseMerkleCaps)\n"))
m('M97-u64-through-element', ['C19'], (GU, "\t\toutput = append(output, NewVariable(input[i]))", "\t\toutput = append(output, NewVariable(input[i]%MODULUS.Uint64()))"))
m('M98-match-on-trimmed-id', ['C18'], ('plonk/gates/gates.go', "\t\tmatches := regex.FindStringSubmatch(gateId)", "\t\tmatches := regex.FindStringSubmatch(strings.TrimSpace(gateId))"), ('plonk/gates/gates.go', 'import (\n', 'import (\n\t"strings"\n'))

m('M99-defer-for-every-kind', ['C06', 'C02'], (B, "\t\tif c.rangeCheckerType == COMMIT_RANGE_CHECKER {\n\t\t\tapi.Compiler().Defer(c.checkCollected)\n\t\t}\n", "\t\tapi.Compiler().Defer(c.checkCollected)\n"))

# ---- W2 magnitude analysis (honest fit)
m('M100-reducewithpowers-no-step-reduce', ['C02', 'C05', 'C08'], (Q, "\t\tsum = p.ReduceExtension(sum)\n\t}\n\treturn sum", "\t}\n\treturn p.ReduceExtension(sum)"))
m('M101-sbox-single-reduce', ['C02', 'C05'], (PG, "\tx3 = c.Gl.ReduceWithMaxBits(x3, 128)\n", ""))
m('M104-nbbits-128-fit', ['C02'], (B, "var RANGE_CHECK_NB_BITS int = 144", "var RANGE_CHECK_NB_BITS int = 128"))

m('M106-pp-cursor-rebased', ['C16'], (P, "\topenings variables.OpeningSet,\n) []gl.QuadraticExtensionVariable {\n\tglApi := gl.New(p.api)\n\tnumPartProds := p.commonData.NumPartialProducts", "\topenings variables.OpeningSet,\n\troundPartialProducts []gl.QuadraticExtensionVariable,\n) []gl.QuadraticExtensionVariable {\n\tglApi := gl.New(p.api)\n\tnumPartProds := p.commonData.NumPartialProducts"), (P, "\tproductAccs = append(productAccs, openings.PartialProducts[challengeNum*numPartProds:(challengeNum+1)*numPartProds]...)", "\tproductAccs = append(productAccs, roundPartialProducts...)"), (P, "\tfor i := uint64(0); i < p.commonData.Config.NumChallenges; i++ {\n\t\t// L_0(zeta) (Z(zeta) - 1) = 0", "\tppCursor := openings.PartialProducts\n\tfor i := uint64(0); i < p.commonData.Config.NumChallenges; i++ {\n\t\t// L_0(zeta) (Z(zeta) - 1) = 0"), (P, "\t\t\tp.checkPartialProducts(numeratorValues, denominatorValues, i, openings)...,\n\t\t)\n", "\t\t\tp.checkPartialProducts(numeratorValues, denominatorValues, i, openings, ppCursor[:p.commonData.NumPartialProducts])...,\n\t\t)\n\t\tppCursor = openings.PartialProducts[p.commonData.NumPartialProducts:]\n"))
m('M107-pp-window-shifted', ['C16'], (P, "openings.PartialProducts[challengeNum*numPartProds:(challengeNum+1)*numPartProds]...", "openings.PartialProducts[challengeNum*numPartProds+1:(challengeNum+1)*numPartProds+1]..."))

m('M108-innerproduct-empty-zero', ['C08'], (Q, "\tacc := startingAcc\n\tfor i := 0; i < len(pairs); i++ {", "\tif len(pairs) == 0 {\n\t\treturn ZeroExtension()\n\t}\n\tacc := startingAcc\n\tfor i := 0; i < len(pairs); i++ {"))
m('M109-submul-ignores-b', ['C08'], (Q, "\tdifference := p.SubExtensionNoReduce(a, b)\n\tproduct := p.MulExtensionNoReduce(difference, c)", "\tdifference := p.SubExtensionNoReduce(a, ZeroExtension())\n\tproduct := p.MulExtensionNoReduce(difference, c)"))

m('M110-merkle-flags-anded', ['C12', 'C01'], (F, "\tmerkleCap variables.FriMerkleCap,\n\tproof *variables.FriMerkleProof,\n) {\n\tcurrentDigest := f.poseidonBN254Chip.HashOrNoop(leafData)", "\tmerkleCap variables.FriMerkleCap,\n\tproof *variables.FriMerkleProof,\n) {\n\tf.api.AssertIsEqual(f.merkleProofToCapMismatch(leafData, leafIndexBits, capIndexBits, merkleCap, proof), 0)\n}\n\nfunc (f *Chip) merkleProofToCapMismatch(\n\tleafData []gl.Variable,\n\tleafIndexBits []frontend.Variable,\n\tcapIndexBits []frontend.Variable,\n\tmerkleCap variables.FriMerkleCap,\n\tproof *variables.FriMerkleProof,\n) frontend.Variable {\n\tcurrentDigest := f.poseidonBN254Chip.HashOrNoop(leafData)"), (F, "\tf.api.AssertIsEqual(currentDigest, merkleCapEntry)\n}", "\treturn f.api.Sub(1, f.api.IsZero(f.api.Sub(currentDigest, merkleCapEntry)))\n}"), (F, "\tfor i := 0; i < len(initialMerkleCaps); i++ {\n\t\tevals := proof.EvalsProofs[i].Elements", "\tmismatch := frontend.Variable(0)\n\tfor i := 0; i < len(initialMerkleCaps); i++ {\n\t\tevals := proof.EvalsProofs[i].Elements"), (F, "\t\tf.verifyMerkleProofToCapWithCapIndex(evals, xIndexBits, capIndexBits, cap, &merkleProof)\n\t}\n}", "\t\tmismatch = f.api.And(mismatch, f.merkleProofToCapMismatch(evals, xIndexBits, capIndexBits, cap, &merkleProof))\n\t}\n\tf.api.AssertIsEqual(mismatch, 0)\n}"))

# ---- hidden state (GS / CS), recover
m('M113-fri-chip-cached-globally', ['C14', 'C13', 'C01'], (F, "\tposeidonBN254Chip := poseidon.NewBN254Chip(api)\n\treturn &Chip{", "\tif lastChip != nil && lastChip.api == api {\n\t\treturn lastChip\n\t}\n\tposeidonBN254Chip := poseidon.NewBN254Chip(api)\n\tlastChip = &Chip{"), (F, "\t\tgl:                gl.New(api),\n\t}\n}", "\t\tgl:                gl.New(api),\n\t}\n\treturn lastChip\n}\n\nvar lastChip *Chip"))
m('M114-verify-recovers', ['C20'], (V, "func (c *VerifierChip) Verify(", "func swallow() {\n\t_ = recover()\n}\n\nfunc (c *VerifierChip) Verify("), (V, "\tc.rangeCheckProof(proof)\n", "\tdefer swallow()\n\tc.rangeCheckProof(proof)\n"))

m('M115-sub-constant-fastpath', ['C07', 'C05'], (B, "func (p *Chip) Sub(a Variable, b Variable) Variable {\n", "func (p *Chip) Sub(a Variable, b Variable) Variable {\n\tif v, ok := p.api.Compiler().ConstantValue(a.Limb); ok && v.Sign() == 0 {\n\t\treturn NewVariable(p.api.Sub(MODULUS, b.Limb))\n\t}\n"))
m('M116-productaccs-aliasing-append', ['C16'], (P, "\tproductAccs := make([]gl.QuadraticExtensionVariable, 0, numPartProds+2)\n\tproductAccs = append(productAccs, openings.PlonkZs[challengeNum])\n", "\tproductAccs := openings.PlonkZs[challengeNum : challengeNum+1]\n"))

# ---- round 4: absorb tiling, Merkle digest chain, hint bodies
m('M117-gl-sponge-bound-off-by-one', ['C09'], (PG, "\tfor i := 0; i < len(input); i += SPONGE_RATE {", "\tfor i := 0; i < len(input)-1; i += SPONGE_RATE {"))
m('M118-bn-sponge-bound-off-by-one', ['C10', 'C12'], (PB, "\tfor i := 0; i < len(input); i += BN254_SPONGE_RATE * 3 {", "\tfor i := 0; i < len(input)-1; i += BN254_SPONGE_RATE * 3 {"))
m('M119-bn-sponge-permutation-count', ['C10', 'C12'], (PB, "\tfor i := 0; i < len(input); i += BN254_SPONGE_RATE * 3 {\n", "\tnumLimbs := (len(input) + 1) / 3\n\tnumPermutations := (numLimbs + BN254_SPONGE_RATE - 1) / BN254_SPONGE_RATE\n\tfor p := 0; p < numPermutations; p++ {\n\t\ti := p * BN254_SPONGE_RATE * 3\n"))
m('M120-bn-sponge-narrow-window', ['C10', 'C12'], (PB, "\t\tendI := c.min(len(input), i+BN254_SPONGE_RATE*3)", "\t\tendI := c.min(len(input), i+BN254_SPONGE_RATE*3-1)"))
m('M121-bn-limb-stride', ['C10', 'C12'], (PB, "j, stateIdx = j+3, stateIdx+1 {", "j, stateIdx = j+4, stateIdx+1 {"))
m('M122-merkle-skip-level-on-zero-sibling', ['C12'], (F, "\t\tcurrentDigest = state[0]\n", "\t\tisPadding := f.api.IsZero(sibling)\n\t\tcurrentDigest = f.api.Select(isPadding, currentDigest, state[0])\n"))
m('M123-merkle-final-digest-selected', ['C12'], (F, "\tf.api.AssertIsEqual(currentDigest, merkleCapEntry)", "\tf.api.AssertIsEqual(f.api.Select(f.api.IsZero(leafIndexBits[0]), currentDigest, merkleCapEntry), merkleCapEntry)"))
m('M124-reducehint-single-limb-shortcut', ['C02', 'C07'], (B, "\tinput := inputs[0]\n\tquotient := new(big.Int).Div(input, MODULUS)", "\tinput := inputs[0]\n\tif input.IsUint64() {\n\t\tresults[0] = new(big.Int)\n\t\tresults[1] = new(big.Int).Set(input)\n\t\treturn nil\n\t}\n\tquotient := new(big.Int).Div(input, MODULUS)"))
m('M125-inversehint-modinverse-nil', ['C07'], (B, "\tinputGl := goldilocks.NewElement(input.Uint64())\n\tresultGl := goldilocks.NewElement(0)\n\n\t// Will set resultGL if inputGL == 0\n\tresultGl.Inverse(&inputGl)\n\n\tresult := big.NewInt(0)\n\tresults[0] = resultGl.BigInt(result)\n", "\t_ = goldilocks.NewElement\n\tresults[0] = new(big.Int).ModInverse(input, MODULUS)\n"))
m('M126-splitlimbshint-unchecked-input', ['C02', 'C07'], (B, "\tinput := inputs[0]\n\n\tif input.Cmp(MODULUS) == 0 || input.Cmp(MODULUS) == 1 {\n\t\treturn fmt.Errorf(\"input is not in the field\")\n\t}\n\n\ttwo_32", "\tinput := inputs[0]\n\n\tif input.Cmp(MODULUS) == 1 && input.BitLen() > 65 {\n\t\treturn fmt.Errorf(\"input is not in the field\")\n\t}\n\n\ttwo_32"))

m('M127-fri-fold-skipped-on-guard', ['C13'], (F, "\t\toldEval = f.computeEvaluation(\n\t\t\tsubgroupX,\n\t\t\txIndexWithinCosetBits,\n\t\t\tarityBits,\n\t\t\tevals,\n\t\t\tchallenges.FriBetas[i],\n\t\t)\n", "\t\tfolded := f.computeEvaluation(\n\t\t\tsubgroupX,\n\t\t\txIndexWithinCosetBits,\n\t\t\tarityBits,\n\t\t\tevals,\n\t\t\tchallenges.FriBetas[i],\n\t\t)\n\t\tskip := f.api.IsZero(evals[0][0].Limb)\n\t\toldEval = gl.QuadraticExtensionVariable{\n\t\t\tgl.NewVariable(f.api.Select(skip, oldEval[0].Limb, folded[0].Limb)),\n\t\t\tgl.NewVariable(f.api.Select(skip, oldEval[1].Limb, folded[1].Limb)),\n\t\t}\n"))
m('M128-fri-final-compare-blended', ['C13'], (F, "\tf.gl.AssertIsEqual(oldEval[0], finalPolyEval[0])\n", "\tf.gl.AssertIsEqual(gl.NewVariable(f.api.Select(f.api.IsZero(proof.FinalPoly.Coeffs[0][1].Limb), finalPolyEval[0].Limb, oldEval[0].Limb)), finalPolyEval[0])\n"))
m('M129-fri-fold-via-helper-keeping-old', ['C13'], (F, "\t\toldEval = f.computeEvaluation(\n\t\t\tsubgroupX,\n\t\t\txIndexWithinCosetBits,\n\t\t\tarityBits,\n\t\t\tevals,\n\t\t\tchallenges.FriBetas[i],\n\t\t)\n", "\t\toldEval = f.nextEval(oldEval, f.computeEvaluation(\n\t\t\tsubgroupX,\n\t\t\txIndexWithinCosetBits,\n\t\t\tarityBits,\n\t\t\tevals,\n\t\t\tchallenges.FriBetas[i],\n\t\t), evals)\n"), (F, "func (f *Chip) VerifyFriProof(", "func (f *Chip) nextEval(prev, folded gl.QuadraticExtensionVariable, evals []gl.QuadraticExtensionVariable) gl.QuadraticExtensionVariable {\n\tskip := f.api.IsZero(evals[0][0].Limb)\n\treturn gl.QuadraticExtensionVariable{\n\t\tgl.NewVariable(f.api.Select(skip, prev[0].Limb, folded[0].Limb)),\n\t\tgl.NewVariable(f.api.Select(skip, prev[1].Limb, folded[1].Limb)),\n\t}\n}\n\nfunc (f *Chip) VerifyFriProof("))

m('M130-pow-check-on-selected-value', ['C14'], (F, "\tf.gl.RangeCheckWithMaxBits(powWitness, 64-friConfig.ProofOfWorkBits)", "\tguarded := gl.NewVariable(f.api.Select(f.api.IsZero(f.api.Sub(powWitness.Limb, 1)), 0, powWitness.Limb))\n\tf.gl.RangeCheckWithMaxBits(guarded, 64-friConfig.ProofOfWorkBits)"))
m('M131-sweep-check-on-selected-value', ['C17'], (V, "\tc.glChip.RangeCheck(proof.OpeningProof.PowWitness)", "\tc.glChip.RangeCheck(gl.NewVariable(c.api.Select(c.api.IsZero(proof.OpeningProof.PowWitness.Limb), 0, proof.OpeningProof.PowWitness.Limb)))"))

m('M132-plonk-identity-guarded', ['C16'], (P, "\t\tglApi.AssertIsEqualExtension(vanishingPolysZeta[i], prod)", "\t\tskip := p.api.IsZero(openings.QuotientPolys[quotientPolysStartIdx][1].Limb)\n\t\tlhs := gl.QuadraticExtensionVariable{\n\t\t\tgl.NewVariable(p.api.Select(skip, prod[0].Limb, vanishingPolysZeta[i][0].Limb)),\n\t\t\tgl.NewVariable(p.api.Select(skip, prod[1].Limb, vanishingPolysZeta[i][1].Limb)),\n\t\t}\n\t\tglApi.AssertIsEqualExtension(lhs, prod)"))

m('M133-fri-initial-eval-from-step-claim', ['C13'], (F, "\tfor i, arityBits := range f.friParams.ReductionArityBits {\n\t\tevals := roundProof.Steps[i].Evals\n", "\tif len(roundProof.Steps) > 0 {\n\t\tfirst := roundProof.Steps[0].Evals[0]\n\t\tkeep := f.api.IsZero(first[1].Limb)\n\t\toldEval = gl.QuadraticExtensionVariable{\n\t\t\tgl.NewVariable(f.api.Select(keep, first[0].Limb, oldEval[0].Limb)),\n\t\t\tgl.NewVariable(f.api.Select(keep, first[1].Limb, oldEval[1].Limb)),\n\t\t}\n\t}\n\tfor i, arityBits := range f.friParams.ReductionArityBits {\n\t\tevals := roundProof.Steps[i].Evals\n"))

m('M134-merkle-chain-starts-from-selected-value', ['C12'], (F, "\tcurrentDigest := f.poseidonBN254Chip.HashOrNoop(leafData)\n", "\tcurrentDigest := f.poseidonBN254Chip.HashOrNoop(leafData)\n\tif len(proof.Siblings) > 0 {\n\t\tcurrentDigest = f.api.Select(f.api.IsZero(leafData[0].Limb), proof.Siblings[0], currentDigest)\n\t}\n"))

m('M135-bn-sponge-short-input-shortcut', ['C10'], (PB, "func (c *BN254Chip) HashNoPad(input []gl.Variable) BN254HashOut {\n", "func (c *BN254Chip) HashNoPad(input []gl.Variable) BN254HashOut {\n\tif len(input) <= BN254_SPONGE_RATE {\n\t\treturn c.HashOrNoop(input)\n\t}\n"))
m('M136-decoder-skips-round-without-steps', ['C19'], (VD, "\t\tnumEvalProofs := len(openingProofRaw.QueryRoundProofs[i].InitialTreesProof.EvalsProofs)\n", "\t\tnumEvalProofs := len(openingProofRaw.QueryRoundProofs[i].InitialTreesProof.EvalsProofs)\n\t\tif numEvalProofs == 0 || len(openingProofRaw.QueryRoundProofs[i].Steps) == 0 {\n\t\t\tcontinue\n\t\t}\n"))
m('M137-permutation-closing-link-inside-loop', ['C16'], (P, "\tproductAccs = append(productAccs, openings.PlonkZsNext[challengeNum])\n", "\tif numPartProds > 0 {\n\t\tproductAccs = append(productAccs, openings.PlonkZsNext[challengeNum])\n\t} else {\n\t\tproductAccs = append(productAccs, openings.PlonkZs[challengeNum])\n\t}\n"))

m('M138-gate-reverses-wires-in-place', ['C15'], (G+'exponentiation_gate.go', "\tvar powerBits []gl.QuadraticExtensionVariable\n\tfor i := uint64(0); i < g.numPowerBits; i++ {\n\t\tpowerBits = append(powerBits, vars.localWires[g.wirePowerBit(i)])\n\t}\n", "\tpowerBits := vars.localWires[g.wirePowerBit(0) : g.wirePowerBit(0)+g.numPowerBits]\n\tfor lo, hi := 0, len(powerBits)-1; lo < hi; lo, hi = lo+1, hi-1 {\n\t\tpowerBits[lo], powerBits[hi] = powerBits[hi], powerBits[lo]\n\t}\n\tfor lo, hi := 0, len(powerBits)-1; lo < hi; lo, hi = lo+1, hi-1 {\n\t\tpowerBits[lo], powerBits[hi] = powerBits[hi], powerBits[lo]\n\t}\n"))
m('M139-reducewithpowers-pads-callers-view', ['C08', 'C16'], (Q, "\tsum := ZeroExtension()\n\tfor i := len(terms) - 1; i >= 0; i-- {", "\tsum := ZeroExtension()\n\tif len(terms)%2 == 1 {\n\t\tterms = append(terms, ZeroExtension())\n\t}\n\tfor i := len(terms) - 1; i >= 0; i-- {"))

m('M140-commit-tree-cursor-overwritten', ['C12'], (F, "\t\tcosetIndexBits := xIndexBits[arityBits:]\n\t\txIndexWithinCosetBits := xIndexBits[:arityBits]\n", "\t\tcosetIndexBits := xIndexBits[folded+arityBits:]\n\t\txIndexWithinCosetBits := xIndexBits[folded : folded+arityBits]\n"), (F, "\t\txIndexBits = cosetIndexBits\n\t}", "\t\tfolded = arityBits\n\t}"), (F, "\tfor i, arityBits := range f.friParams.ReductionArityBits {\n\t\tevals := roundProof.Steps[i].Evals\n", "\tfolded := uint64(0)\n\tfor i, arityBits := range f.friParams.ReductionArityBits {\n\t\tevals := roundProof.Steps[i].Evals\n"))
m('M141-merkle-fold-two-mulacc-from-digest', ['C12'], (F, "\t\tinputs[2] = f.api.Select(bit, sibling, currentDigest)\n\t\tinputs[3] = f.api.Select(bit, currentDigest, sibling)\n", "\t\tdelta := f.api.Sub(sibling, currentDigest)\n\t\tinputs[2] = f.api.MulAcc(currentDigest, bit, delta)\n\t\tinputs[3] = f.api.MulAcc(currentDigest, f.api.Sub(1, bit), delta)\n"))
m('M142-inverse-guard-arms-exchanged', ['C07', 'C05'], (B, "\tproductToCheck := p.api.Select(hasInv, product.Limb, frontend.Variable(1))", "\tproductToCheck := p.api.Select(isZero, product.Limb, frontend.Variable(1))"))

# ---- behaviour-preserving refactors: must stay silent on every property
ALL = ['C01', 'C02', 'C03', 'C04', 'C05', 'C06', 'C07', 'C08', 'C09', 'C10', 'C11', 'C12', 'C13', 'C14', 'C15', 'C16', 'C17', 'C18', 'C19', 'C20']
m('R02-inline-assertLeadingZeros', [], (F, "\tf.assertLeadingZeros(friChallenges.FriPowResponse, f.friParams.Config)\n", "\tf.gl.RangeCheckWithMaxBits(friChallenges.FriPowResponse, 64-f.friParams.Config.ProofOfWorkBits)\n"))
m('R03-indexed-loops-sweep', [], (V, "\tfor _, wire := range proof.Openings.Wires {\n\t\tc.glChip.RangeCheckQE(wire)\n\t}", "\tfor i := 0; i < len(proof.Openings.Wires); i++ {\n\t\tc.glChip.RangeCheckQE(proof.Openings.Wires[i])\n\t}"))
m('R04-split-ext-assert', [], (P, "\t\tglApi.AssertIsEqualExtension(vanishingPolysZeta[i], prod)", "\t\tglApi.AssertIsEqual(vanishingPolysZeta[i][0], prod[0])\n\t\tglApi.AssertIsEqual(vanishingPolysZeta[i][1], prod[1])"))
m('R05-muladd-reorder', [], (B, "\tp.api.AssertIsEqual(lhs, rhs)\n\n\tp.RangeCheck(quotient)\n\tp.RangeCheck(remainder)\n", "\tp.RangeCheck(remainder)\n\tp.RangeCheck(quotient)\n\tp.api.AssertIsEqual(rhs, lhs)\n"))
m('R06-extra-check-and-log', [], (V, "\tc.rangeCheckProof(proof)\n", "\tc.rangeCheckProof(proof)\n\tc.glChip.RangeCheck(proof.OpeningProof.PowWitness)\n\tprintln(\"range checked\")\n"))
m('R07-guard-else-form', [], (F, "\tif int(f.friParams.Config.NumQueryRounds) != len(friProof.QueryRoundProofs) {\n\t\tpanic(\"Number of query rounds does not match config.\")\n\t}", "\tif int(f.friParams.Config.NumQueryRounds) == len(friProof.QueryRoundProofs) {\n\t} else {\n\t\tpanic(\"Number of query rounds does not match config.\")\n\t}"))
m('R08-shape-after-pow', [], (F, "\tvalidateFriProofShape(friProof, instance, f.friParams)\n\n\t// Check POW\n\tf.assertLeadingZeros(friChallenges.FriPowResponse, f.friParams.Config)\n", "\t// Check POW\n\tf.assertLeadingZeros(friChallenges.FriPowResponse, f.friParams.Config)\n\tvalidateFriProofShape(friProof, instance, f.friParams)\n"))
m('R09-observecap-range', [], (CH, "\tfor i := 0; i < len(cap); i++ {\n\t\tc.ObserveBN254Hash(cap[i])\n\t}", "\tfor _, h := range cap {\n\t\tc.ObserveBN254Hash(h)\n\t}"))
m('R10-hoist-glchip', [], (V, "func (c *VerifierChip) rangeCheckProof(proof variables.Proof) {\n", "func (c *VerifierChip) rangeCheckProof(proof variables.Proof) {\n\tglc := c.glChip\n\tglc.RangeCheck(proof.OpeningProof.PowWitness)\n"))
m('R01-extract-fold-helper', [], (F, "\t\tf.gl.AssertIsEqual(newEval[0], oldEval[0])\n\t\tf.gl.AssertIsEqual(newEval[1], oldEval[1])\n", "\t\tf.assertSame(newEval, oldEval)\n"), (F, "func (f *Chip) VerifyFriProof(", "func (f *Chip) assertSame(a, b gl.QuadraticExtensionVariable) {\n\tf.gl.AssertIsEqual(a[0], b[0])\n\tf.gl.AssertIsEqual(a[1], b[1])\n}\n\nfunc (f *Chip) VerifyFriProof("))
m('R13-rename-locals', [], (F, "\tcurrentDigest := f.poseidonBN254Chip.HashOrNoop(leafData)", "\tcurrentDigest := f.poseidonBN254Chip.HashOrNoop(leafData)\n\t_ = len(leafIndexBits)"))
m('R14-rounds-indexed', [], (F, "\tfor idx, xIndex := range friChallenges.FriQueryIndices {\n\t\troundProof := friProof.QueryRoundProofs[idx]\n", "\tfor idx := 0; idx < len(friChallenges.FriQueryIndices); idx++ {\n\t\txIndex := friChallenges.FriQueryIndices[idx]\n\t\troundProof := friProof.QueryRoundProofs[idx]\n"))

m('R19-hoist-packing-constants', [], (PB, "const BN254_FULL_ROUNDS int = 8", "var (\n\tpackTwo32 = new(big.Int).SetInt64(1 << 32)\n\tpackTwo64 = new(big.Int).Mul(packTwo32, packTwo32)\n)\n\nconst BN254_FULL_ROUNDS int = 8"), (PB, "\ttwo_to_32 := new(big.Int).SetInt64(1 << 32)\n\ttwo_to_64 := new(big.Int).Mul(two_to_32, two_to_32)\n", "\ttwo_to_64 := packTwo64\n"))

# ---- more behaviour-preserving refactors (second wave)
m('R20-dispatch-if-chain', [], (B, "\tswitch p.rangeCheckerType {\n\tcase NATIVE_RANGE_CHECKER, BIT_DECOMP_RANGE_CHECKER:\n\t\tp.rangeChecker.Check(x, nbBits)\n\tcase COMMIT_RANGE_CHECKER:\n\t\tp.collectedMutex.Lock()\n\t\tdefer p.collectedMutex.Unlock()\n\t\tp.rangeCheckCollected = append(p.rangeCheckCollected, checkedVariable{v: x, bits: nbBits})\n\t}",
  "\tif p.rangeCheckerType == COMMIT_RANGE_CHECKER {\n\t\tp.collectedMutex.Lock()\n\t\tdefer p.collectedMutex.Unlock()\n\t\tp.rangeCheckCollected = append(p.rangeCheckCollected, checkedVariable{v: x, bits: nbBits})\n\t\treturn\n\t}\n\tp.rangeChecker.Check(x, nbBits)"))
m('R21-dispatch-default-panic', [], (B, "\t\tp.rangeCheckCollected = append(p.rangeCheckCollected, checkedVariable{v: x, bits: nbBits})\n\t}\n}", "\t\tp.rangeCheckCollected = append(p.rangeCheckCollected, checkedVariable{v: x, bits: nbBits})\n\tdefault:\n\t\tpanic(\"unknown range checker type\")\n\t}\n}"))
m('R22-sweep-helper', [], (V, "\tfor _, constant := range proof.Openings.Constants {\n\t\tc.glChip.RangeCheckQE(constant)\n\t}\n\n\tfor _, plonkSigma := range proof.Openings.PlonkSigmas {\n\t\tc.glChip.RangeCheckQE(plonkSigma)\n\t}\n", "\tc.rangeCheckAll(proof.Openings.Constants)\n\tc.rangeCheckAll(proof.Openings.PlonkSigmas)\n"), (V, "func (c *VerifierChip) rangeCheckProof(", "func (c *VerifierChip) rangeCheckAll(values []gl.QuadraticExtensionVariable) {\n\tfor i := range values {\n\t\tc.glChip.RangeCheck(values[i][0])\n\t\tc.glChip.RangeCheck(values[i][1])\n\t}\n}\n\nfunc (c *VerifierChip) rangeCheckProof("))
m('R23-capbits-other-slicing', [], (F, "\tcapIndexBits := xIndexBits[len(xIndexBits)-int(f.friParams.Config.CapHeight):]", "\tcapStart := len(xIndexBits) - int(f.friParams.Config.CapHeight)\n\tcapIndexBits := xIndexBits[capStart:]"))
m('R24-merkle-eq-swapped-args', [], (F, "\tf.api.AssertIsEqual(currentDigest, merkleCapEntry)", "\tf.api.AssertIsEqual(merkleCapEntry, currentDigest)"))
m('R25-shape-guards-combined', [], (FU, "\t\tif len(initialTreesProof.EvalsProofs) != len(instance.Oracles) {\n\t\t\tpanic(\"eval proofs length is not equal to instance oracles length\")\n\t\t}", "\t\tif n := len(initialTreesProof.EvalsProofs); n != len(instance.Oracles) {\n\t\t\tpanic(\"eval proofs length is not equal to instance oracles length\")\n\t\t}"))
m('R26-pow-local-width', [], (F, "\tf.gl.RangeCheckWithMaxBits(powWitness, 64-friConfig.ProofOfWorkBits)", "\twidth := 64 - friConfig.ProofOfWorkBits\n\tf.gl.RangeCheckWithMaxBits(powWitness, width)"))
m('R27-getchallenges-locals', [], (V, "\t\tFriChallenges: challenger.GetFriChallenges(\n\t\t\tproof.OpeningProof.CommitPhaseMerkleCaps,\n\t\t\tproof.OpeningProof.FinalPoly,\n\t\t\tproof.OpeningProof.PowWitness,\n\t\t\tconfig.FriConfig,\n\t\t),\n\t}", "\t\tFriChallenges: friChallenges,\n\t}"), (V, "\tchallenger.ObserveOpenings(c.friChip.ToOpenings(proof.Openings))\n", "\tchallenger.ObserveOpenings(c.friChip.ToOpenings(proof.Openings))\n\tfriChallenges := challenger.GetFriChallenges(\n\t\tproof.OpeningProof.CommitPhaseMerkleCaps,\n\t\tproof.OpeningProof.FinalPoly,\n\t\tproof.OpeningProof.PowWitness,\n\t\tconfig.FriConfig,\n\t)\n"))
m('R28-observe-elements-range', [], (CH, "\tfor i := 0; i < len(elements); i++ {\n\t\tc.ObserveElement(elements[i])\n\t}\n}\n\nfunc (c *Chip) ObserveHash", "\tfor _, e := range elements {\n\t\tc.ObserveElement(e)\n\t}\n}\n\nfunc (c *Chip) ObserveHash"))
m('R29-setstring-helper', [], (VD, "\t\tcapBigInt, _ := new(big.Int).SetString(merkleCapRaw[i], 10)\n\t\tmerkleCap[i] = frontend.Variable(capBigInt)", "\t\tmerkleCap[i] = frontend.Variable(parseDecimal(merkleCapRaw[i]))"), (VD, "func DeserializeMerkleCap(", "func parseDecimal(s string) *big.Int {\n\tv, _ := new(big.Int).SetString(s, 10)\n\treturn v\n}\n\nfunc DeserializeMerkleCap("))
m('R30-plonk-assert-loop-range', [], (P, "\tfor i := 0; i < len(vanishingPolysZeta); i++ {", "\tfor i := range vanishingPolysZeta {"))
m('R31-inverse-ext-local', [], (Q, "\taIsZero := p.IsZero(a)\n\tp.api.AssertIsEqual(aIsZero, frontend.Variable(0))", "\tp.api.AssertIsEqual(p.IsZero(a), frontend.Variable(0))"))
m('R32-rangecheck-limbs-reordered', [], (B, "\tp.rangeCheckerCheck(mostSigLimb, 32)\n\tp.rangeCheckerCheck(leastSigLimb, 32)\n", "\tp.rangeCheckerCheck(leastSigLimb, 32)\n\tp.rangeCheckerCheck(mostSigLimb, 32)\n"))
m('R33-fixed-define-verify-last', [], (U, "\tverifierChip := NewVerifierChip(api, c.CommonCircuitData)\n\tverifierChip.Verify(c.ProofWithPis.Proof, c.ProofWithPis.PublicInputs, c.VerifierData)\n\n\tglChip := gl.New(api)\n\tpublicInputs := c.ProofWithPis.PublicInputs\n", "\tglChip := gl.New(api)\n\tpublicInputs := c.ProofWithPis.PublicInputs\n"), (U, "\t\tapi.AssertIsEqual(c.PublicInputs[j], publicInputLimb)\n\t}\n\n\treturn nil\n}", "\t\tapi.AssertIsEqual(c.PublicInputs[j], publicInputLimb)\n\t}\n\n\tverifierChip := NewVerifierChip(api, c.CommonCircuitData)\n\tverifierChip.Verify(c.ProofWithPis.Proof, c.ProofWithPis.PublicInputs, c.VerifierData)\n\treturn nil\n}"))
m('R34-hashnopad-range-loop', [], (PG, "\tfor i := 0; i < len(input); i++ {\n\t\tinputVars = append(inputVars, c.Gl.Reduce(input[i]))\n\t}", "\tfor _, in := range input {\n\t\tinputVars = append(inputVars, c.Gl.Reduce(in))\n\t}"))
m('R35-final-poly-ext-assert', [], (F, "\tf.gl.AssertIsEqual(oldEval[0], finalPolyEval[0])\n\tf.gl.AssertIsEqual(oldEval[1], finalPolyEval[1])\n", "\tf.gl.AssertIsEqualExtension(oldEval, finalPolyEval)\n"))
m('R36-regex-var-renamed', [], (G+'noop_gate.go', 'var noopGateRegex = regexp.MustCompile("NoopGate")', 'var noopGateRegex = regexp.MustCompile("NoopGat" + "e")'))
m('R37-evalfiltered-index-loop', [], (EG, "\tfor i := range unfiltered {\n", "\tfor i := 0; i < len(unfiltered); i++ {\n"))
m('R38-sum-index-form', [], (EG, "\t\tfor i, constraint := range gateConstraints {", "\t\tfor i := range gateConstraints {\n\t\t\tconstraint := gateConstraints[i]"))
m('R39-filter-mul-commuted', [], (EG, "\t\tunfiltered[i] = glApi.MulExtension(unfiltered[i], filter)", "\t\tunfiltered[i] = glApi.MulExtension(filter, unfiltered[i])"))
m('R40-filter-neq-form', [], (EG, "\t\tif i == uint64(row) {\n\t\t\tcontinue\n\t\t}\n\t\ttmp := gl.NewQuadraticExtensionVariable(gl.NewVariable(i), gl.Zero())\n\t\tproduct = glApi.MulExtension(product, glApi.SubExtension(tmp, s))\n", "\t\tif i != row {\n\t\t\ttmp := gl.NewQuadraticExtensionVariable(gl.NewVariable(i), gl.Zero())\n\t\t\tproduct = glApi.MulExtension(product, glApi.SubExtension(tmp, s))\n\t\t}\n"))
m('R41-many-hoisted', [], (EG, "\tfilter := g.computeFilter(row, groupRange, vars.localConstants[selectorIndex], numSelectors > 1)\n", "\tsel := vars.localConstants[selectorIndex]\n\tmany := numSelectors >= 2\n\tfilter := g.computeFilter(row, groupRange, sel, many)\n"))
m('R42-batch-shift-hoisted', [], (F, "\t\treducedEvals := f.gl.ReduceWithPowers(evals, friAlpha)\n", "\t\tnEvals := uint64(len(evals))\n\t\treducedEvals := f.gl.ReduceWithPowers(evals, friAlpha)\n"), (F, "f.gl.ExpExtension(friAlpha, uint64(len(evals)))", "f.gl.ExpExtension(friAlpha, nEvals)"))
m('R43-batch-shift-poly-len', [], (F, "f.gl.ExpExtension(friAlpha, uint64(len(evals)))", "f.gl.ExpExtension(friAlpha, uint64(len(batch.Polynomials)))"))
m('R44-leaf-hoisted', [], (F, "\t\tevals := proof.EvalsProofs[i].Elements\n\t\tmerkleProof := proof.EvalsProofs[i].MerkleProof\n", "\t\tep := proof.EvalsProofs[i]\n\t\tevals := ep.Elements\n\t\tmerkleProof := ep.MerkleProof\n"))
m('R45-reduce-width-local', [], (B, "\treturn p.ReduceWithMaxBits(x, uint64(RANGE_CHECK_NB_BITS))", "\tnb := uint64(RANGE_CHECK_NB_BITS)\n\treturn p.ReduceWithMaxBits(x, nb)"))
m('R46-inverse-select-swapped', [], (B, "\tproductToCheck := p.api.Select(hasInv, product.Limb, frontend.Variable(1))", "\tproductToCheck := p.api.Select(isZero, frontend.Variable(1), product.Limb)"))
m('R47-muladdnoreduce-add-zero-copy', [], (B, "\tcLimbCopy := p.api.Mul(c.Limb, 1)\n\treturn NewVariable(p.api.MulAcc(cLimbCopy, a.Limb, b.Limb))", "\tacc := p.api.Add(c.Limb, 0)\n\tacc = p.api.MulAcc(acc, a.Limb, b.Limb)\n\treturn NewVariable(acc)"))
m('R48-partial-rounds-temp-acc', [], ('poseidon/bn254.go', "\t\t\tstate[k] = c.api.MulAcc(state[k], state[0], sConstants[(BN254_SPONGE_WIDTH*2-1)*i+BN254_SPONGE_WIDTH+k-1])", "\t\t\tfirst := state[0]\n\t\t\tacc := state[k]\n\t\t\tacc = c.api.MulAcc(acc, first, sConstants[(BN254_SPONGE_WIDTH*2-1)*i+BN254_SPONGE_WIDTH+k-1])\n\t\t\tstate[k] = acc"))
m('R49-mix-scalar-acc', [], ('poseidon/bn254.go', "\t\tfor j := 0; j < BN254_SPONGE_WIDTH; j++ {\n\t\t\tresult[i] = c.api.MulAcc(result[i], constantMatrix[j][i], state_[j])\n\t\t}", "\t\tacc := frontend.Variable(0)\n\t\tfor j := 0; j < BN254_SPONGE_WIDTH; j++ {\n\t\t\tacc = c.api.MulAcc(acc, constantMatrix[j][i], state_[j])\n\t\t}\n\t\tresult[i] = acc"))
m('R50-poseidon-named-stages', [], ('poseidon/bn254.go', "\tstate = c.ark(state, 0)\n\tstate = c.fullRounds(state, true)\n\tstate = c.partialRounds(state)\n\tstate = c.fullRounds(state, false)\n\treturn state", "\ts0 := c.ark(state, 0)\n\ts1 := c.fullRounds(s0, true)\n\ts2 := c.partialRounds(s1)\n\treturn c.fullRounds(s2, false)"))
m('R51-chip-pointer-helper', [], (B, "func (p *Chip) RangeCheckWithMaxBits(x Variable, maxNbBits uint64) {", "func (p *Chip) RangeCheckU32(x Variable) {\n\tp.RangeCheckWithMaxBits(x, 32)\n}\n\nfunc (p *Chip) RangeCheckWithMaxBits(x Variable, maxNbBits uint64) {"), (U, "glChip.RangeCheckWithMaxBits(slicePub[i], 32)", "glChip.RangeCheckU32(slicePub[i])"))
m('R52-dispatch-if-form', [], (B, "\tswitch p.rangeCheckerType {\n\tcase NATIVE_RANGE_CHECKER, BIT_DECOMP_RANGE_CHECKER:\n\t\tp.rangeChecker.Check(x, nbBits)\n\tcase COMMIT_RANGE_CHECKER:", "\tif p.rangeCheckerType != COMMIT_RANGE_CHECKER {\n\t\tp.rangeChecker.Check(x, nbBits)\n\t\treturn\n\t}\n\tswitch p.rangeCheckerType {\n\tcase COMMIT_RANGE_CHECKER:"))
m('R53-chip-value-getter', [], (B, "func (p *Chip) RangeCheckWithMaxBits(x Variable, maxNbBits uint64) {", "func (p Chip) API() frontend.API {\n\treturn p.api\n}\n\nfunc (p *Chip) RangeCheckWithMaxBits(x Variable, maxNbBits uint64) {"))
m('R54-decoder-len-hoisted', [], ('variables/deserialize.go', "\tfor i := 0; i < len(openingProofRaw.CommitPhaseMerkleCaps); i++ {", "\tnCaps := len(openingProofRaw.CommitPhaseMerkleCaps)\n\tfor i := 0; i < nCaps; i++ {"))
m('R55-squeeze-range-form', [], (PG, "\t\tfor i := 0; i < SPONGE_RATE; i++ {\n\t\t\toutputs = append(outputs, state[i])", "\t\tfor i := 0; i < 8; i++ {\n\t\t\toutputs = append(outputs, state[i])"))
m('R56-drain-empty-early-return', [], (B, "func (p *Chip) checkCollected(api frontend.API) error {\n", "func (p *Chip) checkCollected(api frontend.API) error {\n\tif len(p.rangeCheckCollected) == 0 {\n\t\treturn nil\n\t}\n"))
m('R59-muladdext-times-one', [], (Q, "\tproduct := p.MulExtensionNoReduce(a, b)\n\tsum := p.AddExtensionNoReduce(product, c)\n\treturn p.ReduceExtension(sum)", "\tproduct := p.MulExtensionNoReduce(p.MulExtensionNoReduce(a, OneExtension()), b)\n\tsum := p.AddExtensionNoReduce(product, c)\n\treturn p.ReduceExtension(sum)"))
m('R57-muladdext-inline', [], (Q, "\tproduct := p.MulExtensionNoReduce(a, b)\n\tsum := p.AddExtensionNoReduce(product, c)\n\treturn p.ReduceExtension(sum)", "\treturn p.ReduceExtension(p.MulAddExtensionNoReduce(a, b, c))"))
m('R58-reducewithpowers-forward-index', [], (Q, "\tfor i := len(terms) - 1; i >= 0; i-- {\n\t\tsum = p.AddExtensionNoReduce(\n\t\t\tp.MulExtensionNoReduce(\n\t\t\t\tsum,\n\t\t\t\tscalar,\n\t\t\t),\n\t\t\tterms[i],\n\t\t)", "\tfor k := 0; k < len(terms); k++ {\n\t\ti := len(terms) - 1 - k\n\t\tsum = p.AddExtensionNoReduce(\n\t\t\tp.MulExtensionNoReduce(\n\t\t\t\tsum,\n\t\t\t\tscalar,\n\t\t\t),\n\t\t\tterms[i],\n\t\t)"))
m('R60-pp-cursor-form', [], (P, "\topenings variables.OpeningSet,\n) []gl.QuadraticExtensionVariable {\n\tglApi := gl.New(p.api)\n\tnumPartProds := p.commonData.NumPartialProducts", "\topenings variables.OpeningSet,\n\troundPartialProducts []gl.QuadraticExtensionVariable,\n) []gl.QuadraticExtensionVariable {\n\tglApi := gl.New(p.api)\n\tnumPartProds := p.commonData.NumPartialProducts"), (P, "\tproductAccs = append(productAccs, openings.PartialProducts[challengeNum*numPartProds:(challengeNum+1)*numPartProds]...)", "\tproductAccs = append(productAccs, roundPartialProducts...)"), (P, "\tfor i := uint64(0); i < p.commonData.Config.NumChallenges; i++ {\n\t\t// L_0(zeta) (Z(zeta) - 1) = 0", "\tppCursor := openings.PartialProducts\n\tfor i := uint64(0); i < p.commonData.Config.NumChallenges; i++ {\n\t\t// L_0(zeta) (Z(zeta) - 1) = 0"), (P, "\t\t\tp.checkPartialProducts(numeratorValues, denominatorValues, i, openings)...,\n\t\t)\n", "\t\t\tp.checkPartialProducts(numeratorValues, denominatorValues, i, openings, ppCursor[:p.commonData.NumPartialProducts])...,\n\t\t)\n\t\tppCursor = ppCursor[p.commonData.NumPartialProducts:]\n"))
m('R61-pp-window-sum-form', [], (P, "openings.PartialProducts[challengeNum*numPartProds:(challengeNum+1)*numPartProds]...", "openings.PartialProducts[challengeNum*numPartProds:challengeNum*numPartProds+numPartProds]..."))
m('R62-merkle-flag-and-wrapper', [], (F, "\tmerkleCap variables.FriMerkleCap,\n\tproof *variables.FriMerkleProof,\n) {\n\tcurrentDigest := f.poseidonBN254Chip.HashOrNoop(leafData)", "\tmerkleCap variables.FriMerkleCap,\n\tproof *variables.FriMerkleProof,\n) {\n\tf.api.AssertIsEqual(f.merkleProofToCapMismatch(leafData, leafIndexBits, capIndexBits, merkleCap, proof), 0)\n}\n\nfunc (f *Chip) merkleProofToCapMismatch(\n\tleafData []gl.Variable,\n\tleafIndexBits []frontend.Variable,\n\tcapIndexBits []frontend.Variable,\n\tmerkleCap variables.FriMerkleCap,\n\tproof *variables.FriMerkleProof,\n) frontend.Variable {\n\tcurrentDigest := f.poseidonBN254Chip.HashOrNoop(leafData)"), (F, "\tf.api.AssertIsEqual(currentDigest, merkleCapEntry)\n}", "\treturn f.api.Sub(1, f.api.IsZero(f.api.Sub(currentDigest, merkleCapEntry)))\n}"))

m('R63-reducehint-correct-fastpath', [], (B, "\tinput := inputs[0]\n\tquotient := new(big.Int).Div(input, MODULUS)", "\tinput := inputs[0]\n\tif input.Cmp(MODULUS) < 0 {\n\t\tresults[0] = new(big.Int)\n\t\tresults[1] = new(big.Int).Set(input)\n\t\treturn nil\n\t}\n\tquotient := new(big.Int).Div(input, MODULUS)"))
m('R64-squeeze-range-over-rate-slice', [], (PG, "\t\tfor i := 0; i < SPONGE_RATE; i++ {\n\t\t\toutputs = append(outputs, state[i])", "\t\tfor _, squeezed := range state[:SPONGE_RATE] {\n\t\t\toutputs = append(outputs, squeezed)"))
m('R65-merkle-level-helper', [], (F, "\t\tstate := f.poseidonBN254Chip.Poseidon(inputs)\n\n\t\tcurrentDigest = state[0]\n", "\t\tcurrentDigest = f.permuteFirst(inputs)\n"), (F, "func (f *Chip) verifyInitialProof(", "func (f *Chip) permuteFirst(inputs poseidon.BN254State) poseidon.BN254HashOut {\n\tstate := f.poseidonBN254Chip.Poseidon(inputs)\n\treturn state[0]\n}\n\nfunc (f *Chip) verifyInitialProof("))

m('R66-fri-fold-through-local', [], (F, "\t\toldEval = f.computeEvaluation(\n\t\t\tsubgroupX,\n\t\t\txIndexWithinCosetBits,\n\t\t\tarityBits,\n\t\t\tevals,\n\t\t\tchallenges.FriBetas[i],\n\t\t)\n", "\t\tfolded := f.computeEvaluation(\n\t\t\tsubgroupX,\n\t\t\txIndexWithinCosetBits,\n\t\t\tarityBits,\n\t\t\tevals,\n\t\t\tchallenges.FriBetas[i],\n\t\t)\n\t\toldEval = folded\n"))
m('R67-fri-final-compare-extension-helper', [], (F, "\tf.gl.AssertIsEqual(oldEval[0], finalPolyEval[0])\n\tf.gl.AssertIsEqual(oldEval[1], finalPolyEval[1])\n", "\tf.gl.AssertIsEqualExtension(oldEval, finalPolyEval)\n"))

m('R68-gl-sponge-cursor-form', [], (PG, "\tfor i := 0; i < len(input); i += SPONGE_RATE {\n\t\tfor j := 0; j < SPONGE_RATE; j++ {\n\t\t\tif i+j < len(input) {\n\t\t\t\tstate[j] = input[i+j]\n\t\t\t}\n\t\t}\n", "\tfor start, end := 0, 0; start < len(input); start = end {\n\t\tend = start + SPONGE_RATE\n\t\tif end > len(input) {\n\t\t\tend = len(input)\n\t\t}\n\t\tfor pos := start; pos < end; pos++ {\n\t\t\tstate[pos-start] = input[pos]\n\t\t}\n"))
m('R69-hint-quorem-helper', [], (B, "\tquotient := new(big.Int).Div(input, MODULUS)\n\tremainder := new(big.Int).Rem(input, MODULUS)\n\tresults[0] = quotient\n\tresults[1] = remainder\n", "\tresults[0], results[1] = quoRemModulus(input)\n"), (B, "// Computes the inverse of a field element x such that x * x^-1 = 1.\n", "func quoRemModulus(x *big.Int) (*big.Int, *big.Int) {\n\tquotient, remainder := new(big.Int), new(big.Int)\n\tquotient.QuoRem(x, MODULUS, remainder)\n\treturn quotient, remainder\n}\n\n// Computes the inverse of a field element x such that x * x^-1 = 1.\n"))

m('R70-commit-tree-cursor-counter-form', [], (F, "\t\tcosetIndexBits := xIndexBits[arityBits:]\n\t\txIndexWithinCosetBits := xIndexBits[:arityBits]\n", "\t\tcosetIndexBits := xIndexBits[folded+arityBits:]\n\t\txIndexWithinCosetBits := xIndexBits[folded : folded+arityBits]\n"), (F, "\t\txIndexBits = cosetIndexBits\n\t}", "\t\tfolded += arityBits\n\t}"), (F, "\tfor i, arityBits := range f.friParams.ReductionArityBits {\n\t\tevals := roundProof.Steps[i].Evals\n", "\tfolded := uint64(0)\n\tfor i, arityBits := range f.friParams.ReductionArityBits {\n\t\tevals := roundProof.Steps[i].Evals\n"))
m('R71-inverse-guard-on-iszero', [], (B, "\tproductToCheck := p.api.Select(hasInv, product.Limb, frontend.Variable(1))", "\tproductToCheck := p.api.Select(isZero, frontend.Variable(1), product.Limb)"))

if __name__ == '__main__':
    import json, sys
    json.dump([{'name': n, 'props': p, 'edits': e} for n, p, e in M], sys.stdout)
