#!/bin/bash
# Applies each behaviour-preserving refactoring written by independent sub-agents (selftest/benign/*.diff; each was
# confirmed by them to keep the 30 baseline tests passing) to a scratch copy and runs EVERY check on it: all must stay silent.
# BENIGN_JOBS (default 6) patches are evaluated in parallel.
cd /verif
ALL=$(tr '\n' ',' < claimed.txt | sed 's/,$//')
export ALL
one() {
  p=$1
  out=$(selftest/apply_seeded.sh /verif/$p "$ALL" 2>&1 | grep -E "VIOLATED|UNDECIDED|FAILED")
  if [ -n "$out" ]; then echo "BENIGN FALSE-ALARM $(basename $p .diff): $(echo "$out" | head -3 | tr '\n' ' ' | cut -c1-300)"; else echo "BENIGN SILENT      $(basename $p .diff)"; fi
}
export -f one
res=$(ls selftest/benign/*.diff | xargs -P ${BENIGN_JOBS:-6} -I{} bash -c 'one {}' | sort -k3)
echo "$res"
n=$(echo "$res" | grep -c '^BENIGN')
bad=$(echo "$res" | grep -c 'FALSE-ALARM')
echo "BENIGN $n refactorings, $bad false alarms"
