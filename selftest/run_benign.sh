#!/bin/bash
# Applies each behaviour-preserving refactoring written by independent sub-agents (selftest/benign/*.diff; each was
# confirmed by them to keep the 30 baseline tests passing) to a scratch copy and runs EVERY check on it: all must stay silent.
cd /verif
ALL=$(tr '\n' ',' < claimed.txt | sed 's/,$//')
bad=0; n=0
for p in selftest/benign/*.diff; do
  n=$((n+1))
  out=$(selftest/apply_seeded.sh /verif/$p "$ALL" 2>&1 | grep -E "VIOLATED|UNDECIDED|FAILED")
  if [ -n "$out" ]; then bad=$((bad+1)); echo "BENIGN FALSE-ALARM $(basename $p .diff): $(echo "$out" | head -3 | tr '\n' ' ' | cut -c1-300)"; else echo "BENIGN SILENT      $(basename $p .diff)"; fi
done
echo "BENIGN $n refactorings, $bad false alarms"
