#!/usr/bin/env python3
"""Installs a confirmed seeded change into /verif/seeded/<id>/ (patch.diff, the demonstration, meta.json) and records
which of my checks fire on it. usage: install_seeded.py <seeded_out dir> <id> <property> [<props to run>]"""
import sys, os, json, shutil, glob, subprocess, re
src, sid, prop = sys.argv[1], sys.argv[2], sys.argv[3]
run_props = sys.argv[4] if len(sys.argv) > 4 else prop
conf = json.load(open(os.path.join(src, 'confirm.json')))
if not conf.get('confirmed'):
    print(sid, 'NOT CONFIRMED — not installed'); sys.exit(1)
dst = os.path.join('/verif/seeded', sid)
os.makedirs(dst, exist_ok=True)
shutil.copy(os.path.join(src, 'patch.diff'), os.path.join(dst, 'patch.diff'))
for f in glob.glob(os.path.join(src, '*_test.go')):
    shutil.copy(f, os.path.join(dst, os.path.basename(f) + '.txt'))  # .txt: not part of any Go package here
notes = open(os.path.join(src, 'notes.md')).read() if os.path.exists(os.path.join(src, 'notes.md')) else ''
out = subprocess.run(['/verif/selftest/apply_seeded.sh', os.path.join(dst, 'patch.diff'), run_props], capture_output=True, text=True).stdout
fired = sorted(set(re.findall(r'^  (?:VIOLATED|UNDECIDED) (\S+)', out, re.M)))
props_fired = sorted(set(re.findall(r'^VIOLATION property=(\S+)', out, re.M)))
meta = {
    'id': sid, 'property': prop,
    'origin': 'written by an independent sub-agent that saw only the property text and a scratch worktree of /repo',
    'what_it_needs_to_manifest': notes[:1800],
    'files': {'patch': 'patch.diff', 'demonstration': [os.path.basename(f) + '.txt' for f in glob.glob(os.path.join(src, '*_test.go'))]},
    'demo': conf.get('demo_cmd'), 'demo_dir': conf.get('demo_dir'), 'demo_tests': conf.get('demo_tests'),
    'confirmed_by_me': {
        'how': 'selftest/confirm_seeded.py in a fresh scratch git worktree of /repo (removed afterwards): patch applies and compiles; demonstration PASSES without the change and FAILS with it; the 30 baseline tests still pass with the change',
        'applies': conf['applies'], 'compiles': conf['compiles'], 'demo_without_change': conf['demo_without_change'],
        'demo_with_change': conf['demo_with_change'], 'baseline_tests_passing_with_change': conf['baseline_pass_with_change'],
        'demo_failure_tail': conf.get('demo_with_tail', '')[-500:],
    },
    'my_checks': {'ran': run_props, 'properties_firing': props_fired, 'rules_firing': fired},
}
json.dump(meta, open(os.path.join(dst, 'meta.json'), 'w'), indent=1)
print(sid, 'installed; fires:', props_fired, fired[:4])
