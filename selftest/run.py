#!/usr/bin/env python3
"""Runs the self-test corpus against scratch copies of /repo's Go module (16 workers).
usage: run.py [name-prefix ...]   — prints one line per mutant and a summary; exit 1 on any unexpected verdict."""
import sys, os, subprocess, tempfile, shutil, json, concurrent.futures as cf
sys.path.insert(0, os.path.dirname(__file__))
from mutants import M, ALL
ENV = dict(os.environ, GOFLAGS='-mod=mod', GOPROXY='off', GOSUMDB='off', GOTOOLCHAIN='local')
ENV.pop('GOWORK', None)
REPO = os.environ.get('GLCHECK_REPO', '/repo/gnark-plonky2-verifier')

def run(mut):
    name, props, edits = mut
    d = tempfile.mkdtemp(prefix='glmut.')
    try:
        m = os.path.join(d, 'm')
        shutil.copytree(REPO, m)
        for f, old, new in edits:
            p = os.path.join(m, f)
            s = open(p).read()
            if old not in s:
                return name, 'SKIP', 'edit not applicable: ' + f
            open(p, 'w').write(s.replace(old, new, 1))
        b = subprocess.run(['go', 'build', './...'], cwd=m, env=ENV, capture_output=True, text=True)
        if b.returncode != 0:
            return name, 'SKIP', 'does not compile: ' + b.stderr.strip().splitlines()[-1][:200]
        b = subprocess.run(['go', 'vet', './tests'], cwd=m, env=ENV, capture_output=True, text=True)
        targets = props if props else ALL
        extra = os.environ.get('SELFTEST_PROPS')
        if extra and not props:
            targets = extra.split(',')
        e = dict(ENV, GLCHECK_REPO=m, VERIF_DIR=d, GLCHECK_NO_EVIDENCE='1')
        out = subprocess.run(['/verif/bin/glcheck', 'check'] + [','.join(targets)] + ['quick'], env=e, capture_output=True, text=True, cwd='/verif').stdout
        fired = sorted({l.split()[1].split('=')[1] for l in out.splitlines() if l.startswith('VIOLATION')})
        keys = [l.split()[1] for l in out.splitlines() if l.startswith('  VIOLATED') or l.startswith('  UNDECIDED')]
        if props:
            miss = [p for p in props if p not in fired]
            return name, ('FIRED' if not miss else 'MISSED:' + ','.join(miss)), ' '.join(keys)[:300]
        return name, ('SILENT' if not fired else 'FALSE-ALARM'), ' '.join(keys)[:400]
    finally:
        shutil.rmtree(d, ignore_errors=True)

if __name__ == '__main__':
    args = sys.argv[1:]
    props_filter, evidence = None, None
    if '--props' in args:
        i = args.index('--props'); props_filter = args[i + 1].split(','); del args[i:i + 2]
    if '--evidence' in args:
        i = args.index('--evidence'); evidence = args[i + 1]; del args[i:i + 2]
    sel = [m for m in M if not args or any(m[0].startswith(a) for a in args)]
    if props_filter:
        # the mutants that must fire for these properties, and every refactor (checked against these properties only)
        sel = [(n, [p for p in ps if p in props_filter], e) for n, ps, e in sel if not ps or any(p in props_filter for p in ps)]
        os.environ['SELFTEST_PROPS'] = ','.join(props_filter)
    bad = 0
    results = []
    with cf.ThreadPoolExecutor(max_workers=int(os.environ.get('SELFTEST_JOBS', '8'))) as ex:
        for name, verdict, info in ex.map(run, sel):
            print(f'SELFTEST {verdict:14s} {name:36s} {info}')
            results.append({'variant': name, 'verdict': verdict, 'rules': info})
            if verdict.startswith('MISSED') or verdict == 'FALSE-ALARM':
                bad += 1
    print(f'SELFTEST {len(sel)} variants, {bad} unexpected (informational: a checker self-test, not a verdict on /repo)')
    if evidence and os.path.exists(evidence):
        ev = json.load(open(evidence))
        ev['coverage']['selftest'] = {'variants': len(sel), 'fired': sum(r['verdict'] == 'FIRED' for r in results),
                                      'silent_refactors': sum(r['verdict'] == 'SILENT' for r in results),
                                      'skipped': sum(r['verdict'] == 'SKIP' for r in results), 'unexpected': bad, 'results': results}
        json.dump(ev, open(evidence, 'w'), indent=1)
    sys.exit(0)
