#!/usr/bin/env python3
"""Runs the self-test corpus against scratch copies of /repo's Go module (16 workers).
usage: run.py [name-prefix ...]   — prints one line per mutant and a summary; exit 1 on any unexpected verdict."""
import sys, os, subprocess, tempfile, shutil, json, concurrent.futures as cf
sys.path.insert(0, os.path.dirname(__file__))
from mutants import M, ALL
ENV = dict(os.environ, GOFLAGS='-mod=mod', GOPROXY='off', GOSUMDB='off', GOTOOLCHAIN='local')
ENV.pop('GOWORK', None)
REPO = os.environ.get('GLCHECK_REPO', '/repo/gnark-plonky2-verifier')

def run(mut):
    name, props, edits = mut
    d = tempfile.mkdtemp(prefix='glmut.')
    try:
        m = os.path.join(d, 'm')
        shutil.copytree(REPO, m)
        for f, old, new in edits:
            p = os.path.join(m, f)
            s = open(p).read()
            if old not in s:
                return name, 'SKIP', 'edit not applicable: ' + f
            open(p, 'w').write(s.replace(old, new, 1))
        b = subprocess.run(['go', 'build', './...'], cwd=m, env=ENV, capture_output=True, text=True)
        if b.returncode != 0:
            return name, 'SKIP', 'does not compile: ' + b.stderr.strip().splitlines()[-1][:200]
        b = subprocess.run(['go', 'vet', './tests'], cwd=m, env=ENV, capture_output=True, text=True)
        targets = props if props else ALL
        extra = os.environ.get('SELFTEST_PROPS')
        if extra and not props:
            targets = extra.split(',')
        e = dict(ENV, GLCHECK_REPO=m, VERIF_DIR=d, GLCHECK_NO_EVIDENCE='1')
        out = subprocess.run(['/verif/bin/glcheck', 'check'] + [','.join(targets)] + ['quick'], env=e, capture_output=True, text=True, cwd='/verif').stdout
        fired = sorted({l.split()[1].split('=')[1] for l in out.splitlines() if l.startswith('VIOLATION')})
        keys = [l.split()[1] for l in out.splitlines() if l.startswith('  VIOLATED') or l.startswith('  UNDECIDED')]
        if props:
            miss = [p for p in props if p not in fired]
            return name, ('FIRED' if not miss else 'MISSED:' + ','.join(miss)), ' '.join(keys)[:300]
        return name, ('SILENT' if not fired else 'FALSE-ALARM'), ' '.join(keys)[:400]
    finally:
        shutil.rmtree(d, ignore_errors=True)

if __name__ == '__main__':
    sel = [m for m in M if not sys.argv[1:] or any(m[0].startswith(a) for a in sys.argv[1:])]
    bad = 0
    with cf.ThreadPoolExecutor(max_workers=int(os.environ.get('SELFTEST_JOBS', '8'))) as ex:
        for name, verdict, info in ex.map(run, sel):
            print(f'{verdict:14s} {name:36s} {info}')
            if verdict.startswith('MISSED') or verdict == 'FALSE-ALARM':
                bad += 1
    print(f'{len(sel)} variants, {bad} unexpected')
    sys.exit(1 if bad else 0)
