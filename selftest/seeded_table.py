#!/usr/bin/env python3
"""Regenerates the table of independently seeded changes in DESIGN.md (between the SEEDED-TABLE markers) from seeded/*/meta.json."""
import json, glob, os, re
rows = []
for f in sorted(glob.glob('/verif/seeded/*/meta.json')):
    m = json.load(open(f))
    patch = open(os.path.join(os.path.dirname(f), 'patch.diff')).read()
    files = sorted(set(re.findall(r'^\+\+\+ b/gnark-plonky2-verifier/(\S+)', patch, re.M)))
    note = m.get('summary') or ''
    if not note:
        txt = m.get('what_it_needs_to_manifest', '')
        # first meaningful sentence of the agent's notes
        for line in txt.splitlines():
            line = line.strip(' #*-')
            if len(line) > 40 and not line.lower().startswith(('property', 'seeded', 'c0', 'c1', 'c2')):
                note = line[:170]
                break
    fires = m['my_checks']['properties_firing']
    rules = m['my_checks']['rules_firing']
    rows.append((m['id'], m['property'], ', '.join(files), note.replace('|', '/'), ', '.join(fires) if fires else '**missed**', '; '.join(r.split('/', 1)[1] if '/' in r else r for r in rules[:3])))
out = ['| id | property | files changed | what it is (from the author\'s notes) | caught by | rules |', '|---|---|---|---|---|---|']
for r in rows:
    out.append('| ' + ' | '.join(r) + ' |')
table = '\n'.join(out)
p = '/verif/DESIGN.md'
s = open(p).read()
b, e = '<!-- SEEDED-TABLE-BEGIN -->', '<!-- SEEDED-TABLE-END -->'
if b in s:
    s = s[:s.index(b) + len(b)] + '\n' + table + '\n' + s[s.index(e):]
    open(p, 'w').write(s)
print(table)
