package main

// W2 placeholder: filled in by the magnitude engine (mag.go) when present.
func rulesW2(cx *Ctx) []Obligation { return nil }
