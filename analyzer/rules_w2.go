package main

// W2: the honest-fit obligations of the magnitude analysis (magnitude.go), as part of C02
func rulesW2(cx *Ctx) []Obligation { return rulesMagnitude(cx, "C02") }
