package main

// C11 — Fiat–Shamir transcript: order of the observe / squeeze events, what each observation binds, coverage
// of the observed lists, content order of the openings, and the buffer reset on observe.

import (
	"fmt"
	"go/token"
	"go/types"
	"strings"

	"golang.org/x/tools/go/ssa"
)

func collectTags(in *Interp, v *Val, prefix string, depth int, out map[string]map[string]bool, field string) {
	if v == nil || depth > 8 {
		return
	}
	for _, f := range v.From {
		if strings.HasPrefix(f, prefix) {
			if out[f] == nil {
				out[f] = map[string]bool{}
			}
			out[f][field] = true
		}
	}
	for k, kid := range v.Kids {
		nf := field
		if strings.HasPrefix(k, ".") && depth < 2 {
			nf = field + k
		}
		collectTags(in, kid, prefix, depth+1, out, nf)
	}
	if v.Cell != nil {
		collectTags(in, v.Cell.find().Content, prefix, depth+1, out, field)
	}
}

func rulesC11(cx *Ctx) []Obligation {
	r := cx.verify()
	if r == nil {
		return []Obligation{undecided("C11/anchor", "entry VerifierChip.Verify exists", "not found")}
	}
	obs := engineNotes(r, "C11")
	P := cx.P
	proof := r.ParamRoot("variables.Proof")
	vd := r.ParamRoot("variables.VerifierOnlyCircuitData")
	pis := r.Entry.Params[2].Name()
	observe := P.Func("challenger", "(*Chip).ObserveElement")
	squeeze := P.Func("challenger", "(*Chip).GetChallenge")
	if observe == nil || squeeze == nil {
		return append(obs, undecided("C11/anchor/primitives", "challenger.Chip.ObserveElement and GetChallenge exist", "not found"))
	}
	// squeeze tags → challenge fields
	tagField := map[string]map[string]bool{}
	var derive *Rec
	for _, rec := range r.Recs {
		if rec.Kind == "call" && rec.Callee != nil && rec.Callee.Name() == "GetChallenges" && len(rec.Chain) == 0 && rec.Ret != nil {
			derive = rec
			collectTags(r.In, rec.Ret, "sq:", 0, tagField, "")
		}
	}
	if derive == nil {
		return append(obs, bad("C11/O11.1/order", "transcript order", "Verify does not call the challenge derivation"))
	}
	families := []string{"WiresCap", "PlonkZsPartialProductsCap", "QuotientPolysCap", "Openings", "OpeningProof.CommitPhaseMerkleCaps", "OpeningProof.FinalPoly.Coeffs", "OpeningProof.PowWitness", "OpeningProof.QueryRoundProofs"}
	type event struct {
		label string
		rec   *Rec
	}
	var evs []event
	challengerCell := ""
	freshOK, freshWhy := false, "the transcript events do not act on a challenger object"
	var freshSite string
	for _, rec := range r.Recs {
		if rec.Kind != "call" || (rec.Callee != observe && rec.Callee != squeeze) || len(rec.Args) == 0 {
			continue
		}
		// all events must be on the challenger created by the derivation
		if len(rec.Chain) == 0 || rec.Chain[0].Site != derive.Site {
			continue
		}
		if rec.Args[0] != nil && rec.Args[0].Cell == nil {
			freshWhy = "the challenger is not created by the derivation itself (it is " + rec.Args[0].short(1) + "): state left by an earlier derivation would leak into this transcript"
			freshSite = r.site(rec)
		}
		if rec.Args[0] != nil && rec.Args[0].Cell != nil {
			// the challenger must be the object returned by a challenger.NewChip call made inside the derivation
			for _, nc := range r.Recs {
				if nc.Kind == "call" && nc.Callee != nil && nc.Callee.Name() == "NewChip" && fnPkgShort(nc.Callee) == "challenger" && nc.Ret != nil && nc.Ret.Cell != nil &&
					nc.Ret.Cell.find() == rec.Args[0].Cell.find() && len(nc.Chain) == 1 && nc.Chain[0].Site == derive.Site && nc.Must {
					freshOK = true
					freshSite = r.site(nc)
				}
			}
			if !freshOK {
				freshWhy = "the challenger used by the derivation is not created (challenger.NewChip) inside the derivation on every path"
			}
			id := fmt.Sprintf("c%d", rec.Args[0].Cell.find().ID)
			if challengerCell == "" {
				challengerCell = id
			} else if challengerCell != id {
				obs = append(obs, bad("C11/O11.1/one-challenger", "all transcript events act on the one challenger created by the derivation", "events on different challenger objects", r.site(rec)))
			}
		}
		label := "?"
		if rec.Callee == squeeze {
			var sb strings.Builder
			for _, c := range rec.Chain {
				fmt.Fprintf(&sb, "%d/", c.Site)
			}
			fmt.Fprintf(&sb, "%d", rec.Site)
			fs := tagField["sq:"+sb.String()]
			if len(fs) == 1 {
				label = "squeeze→" + strings.TrimPrefix(keysOf(fs)[0], ".")
			} else {
				label = fmt.Sprintf("squeeze→%v", keysOf(fs))
			}
		} else if len(rec.Args) > 1 && rec.Args[1] != nil {
			a := rec.Args[1]
			var hit []string
			for _, f := range families {
				if r.depsHave(a, proof+"."+f) {
					hit = append(hit, f)
				}
			}
			switch {
			case len(hit) == 0 && r.depsHave(a, vd+".CircuitDigest") && !r.depsHave(a, pis):
				label = "observe:digest"
			case len(hit) == 0 && r.depsHave(a, pis) && r.hasTag(a, "HashNoPad") && !r.depsHave(a, vd):
				label = "observe:pi-hash"
			case len(hit) == 1 && !r.depsHave(a, vd) && !r.depsHave(a, pis):
				label = "observe:" + hit[0]
			default:
				label = fmt.Sprintf("observe:%v", hit)
			}
		}
		evs = append(evs, event{label, rec})
	}
	{
		k := "C11/O11.1/fresh-challenger"
		d := "every challenge derivation starts from a fresh sponge: the challenger on which all events act is created inside the derivation"
		if freshOK {
			obs = append(obs, good(k, d, freshSite))
		} else {
			obs = append(obs, bad(k, d, freshWhy, freshSite))
		}
	}
	// hashes are absorbed through their canonical bit decomposition
	for _, fam := range []struct{ label, pat string }{{"digest", vd + ".CircuitDigest"}, {"WiresCap", proof + ".WiresCap[]"}, {"PlonkZsPartialProductsCap", proof + ".PlonkZsPartialProductsCap[]"}, {"QuotientPolysCap", proof + ".QuotientPolysCap[]"}, {"CommitPhaseMerkleCaps", proof + ".OpeningProof.CommitPhaseMerkleCaps[][]"}} {
		k := "C11/O11.5/canonical-hash-bits/" + fam.label
		d := "a BN254 hash is absorbed as limbs of its canonical bit decomposition: api.ToBinary(hash) without a width (which includes the comparison with the field modulus), applied to the hash itself on every path"
		sites, why := r.findCovering("tobin", 0, fam.pat, func(rec *Rec) bool { return rec.Width == nil })
		if len(sites) > 0 {
			obs = append(obs, good(k, d, sites...))
			continue
		}
		for _, rec := range r.Recs {
			if rec.Kind == "tobin-unconstrained" && len(rec.Args) > 0 && rec.Args[0] != nil {
				for _, p := range rec.Args[0].Dir {
					if patRe(fam.pat).MatchString(p) {
						why = "the decomposition at " + r.site(rec) + " is called with an option that drops constraints (OmitModulusCheck / WithUnconstrainedOutputs): hash + r has other bits and is accepted too"
					}
				}
			}
		}
		obs = append(obs, bad(k, d, why))
	}
	want := []string{"observe:digest", "observe:pi-hash", "observe:WiresCap", "squeeze→PlonkBetas", "squeeze→PlonkGammas",
		"observe:PlonkZsPartialProductsCap", "squeeze→PlonkAlphas", "observe:QuotientPolysCap", "squeeze→PlonkZeta", "observe:Openings",
		"squeeze→FriChallenges.FriAlpha", "observe:OpeningProof.CommitPhaseMerkleCaps", "squeeze→FriChallenges.FriBetas",
		"observe:OpeningProof.FinalPoly.Coeffs", "observe:OpeningProof.PowWitness", "squeeze→FriChallenges.FriPowResponse", "squeeze→FriChallenges.FriQueryIndices"}
	var got []string
	var first []*Rec
	for _, e := range evs {
		if len(got) == 0 || got[len(got)-1] != e.label {
			got = append(got, e.label)
			first = append(first, e.rec)
		}
	}
	key := "C11/O11.1/order"
	desc := "the observe/squeeze events of the challenge derivation occur in plonky2's order: digest, public-input hash, wires cap | β, γ | Zs/partial-products cap | α | quotient cap | ζ | openings | FRI α | (commit cap | β_i)* | final polynomial, proof-of-work witness | proof-of-work response, query indices — each squeeze identified by the challenge field that receives it, each observation by the data it depends on"
	same := len(got) == len(want)
	for i := range want {
		if !same || got[i] != want[i] {
			same = false
			break
		}
	}
	if same {
		var sites []string
		for i, f := range first {
			sites = append(sites, fmt.Sprintf("%d %s @ %s", i+1, want[i], P.Pos(f.Site)))
		}
		obs = append(obs, good(key, desc, sites...))
	} else {
		d := "event sequence is: " + strings.Join(got, " · ")
		for i := range got {
			if i >= len(want) || got[i] != want[i] {
				exp := "nothing"
				if i < len(want) {
					exp = want[i]
				}
				d = fmt.Sprintf("event %d is %s at %s, expected %s | %s", i+1, got[i], r.site(first[i]), exp, d)
				break
			}
		}
		if len(got) < len(want) && (len(got) == 0 || strings.HasPrefix(d, "event sequence")) {
			d = "missing event " + want[len(got)] + " | " + d
		}
		obs = append(obs, bad(key, desc, d))
	}
	// every event executes on every path; list observations cover their lists
	cov := map[string][]string{
		"observe:WiresCap":                           {proof + ".WiresCap"},
		"observe:PlonkZsPartialProductsCap":          {proof + ".PlonkZsPartialProductsCap"},
		"observe:QuotientPolysCap":                   {proof + ".QuotientPolysCap"},
		"observe:OpeningProof.CommitPhaseMerkleCaps": {proof + ".OpeningProof.CommitPhaseMerkleCaps", proof + ".OpeningProof.CommitPhaseMerkleCaps[]"},
		"observe:OpeningProof.FinalPoly.Coeffs":      {proof + ".OpeningProof.FinalPoly.Coeffs"},
		"observe:Openings":                           {proof + ".Openings.Constants", proof + ".Openings.PlonkSigmas", proof + ".Openings.Wires", proof + ".Openings.PlonkZs", proof + ".Openings.PartialProducts", proof + ".Openings.QuotientPolys", proof + ".Openings.PlonkZsNext"},
		"squeeze→FriChallenges.FriBetas":             {proof + ".OpeningProof.CommitPhaseMerkleCaps"},
	}
	seenLabel := map[string]bool{}
	for _, e := range evs {
		if seenLabel[e.label] {
			continue
		}
		seenLabel[e.label] = true
		k := "C11/O11.3/binds/" + e.label
		d := "the event executes on every path and, for list-valued data, once for every element (every enclosing loop is a full-range loop; the observed list is among the collections they range over)"
		site := r.site(e.rec)
		if !e.rec.Must {
			obs = append(obs, bad(k, d, "the event is conditional (or skipped for some elements)", site))
			continue
		}
		bads := ""
		for _, id := range e.rec.Loops {
			ld := r.In.Loops[id]
			sl := ld.S
			if strings.HasPrefix(e.label, "squeeze") && !sl.Counted && fillUntilLen(sl) {
				continue // `for len(out) < n { out = append(out, squeeze()) }`: n iterations
			}
			if strings.HasPrefix(e.label, "squeeze") && ld.Bound != nil && len(ld.Bound.LenOf) == 0 {
				// counted by a configuration value (number of challenges / queries)
				if !sl.Counted || !sl.SingleExit || sl.Step != 1 || sl.StartConst == nil || *sl.StartConst != 0 {
					bads = "the squeeze loop at " + ld.FnPos + " is not a plain 0..n-1 loop"
				}
				continue
			}
			if constArrayLoop(sl) {
				continue // for i := 0; i < N; i++ over a value of array type [N]T: every element
			}
			if !sl.Counted || !sl.SingleExit || sl.Step != 1 || sl.StartConst == nil || *sl.StartConst != 0 || ld.Bound == nil || len(ld.Bound.LenOf) == 0 {
				bads = "loop at " + ld.FnPos + " does not visit every element (start, step, bound or early exit)"
			}
			if ld.Bound == nil {
				continue
			}
			for _, l := range ld.Bound.LenOf {
				if strings.Contains(l, "[s:") {
					bads = "loop at " + ld.FnPos + " ranges over a sub-slice only: " + l
				}
			}
		}
		for _, p := range cov[e.label] {
			if okk, why := r.loopOverAny(e.rec, p); !okk {
				bads = why
			}
		}
		if bads != "" {
			obs = append(obs, bad(k, d, bads, site))
		} else {
			obs = append(obs, good(k, d, site))
		}
	}
	obs = append(obs, ruleOpeningsOrder(r, proof)...)
	obs = append(obs, ruleBufferReset(cx)...)
	return obs
}

// loopOverAny: some enclosing full-range loop is bounded by the length of a collection that includes pat.
func (r *Run) loopOverAny(rec *Rec, pat string) (bool, string) {
	re := patRe(pat)
	for _, id := range rec.Loops {
		ld := r.In.Loops[id]
		if ld == nil || ld.Bound == nil {
			continue
		}
		for _, l := range ld.Bound.LenOf {
			if re.MatchString(l) {
				return true, ""
			}
		}
	}
	return false, "no enclosing loop ranges over " + pat
}

func ruleOpeningsOrder(r *Run, proof string) []Obligation {
	key := "C11/O11.2/openings-content-order"
	desc := "the openings are flattened as [Constants, PlonkSigmas, Wires, PlonkZs, PartialProducts, QuotientPolys] ‖ [PlonkZsNext] (plonky2's FriOpenings order), both where they are observed and where FRI reduces them"
	want0 := []string{"Constants", "PlonkSigmas", "Wires", "PlonkZs", "PartialProducts", "QuotientPolys"}
	n := 0
	var sites []string
	for _, rec := range r.Recs {
		if rec.Kind != "call" || rec.Callee == nil || rec.Callee.Name() != "ToOpenings" || rec.Ret == nil {
			continue
		}
		n++
		site := r.site(rec)
		if p, okk := rec.Args[1].Definite(); !okk || p != proof+".Openings" {
			return []Obligation{bad(key, desc, "ToOpenings is not applied to the proof's opening set: "+rec.Args[1].short(1), site)}
		}
		batches := r.In.Narrow(rec.Ret, ".Batches")
		seq, okk := r.In.seqOf(batches)
		if !okk || len(seq) != 2 {
			return []Obligation{bad(key, desc, "the result is not a definite two-batch sequence", site)}
		}
		for bi, b := range seq {
			vals := r.In.Narrow(b, ".Values")
			vs, okv := r.In.seqOf(vals)
			var got []string
			for _, s := range vs {
				p, d := s.Definite()
				if !d || !s.SeqOK {
					got = append(got, s.short(1))
					continue
				}
				got = append(got, strings.TrimPrefix(p, proof+".Openings."))
			}
			want := want0
			if bi == 1 {
				want = []string{"PlonkZsNext"}
			}
			if !okv || strings.Join(got, ",") != strings.Join(want, ",") {
				return []Obligation{bad(key, desc, fmt.Sprintf("batch %d content sequence is %v, expected %v", bi, got, want), site)}
			}
		}
		sites = append(sites, site)
	}
	if n < 2 {
		return []Obligation{bad(key, desc, fmt.Sprintf("ToOpenings(proof.Openings) is used %d time(s); the transcript and FRI must both use it", n))}
	}
	return []Obligation{good(key, desc, sites...)}
}

func ruleBufferReset(cx *Ctx) []Obligation {
	key := "C11/O11.4/observe-clears-outputs"
	desc := "observing an element discards pending squeeze outputs: ObserveElement stores an empty slice to the output buffer on every path"
	fn := cx.P.Func("challenger", "(*Chip).ObserveElement")
	if fn == nil {
		return []Obligation{undecided(key, desc, "challenger.Chip.ObserveElement not found")}
	}
	recv := ssa.Value(fn.Params[0])
	// the output buffer is the field the squeeze pops from (x.F = x.F[:n] in GetChallenge); its name is not assumed
	outField := "outputBuffer"
	if gc := cx.P.Func("challenger", "(*Chip).GetChallenge"); gc != nil {
		for _, b := range gc.Blocks {
			for _, ins := range b.Instrs {
				st, ok := ins.(*ssa.Store)
				if !ok {
					continue
				}
				fa, ok := st.Addr.(*ssa.FieldAddr)
				if !ok || fa.X != ssa.Value(gc.Params[0]) {
					continue
				}
				if sl, ok := st.Val.(*ssa.Slice); ok && sl.High != nil {
					if base, ok := fieldLoad(sl.X, fieldName(fa.X.Type(), fa.Field)); ok && base == ssa.Value(gc.Params[0]) {
						outField = fieldName(fa.X.Type(), fa.Field)
					}
				}
			}
		}
	}
	var scan func(f *ssa.Function, recv ssa.Value, depth int) []Obligation
	scan = func(f *ssa.Function, recv ssa.Value, depth int) []Obligation {
		fi := GetFnInfo(f)
		for _, b := range f.Blocks {
			for _, ins := range b.Instrs {
				st, ok := ins.(*ssa.Store)
				if !ok {
					continue
				}
				base, ok := fieldAddrOf(st.Addr, outField)
				if !ok || base != recv {
					continue
				}
				site := cx.P.Pos(st.Pos())
				empty := false
				switch v := st.Val.(type) {
				case *ssa.Const:
					empty = v.Value == nil
				case *ssa.MakeSlice:
					if n, ok := constInt(v.Len); ok && n == 0 {
						empty = true
					}
				case *ssa.Slice:
					if hi, ok := v.High.(*ssa.Const); ok {
						if n, ok := constInt(hi); ok && n == 0 {
							empty = true // make([]T, 0) lowers to new [0]T sliced [:0]; s[:0] of anything is empty too
						}
					}
					if a, ok := v.X.(*ssa.Alloc); ok {
						if pt, ok := a.Type().Underlying().(*types.Pointer); ok {
							if at, ok := pt.Elem().Underlying().(*types.Array); ok && at.Len() == 0 {
								empty = true
							}
						}
					}
				}
				if !empty {
					return []Obligation{bad(key, desc, "the value stored to the output buffer ("+outField+") is not an empty slice: "+st.Val.String(), site)}
				}
				if !fi.MustBlock(b) {
					return []Obligation{bad(key, desc, "the reset is conditional", site)}
				}
				return []Obligation{good(key, desc, site)}
			}
		}
		// the reset may live in a helper method of the same chip that is called on every path (clearOutputBuffer)
		if depth < 2 {
			for _, b := range f.Blocks {
				for _, ins := range b.Instrs {
					c, ok := ins.(*ssa.Call)
					if !ok || !fi.MustBlock(b) {
						continue
					}
					g := c.Common().StaticCallee()
					if g == nil || g.Blocks == nil || g.Pkg != f.Pkg || len(c.Common().Args) == 0 || c.Common().Args[0] != recv || len(g.Params) == 0 {
						continue
					}
					if r := scan(g, g.Params[0], depth+1); r != nil {
						return r
					}
				}
			}
		}
		return nil
	}
	if r := scan(fn, recv, 0); r != nil {
		return r
	}
	return []Obligation{bad(key, desc, "ObserveElement does not store to the output buffer ("+outField+")")}
}

// fillUntilLen: the loop `for len(out) < n { …; out = append(out, x) }` — out is a header φ that starts as an empty
// slice and grows by exactly one element in every iteration; no other exit. It runs n times.
func fillUntilLen(sl *SLoop) bool {
	if sl == nil || !sl.SingleExit {
		return false
	}
	h := sl.Header
	iff, ok := h.Instrs[len(h.Instrs)-1].(*ssa.If)
	if !ok || len(h.Succs) != 2 || !sl.Blocks[h.Succs[0]] {
		return false
	}
	cmp, ok := iff.Cond.(*ssa.BinOp)
	if !ok || cmp.Op != token.LSS {
		return false
	}
	lx, ok := lenOfVal(cmp.X)
	if !ok {
		return false
	}
	phi, ok := lx.(*ssa.Phi)
	if !ok || phi.Block() != h {
		return false
	}
	fi := GetFnInfo(sl.Fn)
	for i, p := range h.Preds {
		e := phi.Edges[i]
		if sl.Blocks[p] {
			c, ok := e.(*ssa.Call)
			if !ok {
				return false
			}
			bi, ok := c.Common().Value.(*ssa.Builtin)
			if !ok || bi.Name() != "append" || len(c.Common().Args) != 2 || c.Common().Args[0] != ssa.Value(phi) || !mustInLoop(fi, sl, c.Block()) {
				return false
			}
			// exactly one appended element: the variadic temporary is an array of length 1
			vs, ok := c.Common().Args[1].(*ssa.Slice)
			if !ok {
				return false
			}
			al, ok := vs.X.(*ssa.Alloc)
			if !ok {
				return false
			}
			at, ok := al.Type().Underlying().(*types.Pointer).Elem().Underlying().(*types.Array)
			if !ok || at.Len() != 1 {
				return false
			}
		} else {
			mk, ok := e.(*ssa.MakeSlice)
			if !ok {
				return false
			}
			if n, ok := constInt(mk.Len); !ok || n != 0 {
				return false
			}
		}
	}
	return true
}

// constArrayLoop: a plain loop i = 0 … N−1 with a constant N whose index reads an array (value or pointer) of
// exactly N elements — and indexes nothing of another length
func constArrayLoop(sl *SLoop) bool {
	if sl == nil || !sl.Counted || !sl.SingleExit || sl.Step != 1 || sl.StartConst == nil || *sl.StartConst != 0 || sl.Op != token.LSS {
		return false
	}
	n, ok := constInt(stripCopies(sl.Bound))
	if !ok || n <= 0 {
		return false
	}
	found := false
	for b := range sl.Blocks {
		for _, ins := range b.Instrs {
			var x ssa.Value
			switch u := ins.(type) {
			case *ssa.IndexAddr:
				if u.Index != sl.IndexVal {
					continue
				}
				x = u.X
			case *ssa.Index:
				if u.Index != sl.IndexVal {
					continue
				}
				x = u.X
			default:
				continue
			}
			t := x.Type().Underlying()
			if pt, ok := t.(*types.Pointer); ok {
				t = pt.Elem().Underlying()
			}
			at, ok := t.(*types.Array)
			if !ok || at.Len() != n {
				return false
			}
			found = true
		}
	}
	return found
}
