package main

// C10 (narrow, structural clauses only): injectivity of the packing of Goldilocks elements into BN254 field
// elements (HashNoPad, HashOrNoop) and of the chunking of a BN254 hash into Goldilocks elements (ToVec).
// Numeric agreement with the reference PoseidonBN128 is not decided.

import (
	"fmt"
	"go/token"
	"go/types"
	"math/big"
	"regexp"
	"sort"
	"strings"

	"golang.org/x/tools/go/ssa"
)

const inf = int64(1) << 40

// isMinFn: a module function (x, y int) int — possibly a method — that returns the smaller argument.
func isMinFn(f *ssa.Function) bool {
	if f == nil || f.Blocks == nil || f.Signature.Results().Len() != 1 {
		return false
	}
	np := len(f.Params)
	if np < 2 {
		return false
	}
	x, y := ssa.Value(f.Params[np-2]), ssa.Value(f.Params[np-1])
	if len(f.Blocks) != 3 {
		return false
	}
	iff, ok := f.Blocks[0].Instrs[len(f.Blocks[0].Instrs)-1].(*ssa.If)
	if !ok {
		return false
	}
	cmp, ok := iff.Cond.(*ssa.BinOp)
	if !ok {
		return false
	}
	retOf := func(b *ssa.BasicBlock) ssa.Value {
		if r, ok := b.Instrs[len(b.Instrs)-1].(*ssa.Return); ok && len(r.Results) == 1 {
			return r.Results[0]
		}
		return nil
	}
	t, e := retOf(f.Blocks[0].Succs[0]), retOf(f.Blocks[0].Succs[1])
	switch {
	case (cmp.Op == token.LSS || cmp.Op == token.LEQ) && cmp.X == x && cmp.Y == y:
		return t == x && e == y
	case (cmp.Op == token.GTR || cmp.Op == token.GEQ) && cmp.X == x && cmp.Y == y:
		return t == y && e == x
	}
	return false
}

// hiMinusLow: an upper bound of hi − lo for slice bounds of the forms lo + c, min(_, lo + c), lo.
func hiMinusLow(h, l ssa.Value, depth int) int64 {
	if depth > 4 || h == nil {
		return inf
	}
	if l != nil && h == l {
		return 0
	}
	switch x := h.(type) {
	case *ssa.Const:
		if l == nil {
			if c, ok := constInt(x); ok {
				return c
			}
		}
		if lc, ok := l.(*ssa.Const); ok {
			a, ok1 := constInt(x)
			b, ok2 := constInt(lc)
			if ok1 && ok2 {
				return a - b
			}
		}
	case *ssa.BinOp:
		if x.Op == token.ADD {
			if c, ok := constInt(x.Y); ok && (x.X == l || (l == nil && false)) {
				return c
			}
			if c, ok := constInt(x.X); ok && x.Y == l {
				return c
			}
		}
	case *ssa.Call:
		if isMinFn(x.Common().StaticCallee()) {
			args := x.Common().Args
			a := hiMinusLow(args[len(args)-2], l, depth+1)
			b := hiMinusLow(args[len(args)-1], l, depth+1)
			if a < b {
				return a
			}
			return b
		}
	case *ssa.Phi:
		// an explicit clip `m := a; if b < m { m = b }` is min(a, b)
		if len(x.Edges) == 2 {
			blk := x.Block()
			for i := 0; i < 2; i++ {
				then, other := blk.Preds[i], blk.Preds[1-i]
				if len(then.Preds) != 1 || then.Preds[0] != other || len(other.Instrs) == 0 {
					continue
				}
				iff, ok := other.Instrs[len(other.Instrs)-1].(*ssa.If)
				if !ok || other.Succs[0] != then {
					continue
				}
				cmp, ok := iff.Cond.(*ssa.BinOp)
				if !ok {
					continue
				}
				T, E := x.Edges[i], x.Edges[1-i]
				same := func(a, b ssa.Value) bool { // no CSE in go/ssa: len(x) evaluated twice is two values
					if a == b {
						return true
					}
					la, ok1 := lenOfVal(a)
					lb, ok2 := lenOfVal(b)
					return ok1 && ok2 && la == lb
				}
				isMin := ((cmp.Op == token.LSS || cmp.Op == token.LEQ) && same(cmp.X, T) && same(cmp.Y, E)) ||
					((cmp.Op == token.GTR || cmp.Op == token.GEQ) && same(cmp.X, E) && same(cmp.Y, T))
				if isMin {
					a, b := hiMinusLow(T, l, depth+1), hiMinusLow(E, l, depth+1)
					if a < b {
						return a
					}
					return b
				}
			}
		}
		m := int64(0)
		for _, e := range x.Edges {
			v := hiMinusLow(e, l, depth+1)
			if v > m {
				m = v
			}
		}
		return m
	}
	return inf
}

var lenBoundProgram *Program

// lenUpperBound: an upper bound on len(v) at a loop whose header is hdr.
func lenUpperBound(v ssa.Value, hdr *ssa.BasicBlock) int64 {
	return lenUpperBoundD(v, hdr, 0)
}

func lenUpperBoundD(v ssa.Value, hdr *ssa.BasicBlock, depth int) int64 {
	switch x := v.(type) {
	case *ssa.Slice:
		if x.High == nil {
			return inf
		}
		var lo ssa.Value = x.Low
		if lo == nil {
			return hiMinusLow(x.High, nil, 0)
		}
		return hiMinusLow(x.High, lo, 0)
	case *ssa.Parameter:
		// a dominating branch on len(param) <= C
		for d := hdr.Idom(); d != nil; d = d.Idom() {
			iff, ok := d.Instrs[len(d.Instrs)-1].(*ssa.If)
			if !ok {
				continue
			}
			inTrue := d.Succs[0] == hdr || d.Succs[0].Dominates(hdr)
			inFalse := d.Succs[1] == hdr || d.Succs[1].Dominates(hdr)
			if inTrue == inFalse {
				continue
			}
			cmp, ok := iff.Cond.(*ssa.BinOp)
			if !ok {
				continue
			}
			call, ok := cmp.X.(*ssa.Call)
			if !ok {
				continue
			}
			if b, ok := call.Common().Value.(*ssa.Builtin); !ok || b.Name() != "len" || call.Common().Args[0] != v {
				continue
			}
			c, ok := constInt(cmp.Y)
			if !ok {
				continue
			}
			switch {
			case cmp.Op == token.LEQ && inTrue, cmp.Op == token.GTR && inFalse:
				return c
			case cmp.Op == token.LSS && inTrue, cmp.Op == token.GEQ && inFalse:
				return c - 1
			}
		}
		// no guard here: the bound may come from the call sites (a packing helper called with short slices)
		if lenBoundProgram != nil && depth < 2 {
			fn := x.Parent()
			idx := paramIndex(fn, x)
			if fn.Object() == nil || fn.Object().Exported() || idx < 0 {
				return inf
			}
			worst, n := int64(0), 0
			for _, caller := range lenBoundProgram.ModuleFuncsSorted() {
				for _, b := range caller.Blocks {
					for _, ins := range b.Instrs {
						c, ok := ins.(ssa.CallInstruction)
						if !ok || c.Common().StaticCallee() != fn || idx >= len(c.Common().Args) {
							continue
						}
						n++
						bnd := lenUpperBoundD(c.Common().Args[idx], b, depth+1)
						if bnd > worst {
							worst = bnd
						}
					}
				}
			}
			if n > 0 {
				return worst
			}
		}
	}
	return inf
}

var expSym = regexp.MustCompile(`^exp\((\d+),(iv\d+)\)$`)

func rulesC10(cx *Ctx) []Obligation {
	var obs []Obligation
	P := cx.P
	lenBoundProgram = P
	r := cx.Entry("poseidon", "(*BN254Chip).HashOrNoop")
	if r == nil {
		return []Obligation{undecided("C10/anchor", "poseidon.BN254Chip.HashOrNoop exists", "not found")}
	}
	for _, n := range r.In.Notes {
		if strings.HasPrefix(n, "fixpoint not reached") {
			obs = append(obs, undecided("C10/engine", "analysis completes", n))
		}
	}
	// limb-packing accumulators: acc' = MulAcc(acc, limb, base^k)
	type packing struct {
		fn    *ssa.Function
		site  token.Pos
		base  *big.Int
		T     int64
		where string
		why   string
	}
	var packs []packing
	var sites []token.Pos
	for s := range r.In.Recur {
		sites = append(sites, s)
	}
	sort.Slice(sites, func(i, j int) bool { return sites[i] < sites[j] })
	for _, site := range sites {
		step := r.In.Recur[site]
		if step == nil || step.Ex == nil || step.Ex.Op != "MulAcc" || len(step.Ex.Args) != 3 {
			continue
		}
		acc, limb, factor := step.Ex.Args[0], step.Ex.Args[1], step.Ex.Args[2]
		if acc == nil || acc.Ex == nil || acc.Ex.Op != "loopphi" || acc.Ex.Site != site {
			continue
		}
		lp, okk := limb.Definite()
		if !okk && len(limb.Dir) > 1 && !limb.Mixed {
			// several window positions (the first chunk at 0, later ones symbolic) joined: accept when every path
			// reads the element at the same loop variable
			suffix := ""
			same := true
			for _, dp := range limb.Dir {
				k := strings.LastIndex(dp, "[iv")
				if k < 0 || (suffix != "" && dp[k:] != suffix) {
					same = false
					break
				}
				suffix = dp[k:]
			}
			if same {
				lp, okk = limb.Dir[0], true
			}
		}
		if !okk || !strings.HasSuffix(lp, ".Limb") {
			continue
		}
		pk := packing{site: site, where: P.Pos(site)}
		m := ivRe.FindAllStringSubmatch(lp, -1)
		if len(m) == 0 {
			pk.why = "the packed limb is not indexed by a loop variable: " + lp
			packs = append(packs, pk)
			continue
		}
		id := atoi(m[len(m)-1][1])
		ld := r.In.Loops[id]
		pk.fn = ld.S.Fn
		pk.where = P.FnName(ld.S.Fn) + " " + P.Pos(loopPos(ld.S))
		em := expSym.FindStringSubmatch(factor.Sym)
		if c := constOf(factor); c != nil {
			pk.why = "every limb is multiplied by the same constant " + c.String()
			packs = append(packs, pk)
			continue
		}
		if em == nil {
			pk.why = "the multiplier of limb k is not base^k with a constant base: " + factor.short(1)
			packs = append(packs, pk)
			continue
		}
		pk.base, _ = new(big.Int).SetString(em[1], 10)
		if em[2] != fmt.Sprintf("iv%d", id) {
			pk.why = "the exponent of the multiplier is not the index of the packed limb"
			packs = append(packs, pk)
			continue
		}
		if z := constOf(acc.Ex.Args[0]); z == nil || z.Sign() != 0 {
			pk.why = "the accumulator does not start at 0"
			packs = append(packs, pk)
			continue
		}
		sl := ld.S
		if !sl.Counted || !sl.SingleExit || sl.Step != 1 || sl.StartConst == nil || *sl.StartConst != 0 {
			pk.why = "the packing loop is not a plain 0..n-1 loop"
			packs = append(packs, pk)
			continue
		}
		// trip-count bound from the SSA bound value len(S)
		pk.T = inf
		if call, ok := sl.Bound.(*ssa.Call); ok {
			if b, ok := call.Common().Value.(*ssa.Builtin); ok && b.Name() == "len" {
				pk.T = lenUpperBound(call.Common().Args[0], sl.Header)
			}
		}
		packs = append(packs, pk)
	}
	// both hashing entry points pack through a verified accumulator: their own, or one in a helper they call
	for _, en := range []string{"(*BN254Chip).HashNoPad", "(*BN254Chip).HashOrNoop"} {
		ef := P.Func("poseidon", en)
		has := false
		for _, pk := range packs {
			if pk.fn == ef {
				has = true
			}
			if ef != nil && pk.fn != nil && pk.fn != ef {
				for _, b := range ef.Blocks {
					for _, ins := range b.Instrs {
						if c, ok := ins.(ssa.CallInstruction); ok && c.Common().StaticCallee() == pk.fn {
							has = true
						}
					}
				}
			}
		}
		if !has {
			obs = append(obs, undecided("C10/pack/floor", "the limb-packing accumulators of HashNoPad and HashOrNoop are found", "no packing accumulator in or directly under "+en))
		}
	}
	for _, pk := range packs {
		name := "?"
		if pk.fn != nil {
			name = pk.fn.Name()
		}
		key := "C10/pack/" + name
		desc := "canonical Goldilocks limbs (< 2^64) are packed into one BN254 element as Σ limb_k·base^k with base ≥ 2^64 and at most T limbs where base^T ≤ r, so the packing is injective and cannot wrap"
		two64 := pow2(64)
		switch {
		case pk.why != "":
			obs = append(obs, bad(key, desc, pk.why, pk.where))
		case pk.base.Cmp(two64) < 0:
			obs = append(obs, bad(key, desc, fmt.Sprintf("base %s is smaller than 2^64: limbs overlap, different inputs give the same packed value", pk.base), pk.where))
		case pk.T >= inf:
			obs = append(obs, bad(key, desc, "no bound on the number of limbs packed into one element could be established", pk.where))
		case new(big.Int).Exp(pk.base, big.NewInt(pk.T), nil).Cmp(bigR) > 0:
			obs = append(obs, bad(key, desc, fmt.Sprintf("up to %d limbs with base 2^%d exceed the BN254 field (wraps modulo r): distinct inputs collide", pk.T, pk.base.BitLen()-1), pk.where))
		default:
			obs = append(obs, good(key, desc, fmt.Sprintf("%s base 2^%d, ≤ %d limbs", pk.where, pk.base.BitLen()-1, pk.T)))
		}
	}
	// ToVec: chunks of w ≤ 63 bits of the canonical decomposition, consecutive and disjoint
	obs = append(obs, ruleToVecChunks(cx)...)
	// the sponge walks its whole input: chunk and limb windows tile [0, len(input))
	obs = append(obs, ruleAbsorbTiling(cx, "C10/sponge/absorb-tiling", "poseidon", "(*BN254Chip).HashNoPad")...)
	obs = append(obs, ruleSpongeOutput(cx)...)
	obs = append(obs, ruleTwoToOneLanes(cx)...)
	return obs
}

func ruleToVecChunks(cx *Ctx) []Obligation {
	P := cx.P
	key := "C10/chunks/ToVec"
	desc := "a BN254 hash is split into consecutive, disjoint chunks of w ≤ 63 bits of its canonical bit decomposition (each chunk is a canonical Goldilocks element; the map hash → chunks is injective)"
	fn := P.Func("poseidon", "(*BN254Chip).ToVec")
	if fn == nil {
		return []Obligation{undecided(key, desc, "poseidon.BN254Chip.ToVec not found")}
	}
	fi := GetFnInfo(fn)
	where := P.FnName(fn) + " " + P.Pos(fn.Pos())
	// the decomposition
	var bitsVal ssa.Value
	for _, b := range fn.Blocks {
		for _, ins := range b.Instrs {
			c, ok := ins.(*ssa.Call)
			if !ok || !c.Common().IsInvoke() || c.Common().Method.Name() != "ToBinary" {
				continue
			}
			if len(c.Common().Args) >= 2 {
				if k, ok := c.Common().Args[1].(*ssa.Const); !ok || k.Value != nil {
					return []Obligation{bad(key, desc, "the hash is decomposed with an explicit width (no comparison with the field modulus)", P.Pos(c.Pos()))}
				}
			}
			if c.Common().Args[0] != ssa.Value(fn.Params[1]) {
				return []Obligation{bad(key, desc, "the decomposed value is not the hash argument", P.Pos(c.Pos()))}
			}
			bitsVal = c
		}
	}
	if bitsVal == nil {
		return []Obligation{bad(key, desc, "no api.ToBinary(hash) (canonical decomposition) in ToVec", where)}
	}
	// the loop tiling the bits (counted, cursor or multiplier form — see rules_tiling.go): windows [S, min(len, S+w))
	for _, l := range fi.Loops {
		tl, _ := tileOf(fi, l, bitsVal)
		if tl == nil {
			continue
		}
		// chunk = bits[S : min(len, S+w)] handed to FromBinary
		for _, b := range fn.Blocks {
			if !l.Blocks[b] {
				continue
			}
			for _, ins := range b.Instrs {
				sl, ok := ins.(*ssa.Slice)
				if !ok || sl.X != bitsVal {
					continue
				}
				if sl.Low == nil || !ipolyEq(poly(sl.Low), tl.start) {
					return []Obligation{bad(key, desc, "chunks do not start at the loop index", P.Pos(sl.Pos()))}
				}
				w, wok := widthOf(sl.High, sl.Low, bitsVal)
				switch {
				case !wok:
					return []Obligation{bad(key, desc, "chunk width is not bounded by a constant", P.Pos(sl.Pos()))}
				case w > 63:
					return []Obligation{bad(key, desc, fmt.Sprintf("chunk width %d > 63 bits: a chunk can exceed the Goldilocks prime, so two hashes can give the same reduced elements", w), P.Pos(sl.Pos()))}
				case tl.w != w:
					return []Obligation{bad(key, desc, fmt.Sprintf("the loop advances by %d bits but chunks are %d bits wide (bits skipped or overlapped)", tl.w, w), P.Pos(sl.Pos()))}
				case !mustInLoop(fi, l, sl.Block()):
					return []Obligation{bad(key, desc, "a chunk is skipped for some iterations", P.Pos(sl.Pos()))}
				}
				// the chunk must reach FromBinary and then the result slice
				used := false
				for _, ref := range *sl.Referrers() {
					if c, ok := ref.(*ssa.Call); ok && c.Common().IsInvoke() && c.Common().Method.Name() == "FromBinary" {
						used = true
					}
				}
				if !used {
					return []Obligation{bad(key, desc, "the chunk is not recomposed with FromBinary", P.Pos(sl.Pos()))}
				}
				return []Obligation{good(key, desc, fmt.Sprintf("%s chunk width %d, step %d", P.Pos(sl.Pos()), w, tl.w))}
			}
		}
	}
	return []Obligation{bad(key, desc, "no loop over the bit decomposition producing chunks was recognised", where)}
}

// ruleNoEmptyLimb: in the BN254 sponge (HashNoPad) a rate slot is overwritten only by a limb packed from at least
// one input element — the chunk rateChunk[j:…] is taken inside a loop whose own continuation test is j < len(rateChunk).
// (An empty trailing limb would write 0 over a rate element that the overwrite-mode sponge must keep.)
func ruleNoEmptyLimb(cx *Ctx) []Obligation {
	P := cx.P
	key := "C10/sponge/no-empty-limb"
	desc := "every rate slot written during absorption is packed from a non-empty chunk of the input: the chunk x[j:…] is taken under the loop test j < len(x), so a partial last block keeps the previous lanes (overwrite mode)"
	fn := P.Func("poseidon", "(*BN254Chip).HashNoPad")
	if fn == nil {
		return []Obligation{undecided(key, desc, "poseidon.BN254Chip.HashNoPad not found")}
	}
	fi := GetFnInfo(fn)
	n := 0
	for _, b := range fn.Blocks {
		for _, ins := range b.Instrs {
			sl, ok := ins.(*ssa.Slice)
			if !ok || sl.Low == nil {
				continue
			}
			// only slices of slices of goldilocks.Variable (the rate chunk → limb chunk), not the outer block split
			xs, ok := sl.X.Type().Underlying().(*types.Slice)
			if !ok || !typeIs(xs.Elem(), "goldilocks.Variable") {
				continue
			}
			loops := fi.LoopsOf[b.Index]
			if len(loops) == 0 {
				continue
			}
			l := loops[len(loops)-1]
			if l.Parent == nil {
				continue // the outer split into rate-sized blocks: its last block may be short but is never empty (i < len(input))
			}
			n++
			site := P.Pos(sl.Pos())
			// the chunk starts at the window start of a loop that runs while that start is below len(x): [S, …) with
			// S < len(x) is never empty
			tl, why := tileOf(fi, l, sl.X)
			if tl == nil {
				return []Obligation{bad(key, desc, "the packing loop does not run while the chunk start is below the length of the chunked slice ("+why+"): a limb may be packed from an empty chunk and overwrite a kept lane with 0", site)}
			}
			if !ipolyEq(tl.start, poly(sl.Low)) {
				return []Obligation{undecided(key, desc, "the limb chunk at "+site+" does not start at the index the enclosing loop tests (cannot show the chunk is non-empty)")}
			}
		}
	}
	if n == 0 {
		return []Obligation{undecided(key, desc, "no limb chunking found in HashNoPad")}
	}
	return []Obligation{good(key, desc, P.FnName(fn))}
}
