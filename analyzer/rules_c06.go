package main

// C06 — range checks enforce exact ranges in every backend configuration (E3 enum dispatch + E2 gadget rules).

import (
	"fmt"
	"go/constant"
	"go/token"
	"go/types"
	"math/big"
	"sort"
	"strings"

	"golang.org/x/tools/go/ssa"
)

func stripCopies(v ssa.Value) ssa.Value {
	for {
		switch x := v.(type) {
		case *ssa.ChangeType:
			v = x.X
		case *ssa.MakeInterface:
			v = x.X
		case *ssa.ChangeInterface:
			v = x.X
		case *ssa.Convert:
			v = x.X
		default:
			return v
		}
	}
}

// fieldLoad: v is a load of field `name` of some struct pointer; returns the pointer.
func fieldLoad(v ssa.Value, name string) (ssa.Value, bool) {
	u, ok := v.(*ssa.UnOp)
	if !ok || u.Op != token.MUL {
		return nil, false
	}
	fa, ok := u.X.(*ssa.FieldAddr)
	if !ok || fieldName(fa.X.Type(), fa.Field) != name {
		return nil, false
	}
	return fa.X, true
}

func fieldAddrOf(v ssa.Value, name string) (ssa.Value, bool) {
	fa, ok := v.(*ssa.FieldAddr)
	if !ok || fieldName(fa.X.Type(), fa.Field) != name {
		return nil, false
	}
	return fa.X, true
}

type enumInfo struct {
	Named  *types.Named
	ByVal  map[int64]string
	ByName map[string]int64
}

func (P *Program) enumOf(pkg, typ string) *enumInfo {
	n := P.NamedType(pkg, typ)
	if n == nil {
		return nil
	}
	e := &enumInfo{Named: n, ByVal: map[int64]string{}, ByName: map[string]int64{}}
	sc := n.Obj().Pkg().Scope()
	for _, name := range sc.Names() {
		c, ok := sc.Lookup(name).(*types.Const)
		if !ok || !types.Identical(c.Type(), n) {
			continue
		}
		if v, ok := constant.Int64Val(c.Val()); ok {
			e.ByVal[v] = name
			e.ByName[name] = v
		}
	}
	return e
}

// enumValues: the set of constants an SSA value of the enum type may take; ok=false if it may be anything else.
func enumValues(v ssa.Value, depth int) (map[int64]bool, bool) {
	out := map[int64]bool{}
	if depth > 4 {
		return nil, false
	}
	switch x := stripCopiesKeepConv(v).(type) {
	case *ssa.Const:
		if i, ok := constInt(x); ok {
			out[i] = true
			return out, true
		}
	case *ssa.Phi:
		for _, e := range x.Edges {
			s, ok := enumValues(e, depth+1)
			if !ok {
				return nil, false
			}
			for k := range s {
				out[k] = true
			}
		}
		return out, true
	case *ssa.Call:
		f := x.Common().StaticCallee()
		if f == nil || f.Blocks == nil {
			return nil, false
		}
		for _, b := range f.Blocks {
			if ret, ok := b.Instrs[len(b.Instrs)-1].(*ssa.Return); ok && len(ret.Results) == 1 {
				s, ok := enumValues(ret.Results[0], depth+1)
				if !ok {
					return nil, false
				}
				for k := range s {
					out[k] = true
				}
			}
		}
		return out, len(out) > 0
	}
	return nil, false
}

func stripCopiesKeepConv(v ssa.Value) ssa.Value {
	for {
		switch x := v.(type) {
		case *ssa.ChangeType:
			v = x.X
		default:
			return v
		}
	}
}

// pathWalk explores every path from (block b, instruction index from) to a function exit. At an If comparing a
// "type value" with a constant the edge for the assumed constant K is taken; every other If forks. events()
// reports what an instruction contributes; the result is the intersection over all non-refusing paths of the
// event sets, and whether some path reached a normal return at all.
type pathWalk struct {
	isTypeVal func(ssa.Value) bool
	K         int64
	noMatch   bool // assume the value equals no declared constant
	events    func(ssa.Instruction) []string
	stopOn    string                                          // event that ends a path successfully (optional)
	descend   func(c *ssa.Call) (map[string]bool, bool, bool) // events of a followed call, the call returns normally, followed
	fi        *FnInfo
	memo      map[string]map[string]bool
}

func (w *pathWalk) walk(b *ssa.BasicBlock, from int, seen map[*ssa.BasicBlock]bool) (map[string]bool, bool) {
	// returns (events guaranteed from here to exit, some path reaches a normal exit)
	if seen[b] {
		return nil, false // back edge: contributes nothing new
	}
	seen[b] = true
	defer delete(seen, b)
	got := map[string]bool{}
	for i := from; i < len(b.Instrs); i++ {
		ins := b.Instrs[i]
		for _, e := range w.events(ins) {
			got[e] = true
			if e == w.stopOn {
				return got, true
			}
		}
		if c, ok := ins.(*ssa.Call); ok && w.descend != nil {
			if ev, ret, followed := w.descend(c); followed {
				if !ret {
					return nil, false // the callee never returns normally on this configuration
				}
				for e := range ev {
					got[e] = true
				}
			}
		}
		switch t := ins.(type) {
		case *ssa.Return:
			if w.fi.Refuse[b.Index] {
				return nil, false
			}
			return got, true
		case *ssa.Panic:
			return nil, false
		case *ssa.Jump:
			r, okk := w.walk(b.Succs[0], 0, seen)
			if !okk {
				return nil, false
			}
			return union(got, r), true
		case *ssa.If:
			if cmp, ok := t.Cond.(*ssa.BinOp); ok && (cmp.Op == token.EQL || cmp.Op == token.NEQ) {
				var c *ssa.Const
				if w.isTypeVal(cmp.X) {
					c, _ = cmp.Y.(*ssa.Const)
				} else if w.isTypeVal(cmp.Y) {
					c, _ = cmp.X.(*ssa.Const)
				}
				if c != nil {
					if cv, ok := constInt(c); ok {
						eq := !w.noMatch && cv == w.K
						if cmp.Op == token.NEQ {
							eq = !eq
						}
						idx := 1
						if eq {
							idx = 0
						}
						r, okk := w.walk(b.Succs[idx], 0, seen)
						if !okk {
							return nil, false
						}
						return union(got, r), true
					}
				}
			}
			r0, ok0 := w.walk(b.Succs[0], 0, seen)
			r1, ok1 := w.walk(b.Succs[1], 0, seen)
			switch {
			case ok0 && ok1:
				return union(got, intersect(r0, r1)), true
			case ok0:
				return union(got, r0), true
			case ok1:
				return union(got, r1), true
			}
			return nil, false
		}
	}
	return got, true
}

func union(a, b map[string]bool) map[string]bool {
	r := map[string]bool{}
	for k := range a {
		r[k] = true
	}
	for k := range b {
		r[k] = true
	}
	return r
}
func intersect(a, b map[string]bool) map[string]bool {
	r := map[string]bool{}
	for k := range a {
		if b[k] {
			r[k] = true
		}
	}
	return r
}

func keysOf(m map[string]bool) []string {
	var out []string
	for k := range m {
		out = append(out, k)
	}
	sort.Strings(out)
	return out
}

// ---------------------------------------------------------------- O6.1

func rulesC06(cx *Ctx) []Obligation {
	var obs []Obligation
	P := cx.P
	enum := P.enumOf("goldilocks", "RangeCheckerType")
	if enum == nil || len(enum.ByName) == 0 {
		return []Obligation{undecided("C06/anchor/enum", "the range-checker kind enumeration exists", "type goldilocks.RangeCheckerType or its constants not found")}
	}
	in := NewInterp(P)
	var prims []*ssa.Function
	for f := range in.RangePrm {
		prims = append(prims, f)
	}
	sort.Slice(prims, func(i, j int) bool { return prims[i].String() < prims[j].String() })
	if len(prims) == 0 {
		obs = append(obs, undecided("C06/O6.1/anchor", "a function dispatches n-bit range checks on Chip.rangeCheckerType", "no method of goldilocks.Chip with parameters (frontend.Variable, int) reads rangeCheckerType"))
	}
	// all values ever stored to Chip.rangeCheckerType
	storedOK := true
	var storeSites []*ssa.Store
	for _, f := range P.ModuleFuncsSorted() {
		for _, b := range f.Blocks {
			for _, ins := range b.Instrs {
				st, ok := ins.(*ssa.Store)
				if !ok {
					continue
				}
				if _, ok := fieldAddrOf(st.Addr, "rangeCheckerType"); !ok {
					continue
				}
				storeSites = append(storeSites, st)
				vals, ok := enumValues(st.Val, 0)
				if !ok {
					storedOK = false
					continue
				}
				for v := range vals {
					if _, declared := enum.ByVal[v]; !declared {
						storedOK = false
					}
				}
			}
		}
	}
	names := make([]string, 0, len(enum.ByName))
	for n := range enum.ByName {
		names = append(names, n)
	}
	sort.Strings(names)
	collecting := map[string]string{} // checker kinds for which the dispatcher (on some path) only collects
	for _, fn := range prims {
		fi := GetFnInfo(fn)
		recv := fn.Params[0]
		isType := func(v ssa.Value) bool {
			base, ok := fieldLoad(stripCopies(v), "rangeCheckerType")
			return ok && base == ssa.Value(recv)
		}
		ev := func(ins ssa.Instruction) []string {
			if k := liveRangeCheckKind(fn, ins); k != "" {
				return []string{"check", "check:" + k}
			}
			return nil
		}
		for _, name := range names {
			w := &pathWalk{isTypeVal: isType, K: enum.ByName[name], events: ev, fi: fi}
			got, reach := w.walk(fn.Blocks[0], 0, map[*ssa.BasicBlock]bool{})
			key := "C06/O6.1/" + name
			desc := "in the dispatcher of n-bit range checks, every path taken when the chip's checker kind is " + name + " passes a live check of the function's own (value, width): Rangechecker.Check(x, n) or an append of {x, n} to the deferred collection"
			switch {
			case !reach:
				obs = append(obs, bad(key, desc, "no path returns normally for this kind", P.Pos(fn.Pos())+" "+P.FnName(fn)))
			case got["check"]:
				obs = append(obs, good(key, desc, P.FnName(fn)+" "+P.Pos(fn.Pos())))
				if !got["check:imm"] {
					collecting[name] = P.FnName(fn) + " " + P.Pos(fn.Pos())
				}
			default:
				obs = append(obs, bad(key, desc, "a path from the switch edge for "+name+" returns without emitting any check (the range check is a no-op in this configuration)", P.Pos(fn.Pos())+" "+P.FnName(fn)))
			}
		}
		if !storedOK {
			w := &pathWalk{isTypeVal: isType, noMatch: true, events: ev, fi: fi}
			got, reach := w.walk(fn.Blocks[0], 0, map[*ssa.BasicBlock]bool{})
			key := "C06/O6.1/no-match"
			desc := "values other than the declared constants may be stored to Chip.rangeCheckerType, so the no-match edge of the dispatcher must also check"
			if reach && !got["check"] {
				obs = append(obs, bad(key, desc, "the dispatcher returns without a check when no case matches", P.FnName(fn)))
			} else {
				obs = append(obs, good(key, desc, P.FnName(fn)))
			}
		}
	}
	obs = append(obs, rulesC06New(cx, enum, storeSites, collecting)...)
	obs = append(obs, rulesC06RangeCheck(cx)...)
	obs = append(obs, ruleNoCopy(cx, "C06", "goldilocks", "Chip", "it owns the list of collected range checks that the deferred drain reads")...)
	obs = append(obs, ruleCollectedOnlyGrows(cx, "C06")...)
	return obs
}

// liveRangeCheck: the instruction emits the function's own (x, n) to a real checker.
func liveRangeCheck(fn *ssa.Function, ins ssa.Instruction) bool {
	return liveRangeCheckKind(fn, ins) != ""
}

// liveRangeCheckKind: "imm" for Rangechecker.Check(x, n), "collect" for an append of {x, n} to the deferred
// collection, "" otherwise
func liveRangeCheckKind(fn *ssa.Function, ins ssa.Instruction) string {
	if collectsThroughHelper(fn, ins) {
		return "collect"
	}
	if liveRangeCheck1(fn, ins) {
		if _, ok := ins.(*ssa.Store); ok {
			return "collect"
		}
		return "imm"
	}
	return ""
}

func liveRangeCheck1(fn *ssa.Function, ins ssa.Instruction) bool {
	if len(fn.Params) < 3 {
		return false
	}
	recv, x, n := ssa.Value(fn.Params[0]), ssa.Value(fn.Params[1]), ssa.Value(fn.Params[2])
	switch t := ins.(type) {
	case *ssa.Call:
		com := t.Common()
		if com.IsInvoke() && com.Method.Name() == "Check" && strings.HasSuffix(ifaceShort(com.Method), "frontend.Rangechecker.Check") {
			base, ok := fieldLoad(stripCopies(com.Value), "rangeChecker")
			if ok && base == recv && len(com.Args) == 2 && stripCopies(com.Args[0]) == x && stripCopies(com.Args[1]) == n {
				return true
			}
		}
	case *ssa.Store:
		base, ok := fieldAddrOf(t.Addr, "rangeCheckCollected")
		if !ok || base != recv {
			return false
		}
		call, ok := t.Val.(*ssa.Call)
		if !ok {
			return false
		}
		bi, ok := call.Common().Value.(*ssa.Builtin)
		if !ok || bi.Name() != "append" || len(call.Common().Args) != 2 {
			return false
		}
		if b0, ok := fieldLoad(call.Common().Args[0], "rangeCheckCollected"); !ok || b0 != recv {
			return false
		}
		sl, ok := call.Common().Args[1].(*ssa.Slice)
		if !ok {
			return false
		}
		arr, ok := sl.X.(*ssa.Alloc)
		if !ok {
			return false
		}
		// the appended element must carry the function's own value and width
		var hasV, hasBits bool
		var scan func(ptr ssa.Value, depth int)
		scan = func(ptr ssa.Value, depth int) {
			if depth > 3 {
				return
			}
			for _, b := range fn.Blocks {
				for _, i2 := range b.Instrs {
					st, ok := i2.(*ssa.Store)
					if !ok {
						continue
					}
					if st.Addr == ptr {
						// whole-struct copy: follow the source
						if u, ok := st.Val.(*ssa.UnOp); ok && u.Op == token.MUL {
							scan(u.X, depth+1)
						}
						continue
					}
					fa, ok := st.Addr.(*ssa.FieldAddr)
					if !ok || fa.X != ptr {
						continue
					}
					switch fieldName(fa.X.Type(), fa.Field) {
					case "v":
						hasV = hasV || stripCopies(st.Val) == x
					case "bits":
						hasBits = hasBits || stripCopies(st.Val) == n
					}
				}
			}
		}
		for _, b := range fn.Blocks {
			for _, i2 := range b.Instrs {
				if ia, ok := i2.(*ssa.IndexAddr); ok && ia.X == ssa.Value(arr) {
					scan(ia, 0)
				}
			}
		}
		return hasV && hasBits
	}
	return false
}

// collectsThroughHelper: `p.collect(checkedVariable{v: x, bits: n})` — a call of a method of the same chip whose
// argument is an element built from the dispatcher's own value and width, and which appends that parameter to the
// chip's collection
func collectsThroughHelper(fn *ssa.Function, ins ssa.Instruction) bool {
	c, ok := ins.(*ssa.Call)
	if !ok || len(fn.Params) < 3 {
		return false
	}
	g := c.Common().StaticCallee()
	if g == nil || g.Blocks == nil || g.Pkg != fn.Pkg || len(c.Common().Args) < 2 || c.Common().Args[0] != ssa.Value(fn.Params[0]) {
		return false
	}
	x, n := ssa.Value(fn.Params[1]), ssa.Value(fn.Params[2])
	for ai, a := range c.Common().Args[1:] {
		ld, ok := a.(*ssa.UnOp)
		if !ok || ld.Op != token.MUL {
			continue
		}
		al, ok := ld.X.(*ssa.Alloc)
		if !ok || al.Referrers() == nil {
			continue
		}
		hasV, hasBits := false, false
		for _, r := range *al.Referrers() {
			fa, ok := r.(*ssa.FieldAddr)
			if !ok || fa.Referrers() == nil {
				continue
			}
			for _, r2 := range *fa.Referrers() {
				st, ok := r2.(*ssa.Store)
				if !ok || st.Addr != ssa.Value(fa) {
					continue
				}
				switch fieldName(fa.X.Type(), fa.Field) {
				case "v":
					hasV = hasV || stripCopies(st.Val) == x
				case "bits":
					hasBits = hasBits || stripCopies(st.Val) == n
				}
			}
		}
		if hasV && hasBits && appendsParamToCollected(g, ai+1) {
			return true
		}
	}
	return false
}

// appendsParamToCollected: on every path g stores append(recv.rangeCheckCollected, param) back into that field
func appendsParamToCollected(g *ssa.Function, idx int) bool {
	if idx >= len(g.Params) {
		return false
	}
	recv, prm := ssa.Value(g.Params[0]), ssa.Value(g.Params[idx])
	fi := GetFnInfo(g)
	for _, b := range g.Blocks {
		for _, ins := range b.Instrs {
			st, ok := ins.(*ssa.Store)
			if !ok {
				continue
			}
			base, ok := fieldAddrOf(st.Addr, "rangeCheckCollected")
			if !ok || base != recv || !fi.MustBlock(b) {
				continue
			}
			call, ok := st.Val.(*ssa.Call)
			if !ok {
				continue
			}
			bi, ok := call.Common().Value.(*ssa.Builtin)
			if !ok || bi.Name() != "append" || len(call.Common().Args) != 2 {
				continue
			}
			if b0, ok := fieldLoad(call.Common().Args[0], "rangeCheckCollected"); !ok || b0 != recv {
				continue
			}
			sl, ok := call.Common().Args[1].(*ssa.Slice)
			if !ok {
				continue
			}
			arr, ok := sl.X.(*ssa.Alloc)
			if !ok || arr.Referrers() == nil {
				continue
			}
			// the single appended element is the parameter itself
			for _, r := range *arr.Referrers() {
				ia, ok := r.(*ssa.IndexAddr)
				if !ok || ia.Referrers() == nil {
					continue
				}
				for _, r2 := range *ia.Referrers() {
					if es, ok := r2.(*ssa.Store); ok && es.Addr == ssa.Value(ia) && stripCopies(es.Val) == prm {
						return true
					}
				}
			}
		}
	}
	return false
}

// ---------------------------------------------------------------- O6.2, O6.6 (chip construction) and O6.3, O6.4

func rulesC06New(cx *Ctx, enum *enumInfo, stores []*ssa.Store, collecting map[string]string) []Obligation {
	var obs []Obligation
	P := cx.P
	if len(stores) == 0 {
		return []Obligation{undecided("C06/O6.2/anchor", "the chip constructor stores the selected checker kind", "no store to Chip.rangeCheckerType found")}
	}
	commit, hasCommit := enum.ByName["COMMIT_RANGE_CHECKER"]
	bitdec, hasBit := enum.ByName["BIT_DECOMP_RANGE_CHECKER"]
	native, hasNative := enum.ByName["NATIVE_RANGE_CHECKER"]
	if !hasCommit || !hasBit || !hasNative {
		return []Obligation{undecided("C06/O6.2/anchor", "the three checker kinds are declared", fmt.Sprintf("declared constants: %v", enum.ByName))}
	}
	drains := map[*ssa.Function]bool{}
	for _, st := range stores {
		fn := st.Parent()
		fi := GetFnInfo(fn)
		chip, _ := fieldAddrOf(st.Addr, "rangeCheckerType")
		where := P.FnName(fn) + " " + P.Pos(st.Pos())
		mkType := func(chip ssa.Value, stVal ssa.Value) func(v ssa.Value) bool {
			return func(v ssa.Value) bool {
				v = stripCopies(v)
				if stVal != nil && v == stVal {
					return true
				}
				base, ok := fieldLoad(v, "rangeCheckerType")
				return ok && base == chip
			}
		}
		mkEv := func(chip ssa.Value) func(ins ssa.Instruction) []string {
			return func(ins ssa.Instruction) []string {
				switch t := ins.(type) {
				case *ssa.Call:
					com := t.Common()
					if com.IsInvoke() && com.Method.Name() == "Defer" && strings.HasSuffix(ifaceShort(com.Method), "frontend.Compiler.Defer") && len(com.Args) == 1 {
						if mc, ok := com.Args[0].(*ssa.MakeClosure); ok && len(mc.Bindings) == 1 && mc.Bindings[0] == chip {
							if target := boundTarget(mc.Fn.(*ssa.Function)); target != nil {
								drains[target] = true
								return []string{"defer"}
							}
						}
					}
				case *ssa.Store:
					base, ok := fieldAddrOf(t.Addr, "rangeChecker")
					if !ok || base != chip {
						return nil
					}
					switch v := t.Val.(type) {
					case *ssa.MakeInterface:
						if call, ok := v.X.(*ssa.Call); ok {
							if f := call.Common().StaticCallee(); f != nil && strings.HasSuffix(f.String(), "gnark/std/rangecheck.New") {
								return []string{"install:gnark"}
							}
						}
						xt := v.X.Type()
						if pt, ok := xt.(*types.Pointer); ok {
							xt = pt.Elem() // a pointer to the module's own checker type (pointer receiver, constructor)
						}
						if n, ok := xt.(*types.Named); ok && n.Obj().Pkg() != nil && strings.HasPrefix(n.Obj().Pkg().Path(), ModPath) {
							return []string{"install:own:" + n.Obj().Name()}
						}
					case *ssa.Call:
						if f := v.Common().StaticCallee(); f != nil && strings.HasSuffix(f.String(), "gnark/std/rangecheck.New") {
							return []string{"install:gnark"}
						}
					}
					return []string{"install:unknown"}
				}
				return nil
			}
		}
		// start right after the store
		startIdx := 0
		for i, ins := range st.Block().Instrs {
			if ins == ssa.Instruction(st) {
				startIdx = i + 1
			}
		}
		// walkFrom: the guaranteed events from (block, index) of fn to its exit for kind k; calls that hand the chip to
		// a module function are followed (a constructor split into helpers is analysed like the unsplit one)
		var walkFrom func(fn *ssa.Function, b *ssa.BasicBlock, idx int, chip ssa.Value, stVal ssa.Value, k int64, depth int) (map[string]bool, bool)
		walkFrom = func(fn *ssa.Function, b *ssa.BasicBlock, idx int, chip ssa.Value, stVal ssa.Value, k int64, depth int) (map[string]bool, bool) {
			w := &pathWalk{isTypeVal: mkType(chip, stVal), K: k, events: mkEv(chip), fi: GetFnInfo(fn)}
			w.descend = func(c *ssa.Call) (map[string]bool, bool, bool) {
				g := c.Common().StaticCallee()
				if g == nil || depth >= 3 || !P.InModule(g) || len(g.Blocks) == 0 {
					return nil, true, false
				}
				for ai, a := range c.Common().Args {
					if stripCopies(a) == chip && ai < len(g.Params) {
						ev, reach := walkFrom(g, g.Blocks[0], 0, g.Params[ai], nil, k, depth+1)
						return ev, reach, true
					}
				}
				return nil, true, false
			}
			return w.walk(b, idx, map[*ssa.BasicBlock]bool{})
		}
		_ = fi
		run := func(k int64) (map[string]bool, bool) {
			return walkFrom(fn, st.Block(), startIdx, chip, st.Val, k, 0)
		}
		gC, rC := run(commit)
		d := "when the commit-based checker is selected, the constructor defers the drain of the collected checks (Compiler().Defer of a method bound to the new chip) on every path, and installs gnark's range checker"
		if rC && gC["defer"] && gC["install:gnark"] {
			obs = append(obs, good("C06/O6.2/defer", d, where))
		} else {
			obs = append(obs, bad("C06/O6.2/defer", d, fmt.Sprintf("events guaranteed on the COMMIT paths: %v", keysOf(gC)), where))
		}
		// a kind whose checks are only collected must have its drain deferred, else they are never looked at
		knames := make([]string, 0, len(enum.ByName))
		for n := range enum.ByName {
			knames = append(knames, n)
		}
		sort.Strings(knames)
		for _, kn := range knames {
			kd := "checks of kind " + kn + " are either emitted immediately by the dispatcher or, if they are collected, the constructor defers the drain for that kind on every path"
			kkey := "C06/O6.2/collected-are-drained/" + kn
			at, col := collecting[kn]
			if !col {
				obs = append(obs, good(kkey, kd, where+" (emitted immediately)"))
				continue
			}
			gK, rK := run(enum.ByName[kn])
			if rK && gK["defer"] {
				obs = append(obs, good(kkey, kd, where+" (collected in "+at+", drain deferred)"))
			} else {
				obs = append(obs, bad(kkey, kd, "the dispatcher collects checks of this kind ("+at+") but the constructor does not defer the drain when this kind is selected: the collected checks are never applied", where))
			}
		}
		// the reverse direction: the drain refuses to run for kinds other than the commit-based one, so it must not be
		// deferred for them (else building the circuit panics in the deferred phase: the backend becomes unusable)
		for _, kn := range knames {
			if enum.ByName[kn] == commit {
				continue
			}
			gK, rK := run(enum.ByName[kn])
			kkey := "C06/O6.2/no-refusing-drain-for/" + kn
			kd := "no drain that refuses kind " + kn + " is deferred when that kind is selected (circuits remain buildable with this backend)"
			bad1 := ""
			if rK && gK["defer"] {
				for dd := range drains {
					if ref, pos := drainRefusesNonCommit(dd, commit); ref {
						bad1 = "the constructor defers " + P.FnName(dd) + " also for " + kn + ", and that function panics unless the kind is COMMIT (" + P.Pos(pos) + ")"
					}
				}
			}
			if bad1 != "" {
				obs = append(obs, bad(kkey, kd, bad1, where))
			} else {
				obs = append(obs, good(kkey, kd, where))
			}
		}
		gN, rN := run(native)
		d = "when the native checker is selected, the constructor installs gnark's range checker (rangecheck.New)"
		if rN && gN["install:gnark"] {
			obs = append(obs, good("C06/O6.6/install-native", d, where))
		} else {
			obs = append(obs, bad("C06/O6.6/install-native", d, fmt.Sprintf("events guaranteed on the NATIVE paths: %v", keysOf(gN)), where))
		}
		gB, rB := run(bitdec)
		d = "when bit decomposition is selected, the constructor installs the module's own bit-decomposition checker (and not gnark's, which would pick another mechanism)"
		own := ""
		for k := range gB {
			if strings.HasPrefix(k, "install:own:") {
				own = strings.TrimPrefix(k, "install:own:")
			}
		}
		if rB && own != "" && !gB["install:gnark"] {
			obs = append(obs, good("C06/O6.6/install-bitdecomp", d, where+" type "+own))
			obs = append(obs, ruleBitDecomp(cx, own)...)
		} else {
			obs = append(obs, bad("C06/O6.6/install-bitdecomp", d, fmt.Sprintf("events guaranteed on the BIT_DECOMP paths: %v", keysOf(gB)), where))
		}
		// O6.6: what is stored
		obs = append(obs, ruleSelector(cx, enum, st)...)
	}
	if len(drains) == 0 {
		obs = append(obs, bad("C06/O6.3/drain", "the deferred drain checks every collected (value, width)", "no deferred drain function was identified"))
	}
	for d := range drains {
		if !vacuousExitFns[d] {
			vacuousExitFns[d] = true
			delete(fnInfoCache, d)
		}
		obs = append(obs, ruleDrain(cx, d)...)
	}
	return obs
}

// drainRefusesNonCommit: the drain panics when the chip's kind is not the commit-based one
func drainRefusesNonCommit(d *ssa.Function, commit int64) (bool, token.Pos) {
	fi := GetFnInfo(d)
	for _, b := range d.Blocks {
		iff, ok := b.Instrs[len(b.Instrs)-1].(*ssa.If)
		if !ok {
			continue
		}
		cmp, ok := iff.Cond.(*ssa.BinOp)
		if !ok || (cmp.Op != token.EQL && cmp.Op != token.NEQ) {
			continue
		}
		var k ssa.Value
		if _, ok := fieldLoad(stripCopies(cmp.X), "rangeCheckerType"); ok {
			k = cmp.Y
		} else if _, ok := fieldLoad(stripCopies(cmp.Y), "rangeCheckerType"); ok {
			k = cmp.X
		} else {
			continue
		}
		kv, ok := constInt(k)
		if !ok || kv != commit {
			continue
		}
		// the successor taken when the kind differs from COMMIT
		other := b.Succs[1]
		if cmp.Op == token.NEQ {
			other = b.Succs[0]
		}
		if fi.Refuse[other.Index] {
			return true, iff.Pos()
		}
	}
	return false, token.NoPos
}

// boundTarget: the method a bound-method wrapper ($bound) forwards to.
func boundTarget(w *ssa.Function) *ssa.Function {
	if w == nil {
		return nil
	}
	for _, b := range w.Blocks {
		for _, ins := range b.Instrs {
			if c, ok := ins.(*ssa.Call); ok {
				if f := c.Common().StaticCallee(); f != nil {
					return f
				}
			}
		}
	}
	return nil
}

func ruleSelector(cx *Ctx, enum *enumInfo, st *ssa.Store) []Obligation {
	P := cx.P
	key := "C06/O6.6/selector"
	desc := "the stored checker kind is the selector's result (NATIVE only under a successful frontend.Rangechecker assertion, COMMIT only under frontend.Committer after that failed, else BIT_DECOMP); any override can only force bit decomposition"
	where := P.FnName(st.Parent()) + " " + P.Pos(st.Pos())
	var calls []*ssa.Call
	var consts []int64
	var visit func(v ssa.Value, d int) bool
	visit = func(v ssa.Value, d int) bool {
		if d > 4 {
			return false
		}
		switch x := stripCopiesKeepConv(v).(type) {
		case *ssa.Const:
			if i, ok := constInt(x); ok {
				consts = append(consts, i)
				return true
			}
		case *ssa.Phi:
			for _, e := range x.Edges {
				if !visit(e, d+1) {
					return false
				}
			}
			return true
		case *ssa.Call:
			// a wrapper around the selector (returns the selector's result, possibly overridden by a constant) is
			// looked through; a function all of whose returns are constants is the selector itself
			if g := x.Common().StaticCallee(); g != nil && P.InModule(g) && len(g.Blocks) > 0 {
				allConst := true
				var rets []ssa.Value
				for _, b := range g.Blocks {
					if r, ok := b.Instrs[len(b.Instrs)-1].(*ssa.Return); ok && len(r.Results) == 1 {
						rets = append(rets, r.Results[0])
						if _, isC := r.Results[0].(*ssa.Const); !isC {
							allConst = false
						}
					}
				}
				if !allConst && len(rets) > 0 {
					for _, rv := range rets {
						if !visit(rv, d+1) {
							return false
						}
					}
					return true
				}
			}
			calls = append(calls, x)
			return true
		}
		return false
	}
	if !visit(st.Val, 0) {
		return []Obligation{bad(key, desc, "the stored value is not a combination of constants and a selector call", where)}
	}
	for _, c := range consts {
		if enum.ByVal[c] != "BIT_DECOMP_RANGE_CHECKER" {
			return []Obligation{bad(key, desc, "an override can force "+enum.ByVal[c]+" (only bit decomposition may be forced: it works on every builder)", where)}
		}
	}
	if len(calls) != 1 {
		return []Obligation{bad(key, desc, fmt.Sprintf("%d selector calls feed the stored kind", len(calls)), where)}
	}
	sel := calls[0].Common().StaticCallee()
	if sel == nil || !P.InModule(sel) {
		return []Obligation{bad(key, desc, "selector is not a module function", where)}
	}
	// every return of the selector: constant + path conditions
	want := map[string]map[string]bool{
		"NATIVE_RANGE_CHECKER":     {"frontend.Rangechecker": true},
		"COMMIT_RANGE_CHECKER":     {"frontend.Rangechecker": false, "frontend.Committer": true},
		"BIT_DECOMP_RANGE_CHECKER": {"frontend.Rangechecker": false, "frontend.Committer": false},
	}
	seen := map[string]bool{}
	for _, b := range sel.Blocks {
		ret, ok := b.Instrs[len(b.Instrs)-1].(*ssa.Return)
		if !ok || len(ret.Results) != 1 {
			continue
		}
		c, ok := ret.Results[0].(*ssa.Const)
		if !ok {
			return []Obligation{bad(key, desc, "selector returns a non-constant", P.FnName(sel)+" "+P.Pos(ret.Pos()))}
		}
		cv, _ := constInt(c)
		name := enum.ByVal[cv]
		conds := pathConds(b)
		for typ, pol := range want[name] {
			got, has := conds[typ]
			if !has || got != pol {
				return []Obligation{bad(key, desc, fmt.Sprintf("selector returns %s on a path where the type assertion to %s is not known to be %v (path conditions: %v)", name, typ, pol, conds), P.FnName(sel)+" "+P.Pos(ret.Pos()))}
			}
		}
		if want[name] == nil {
			return []Obligation{bad(key, desc, "selector returns undeclared kind", P.FnName(sel))}
		}
		seen[name] = true
	}
	if len(seen) != 3 {
		return []Obligation{bad(key, desc, fmt.Sprintf("selector returns only %v", keysOf(seen)), P.FnName(sel))}
	}
	return []Obligation{good(key, desc, P.FnName(sel)+" "+P.Pos(sel.Pos()), where)}
}

// pathConds: type-assertion outcomes known on every path reaching block b (from dominating Ifs).
func pathConds(b *ssa.BasicBlock) map[string]bool {
	out := map[string]bool{}
	for d := b.Idom(); d != nil; d = d.Idom() {
		iff, ok := d.Instrs[len(d.Instrs)-1].(*ssa.If)
		if !ok {
			continue
		}
		t0 := d.Succs[0].Dominates(b) || d.Succs[0] == b
		t1 := d.Succs[1].Dominates(b) || d.Succs[1] == b
		if t0 == t1 {
			continue
		}
		ex, ok := iff.Cond.(*ssa.Extract)
		if !ok || ex.Index != 1 {
			continue
		}
		ta, ok := ex.Tuple.(*ssa.TypeAssert)
		if !ok || !ta.CommaOk {
			continue
		}
		name := types.TypeString(ta.AssertedType, func(p *types.Package) string { return p.Name() })
		out[name] = t0
	}
	return out
}

func ruleDrain(cx *Ctx, d *ssa.Function) []Obligation {
	P := cx.P
	var obs []Obligation
	in := NewInterp(P)
	res := in.Run(d)
	r := &Run{In: in, Entry: d, Res: res, Recs: in.Flatten(res)}
	where := P.FnName(d) + " " + P.Pos(d.Pos())
	key := "C06/O6.3/drain"
	desc := "the deferred drain applies Rangechecker.Check(e.v, e.bits), both fields of the same element, to every element of the collected list"
	found := false
	why := "no Rangechecker.Check call on an element of Chip.rangeCheckCollected"
	for _, rec := range r.Recs {
		if rec.Kind != "rcheck" || rec.Width == nil || len(rec.Args) == 0 {
			continue
		}
		pv, ok1 := rec.Args[0].Definite()
		pb, ok2 := rec.Width.Definite()
		if !ok1 || !ok2 || !strings.HasSuffix(pv, ".v") || !strings.HasSuffix(pb, ".bits") || strings.TrimSuffix(pv, ".v") != strings.TrimSuffix(pb, ".bits") {
			why = "Check is not applied to (e.v, e.bits) of one element: " + rec.Args[0].short(1) + " / " + rec.Width.short(1)
			continue
		}
		if !strings.HasPrefix(pv, "R.rangeCheckCollected[") {
			why = "checked element is not from Chip.rangeCheckCollected: " + pv
			continue
		}
		if !rec.Must {
			why = "the Check call does not execute for every element (conditional / continue / early exit)"
			continue
		}
		if okk, w := r.covered(rec, pv); !okk {
			why = w
			continue
		}
		found = true
		obs = append(obs, good(key, desc, r.site(rec)))
	}
	if !found {
		obs = append(obs, bad(key, desc, why, where))
	}
	// alignment guards (gnark ≤ 0.9.1: a misaligned width is silently under-checked)
	gw, ga := false, false
	var widthFP uint64
	for pass := 0; pass < 2; pass++ {
		for _, rec := range r.Recs {
			if rec.Kind != "guard" || !rec.Must || rec.Args[0] == nil || rec.Args[0].Bin == nil {
				continue
			}
			bi := rec.Args[0].Bin
			refuseUnlessEq := (bi.Op == token.NEQ && rec.Neg) || (bi.Op == token.EQL && !rec.Neg)
			if !refuseUnlessEq {
				continue
			}
			for _, pair := range [][2]*Val{{bi.X, bi.Y}, {bi.Y, bi.X}} {
				a, b := pair[0], pair[1]
				if a == nil || b == nil {
					continue
				}
				if pass == 0 {
					if p, ok := b.Definite(); ok && p == "G:goldilocks.EXPECTED_OPTIMAL_BASEWIDTH" && a.K == nil && len(rec.Loops) == 0 {
						gw = true
						widthFP = r.In.FP(a)
					}
					continue
				}
				// bits % width != 0, per element of the collected list
				if a.Bin == nil || a.Bin.Op != token.REM || b.K == nil || b.K.ExactString() != "0" || len(rec.Loops) == 0 {
					continue
				}
				pb, ok := a.Bin.X.Definite()
				if !ok || !strings.HasPrefix(pb, "R.rangeCheckCollected[iv") || !strings.HasSuffix(pb, ".bits") {
					continue
				}
				if okk, _ := r.covered(rec, pb); !okk {
					continue
				}
				y := a.Bin.Y
				if y == nil {
					continue
				}
				if py, ok := y.Definite(); (ok && py == "G:goldilocks.EXPECTED_OPTIMAL_BASEWIDTH") || (gw && r.In.FP(y) == widthFP) {
					ga = true
				}
			}
		}
	}
	d1 := "the drain refuses unless the commit checker's optimal base width equals EXPECTED_OPTIMAL_BASEWIDTH"
	if gw {
		obs = append(obs, good("C06/O6.3/basewidth-guard", d1, where))
	} else {
		obs = append(obs, bad("C06/O6.3/basewidth-guard", d1, "no must-executed refusal comparing the computed base width with EXPECTED_OPTIMAL_BASEWIDTH", where))
	}
	d2 := "the drain refuses any collected width that is not a multiple of the base width (gnark ≤ 0.9.1 under-checks misaligned widths, GHSA-rjjm-x32p-m3f7)"
	if ga {
		obs = append(obs, good("C06/O6.3/alignment-guard", d2, where))
	} else {
		obs = append(obs, bad("C06/O6.3/alignment-guard", d2, "no must-executed per-element refusal of bits % width != 0", where))
	}
	return obs
}

func ruleBitDecomp(cx *Ctx, typ string) []Obligation {
	P := cx.P
	key := "C06/O6.4/bitdecomp"
	desc := "the bit-decomposition checker decomposes its own value into exactly its own number of bits (bits.ToBinary(api, v, WithNbDigits(n)))"
	fn := P.Func("goldilocks", "("+typ+").Check")
	if fn == nil {
		fn = P.Func("goldilocks", "(*"+typ+").Check")
	}
	if fn == nil {
		return []Obligation{undecided(key, desc, "method Check of "+typ+" not found")}
	}
	in := NewInterp(P)
	res := in.Run(fn)
	r := &Run{In: in, Entry: fn, Res: res, Recs: in.Flatten(res)}
	for _, rec := range r.Recs {
		if rec.Kind != "tobin" || !rec.Must || len(rec.Args) == 0 {
			continue
		}
		pv, ok1 := rec.Args[0].Definite()
		if !ok1 || pv != fn.Params[1].Name() {
			continue
		}
		if rec.Width == nil {
			continue
		}
		pw, ok2 := rec.Width.Definite()
		if !ok2 || pw != fn.Params[2].Name() {
			return []Obligation{bad(key, desc, "the decomposition width is not the checker's own width argument: "+rec.Width.short(1), r.site(rec))}
		}
		return []Obligation{good(key, desc, r.site(rec))}
	}
	for _, rec := range r.Recs {
		if rec.Kind == "tobin-unconstrained" {
			return []Obligation{bad(key, desc, "the decomposition is called with an option other than WithNbDigits (e.g. WithUnconstrainedOutputs): the bits are not constrained to be boolean, so the range check accepts every value", r.site(rec))}
		}
	}
	return []Obligation{bad(key, desc, "no must-executed binary decomposition of the checked value with the requested width", P.FnName(fn)+" "+P.Pos(fn.Pos()))}
}

// ---------------------------------------------------------------- O6.5 canonical range check

func pow2(n uint) *big.Int { return new(big.Int).Lsh(big.NewInt(1), n) }

func rulesC06RangeCheck(cx *Ctx) []Obligation {
	var obs []Obligation
	r := cx.Entry("goldilocks", "(*Chip).RangeCheck")
	if r == nil {
		return []Obligation{undecided("C06/O6.5/anchor", "the canonical Goldilocks range check gl.Chip.RangeCheck exists", "function not found")}
	}
	x := r.Entry.Params[1].Name() + ".Limb"
	where := r.In.P.FnName(r.Entry)
	// the limb-split hint
	var hint *Rec
	for _, rec := range r.Recs {
		if rec.Kind == "hint" && helperChain(r.Entry, rec.Chain) && rec.HintN == 2 && len(rec.Args) == 1 {
			if p, ok := rec.Args[0].Definite(); ok && p == x {
				hint = rec
			}
		}
	}
	if hint == nil || !hint.Must {
		return []Obligation{bad("C06/O6.5/split", "RangeCheck splits its argument into two witnessed limbs", "no must-executed 2-output hint on the argument", where)}
	}
	h := fmt.Sprintf("H:%s@%s", hint.HintFn.Name(), r.In.P.Pos(hint.Site))
	hi, lo := h+"#0", h+"#1"
	// recomposition equality decides which output is the high limb
	recomp := false
	dRecomp := "the two limbs recompose to the checked value with multiplier exactly 2^32"
	for _, rec := range r.Recs {
		if rec.Kind != "eq" || !rec.Must || !helperChain(r.Entry, rec.Chain) || len(rec.Args) != 2 {
			continue
		}
		for _, pair := range [][2]*Val{{rec.Args[0], rec.Args[1]}, {rec.Args[1], rec.Args[0]}} {
			if p, ok := pair[1].Definite(); !ok || p != x {
				continue
			}
			l, ok := LinOf(pair[0], 0)
			if !ok || l.C.Sign() != 0 || len(l.Coef) != 2 {
				continue
			}
			for _, cand := range [][2]string{{hi, lo}, {lo, hi}} {
				if l.Coef[cand[0]] != nil && l.Coef[cand[1]] != nil && l.Coef[cand[0]].Cmp(pow2(32)) == 0 && l.Coef[cand[1]].Cmp(big.NewInt(1)) == 0 {
					hi, lo = cand[0], cand[1]
					recomp = true
					obs = append(obs, good("C06/O6.5/recompose", dRecomp, r.site(rec)))
				}
			}
		}
	}
	if !recomp {
		obs = append(obs, bad("C06/O6.5/recompose", dRecomp, "no must-executed equality x == 2^32·hi + lo over the two hint outputs", where))
	}
	for _, lim := range []struct{ name, path string }{{"hi", hi}, {"lo", lo}} {
		d := "limb " + lim.name + " of the split is range-checked to exactly 32 bits"
		found := false
		for _, rec := range r.Recs {
			if rec.Kind != "range" || !rec.Must || !helperChain(r.Entry, rec.Chain) {
				continue
			}
			if p, ok := rec.Args[0].Definite(); ok && p == lim.path {
				if w := constOf(rec.Width); w != nil && w.Cmp(big.NewInt(32)) == 0 {
					found = true
					obs = append(obs, good("C06/O6.5/limb-"+lim.name, d, r.site(rec)))
				} else {
					obs = append(obs, bad("C06/O6.5/limb-"+lim.name, d, "width is "+rec.Width.short(1)+", not 32", r.site(rec)))
					found = true
				}
				break
			}
		}
		if !found {
			obs = append(obs, bad("C06/O6.5/limb-"+lim.name, d, "no must-executed n-bit range check on this hint output", where))
		}
	}
	// top-limb rule: if hi == 2^32-1 then lo == 0
	dTop := "if the high limb is all ones the low limb must be zero (so that the value is below 2^64-2^32+1): Select(IsZero(hi-(2^32-1)), lo, 0) == 0"
	top := false
	for _, rec := range r.Recs {
		if rec.Kind != "eq" || !rec.Must || !helperChain(r.Entry, rec.Chain) || len(rec.Args) != 2 {
			continue
		}
		for _, pair := range [][2]*Val{{rec.Args[0], rec.Args[1]}, {rec.Args[1], rec.Args[0]}} {
			z := constOf(pair[1])
			if z == nil || z.Sign() != 0 || pair[0].Ex == nil || pair[0].Ex.Op != "Select" || len(pair[0].Ex.Args) != 3 {
				continue
			}
			cond, a, b := pair[0].Ex.Args[0], pair[0].Ex.Args[1], pair[0].Ex.Args[2]
			if p, ok := a.Definite(); !ok || p != lo {
				continue
			}
			if zb := constOf(b); zb == nil || zb.Sign() != 0 {
				continue
			}
			if cond.Ex == nil || cond.Ex.Op != "IsZero" || len(cond.Ex.Args) != 1 {
				continue
			}
			l, ok := LinOf(cond.Ex.Args[0], 0)
			if !ok || len(l.Coef) != 1 || l.Coef[hi] == nil {
				continue
			}
			// coef·hi + C == 0  ⇔  hi == 2^32-1
			want := new(big.Int).Sub(pow2(32), big.NewInt(1))
			neg := new(big.Int).Neg(l.C)
			if new(big.Int).Mul(l.Coef[hi], want).Cmp(neg) == 0 {
				top = true
				obs = append(obs, good("C06/O6.5/top-limb", dTop, r.site(rec)))
			}
		}
	}
	if !top {
		obs = append(obs, bad("C06/O6.5/top-limb", dTop, "no such must-executed assertion over the two limbs", where))
	}
	return obs
}

// ruleNoCopy: a chip with mutable state (the deferred range-check collection and its mutex; the transcript buffers)
// must not be updated through a copy: a method with a value receiver, a dereference `*chip` or a by-value parameter
// works on a copy whose updates (collected checks, absorbed inputs) are lost. Decided on the SSA: every value of the
// struct type itself (as opposed to a pointer to it) is located; the local holding it is harmful when its address
// reaches a function that (transitively) writes a field of the chip through that pointer, or escapes. Copies that are
// only read (a value-receiver getter, an unused snapshot) are not reported.
func ruleNoCopy(cx *Ctx, prop, pkg, typ, what string) []Obligation {
	P := cx.P
	key := prop + "/no-copy/" + pkg + "." + typ
	desc := "the stateful " + pkg + "." + typ + " (" + what + ") is never updated through a copy: no value receiver, dereference or by-value parameter hands a copy to code that writes the chip's state"
	n := P.NamedType(pkg, typ)
	if n == nil {
		return []Obligation{undecided(key, desc, "type not found")}
	}
	isT := func(t types.Type) bool {
		nt, ok := t.(*types.Named) // ssa's opaque iterator types are not go/types types: never hand them to types.Identical
		return ok && nt.Obj() == n.Obj()
	}
	isPT := func(t types.Type) bool {
		pt, ok := t.(*types.Pointer)
		return ok && isT(pt.Elem())
	}
	// mutates(f, i): f writes a field of the chip through its i-th parameter (a *T), directly or in a callee
	type fk struct {
		f *ssa.Function
		i int
	}
	memo := map[fk]int{}
	var mutates func(f *ssa.Function, i int) bool
	var flowsToWrite func(f *ssa.Function, ptr ssa.Value, seen map[ssa.Value]bool) bool
	flowsToWrite = func(f *ssa.Function, ptr ssa.Value, seen map[ssa.Value]bool) bool {
		if seen[ptr] {
			return false
		}
		seen[ptr] = true
		refs := ptr.Referrers()
		if refs == nil {
			return false
		}
		for _, r := range *refs {
			switch x := r.(type) {
			case *ssa.FieldAddr:
				for _, r2 := range *x.Referrers() {
					if st, ok := r2.(*ssa.Store); ok && st.Addr == ssa.Value(x) {
						return true
					}
					if c, ok := r2.(ssa.CallInstruction); ok {
						// &p.field handed to a call (e.g. p.collectedMutex.Lock()): a write of the chip's state
						_ = c
						return true
					}
				}
			case *ssa.Store:
				if x.Val == ptr {
					return true // the pointer itself is stored somewhere: escapes
				}
			case ssa.CallInstruction:
				com := x.Common()
				g := com.StaticCallee()
				args := com.Args
				if g == nil {
					if mc, ok := com.Value.(*ssa.MakeClosure); ok {
						g, _ = mc.Fn.(*ssa.Function)
					}
				}
				if g == nil {
					for _, a := range args {
						if a == ptr {
							return true // dynamic call: unknown
						}
					}
					continue
				}
				for ai, a := range args {
					if a == ptr && ai < len(g.Params) && mutates(g, ai) {
						return true
					}
				}
			case *ssa.MakeClosure:
				if g, ok := x.Fn.(*ssa.Function); ok {
					for bi, b := range x.Bindings {
						if b == ptr && bi < len(g.FreeVars) {
							if flowsToWrite(g, g.FreeVars[bi], map[ssa.Value]bool{}) {
								return true
							}
							if w := boundTarget(g); w != nil && len(w.Params) > 0 && mutates(w, 0) {
								return true
							}
						}
					}
				}
			case *ssa.Phi, *ssa.ChangeType, *ssa.MakeInterface:
				if v, ok := r.(ssa.Value); ok && flowsToWrite(f, v, seen) {
					return true
				}
			case *ssa.Return:
				return true // handed out: unknown holder
			}
		}
		return false
	}
	mutates = func(f *ssa.Function, i int) bool {
		k := fk{f, i}
		if v, ok := memo[k]; ok {
			return v == 2
		}
		memo[k] = 1
		res := false
		if len(f.Blocks) == 0 {
			res = true // no body: unknown
		} else if i < len(f.Params) && isPT(f.Params[i].Type()) {
			res = flowsToWrite(f, f.Params[i], map[ssa.Value]bool{})
		}
		if res {
			memo[k] = 2
		} else {
			memo[k] = 3
		}
		return res
	}
	var sites []string
	copies := 0
	for _, fn := range P.ModuleFuncsSorted() {
		for _, b := range fn.Blocks {
			for _, ins := range b.Instrs {
				al, ok := ins.(*ssa.Alloc)
				if !ok || !isPT(al.Type()) {
					continue
				}
				// is the local initialised from a T value (a copy), as opposed to field by field (a fresh chip)?
				isCopy := false
				for _, r := range *al.Referrers() {
					if st, ok := r.(*ssa.Store); ok && st.Addr == ssa.Value(al) && isT(st.Val.Type()) {
						isCopy = true
					}
				}
				if !isCopy {
					continue
				}
				copies++
				if flowsToWrite(fn, al, map[ssa.Value]bool{}) {
					sites = append(sites, fmt.Sprintf("%s: a copy of the %s (%s) is handed to code that writes its state — the update is lost", P.FnName(fn), typ, P.Pos(al.Pos())))
				}
			}
		}
	}
	if len(sites) > 0 {
		sort.Strings(sites)
		if len(sites) > 4 {
			sites = append(sites[:4], fmt.Sprintf("… %d more", len(sites)-4))
		}
		return []Obligation{bad(key, desc, strings.Join(sites, "; "))}
	}
	return []Obligation{good(key, desc, fmt.Sprintf("%s (%d read-only copies)", P.Pos(n.Obj().Pos()), copies))}
}
