package main

// C15 (narrow claim): the structural half of "exact selector filtering, position-wise sum". Decided on the SSA of
// plonk/gates: EvaluateGateConstraints, evalFiltered, computeFilter, RemovePrefix, NumSelectors. The gate polynomials
// themselves (Gate.EvalUnfiltered bodies) are NOT decided.

import (
	"fmt"
	"go/token"
	"go/types"
	"sort"
	"strings"

	"golang.org/x/tools/go/ssa"
)

type c15 struct {
	P   *Program
	obs []Obligation
}

func (c *c15) good(key, desc string, sites ...string) {
	c.obs = append(c.obs, good(key, desc, sites...))
}
func (c *c15) bad(key, desc, detail string, sites ...string) {
	c.obs = append(c.obs, bad(key, desc, detail, sites...))
}
func (c *c15) und(key, desc, detail string) { c.obs = append(c.obs, undecided(key, desc, detail)) }

func callTo(v ssa.Value, fn *ssa.Function) (*ssa.Call, bool) {
	c, ok := v.(*ssa.Call)
	if !ok || fn == nil || c.Call.StaticCallee() != fn {
		return nil, false
	}
	return c, true
}

// lenOfVal: v is len(S) (possibly converted); returns S
func lenOfVal(v ssa.Value) (ssa.Value, bool) {
	v = stripCopies(v)
	c, ok := v.(*ssa.Call)
	if !ok {
		return nil, false
	}
	b, ok := c.Call.Value.(*ssa.Builtin)
	if !ok || b.Name() != "len" || len(c.Call.Args) != 1 {
		return nil, false
	}
	return c.Call.Args[0], true
}

// fullLoopOver: l visits every index 0..len(S)-1 once (counted, start 0, step 1, `<`, bound len(S), no other exit)
func fullLoopOver(l *SLoop, S ssa.Value) bool {
	if l == nil || !l.Counted || l.StartConst == nil || *l.StartConst != 0 || l.Step != 1 || l.Op != token.LSS || !l.SingleExit {
		return false
	}
	s, ok := lenOfVal(l.Bound)
	return ok && s == S
}

// elemAddr: v = &S[idx] with idx the loop's index value (possibly converted)
func elemAddr(v ssa.Value, S ssa.Value, idx ssa.Value) bool {
	ia, ok := v.(*ssa.IndexAddr)
	return ok && ia.X == S && stripCopies(ia.Index) == idx
}

func elemLoad(v ssa.Value, S ssa.Value, idx ssa.Value) bool {
	u, ok := v.(*ssa.UnOp)
	return ok && u.Op == token.MUL && elemAddr(u.X, S, idx)
}

// localCopyOf: a is an Alloc whose only store is `*a = p` of parameter p
func localCopyOf(a ssa.Value, p *ssa.Parameter) bool {
	al, ok := a.(*ssa.Alloc)
	if !ok {
		return false
	}
	n := 0
	for _, r := range *al.Referrers() {
		if st, ok := r.(*ssa.Store); ok && st.Addr == ssa.Value(al) {
			n++
			if st.Val != ssa.Value(p) {
				return false
			}
		}
	}
	return n == 1
}

// paramField: v reads field `name` of struct parameter p (through its local copy or an ssa.Field)
func paramField(v ssa.Value, p *ssa.Parameter, name string) bool {
	v = stripCopies(v)
	if f, ok := v.(*ssa.Field); ok {
		return f.X == ssa.Value(p) && fieldName(types.NewPointer(p.Type()), f.Field) == name
	}
	base, ok := fieldLoad(v, name)
	return ok && localCopyOf(base, p)
}

// recvFieldLoad: v loads the field path recv.f1.f2… ; returns true if it matches
func recvFieldPath(v ssa.Value, recv ssa.Value, path ...string) bool {
	u, ok := v.(*ssa.UnOp)
	if !ok || u.Op != token.MUL {
		return false
	}
	return recvFieldAddr(u.X, recv, path...)
}

func recvFieldAddr(a ssa.Value, recv ssa.Value, path ...string) bool {
	for i := len(path) - 1; i >= 0; i-- {
		fa, ok := a.(*ssa.FieldAddr)
		if !ok || fieldName(fa.X.Type(), fa.Field) != path[i] {
			return false
		}
		a = fa.X
	}
	return a == recv
}

func paramIndex(fn *ssa.Function, v ssa.Value) int {
	for i, p := range fn.Params {
		if ssa.Value(p) == v {
			return i
		}
	}
	return -1
}

// roleRef: where a role (row, selector index, …) arrives in a callee: parameter p, or field path f of the struct
// parameter p (a refactoring may bundle the loose arguments into a struct)
type roleRef struct {
	p int
	f []int
}

// fieldChain: v reads the field path `path` of parameter `root` of fn (through ssa.Field, or loads of FieldAddr on
// the local copy of the parameter); path is empty when v is the parameter itself (or a whole load of its copy)
func fieldChain(fn *ssa.Function, v ssa.Value) (root *ssa.Parameter, path []int, ok bool) {
	v = stripCopies(v)
	switch x := v.(type) {
	case *ssa.Parameter:
		return x, nil, true
	case *ssa.Field:
		r, p, ok := fieldChain(fn, x.X)
		if !ok {
			return nil, nil, false
		}
		return r, append(append([]int(nil), p...), x.Field), true
	case *ssa.UnOp:
		if x.Op != token.MUL {
			return nil, nil, false
		}
		return addrChain(fn, x.X)
	}
	return nil, nil, false
}

func addrChain(fn *ssa.Function, a ssa.Value) (*ssa.Parameter, []int, bool) {
	switch x := a.(type) {
	case *ssa.FieldAddr:
		r, p, ok := addrChain(fn, x.X)
		if !ok {
			return nil, nil, false
		}
		return r, append(append([]int(nil), p...), x.Field), true
	case *ssa.Alloc:
		for _, p := range fn.Params {
			if localCopyOf(x, p) {
				return p, nil, true
			}
		}
	}
	return nil, nil, false
}

func sameInts(a, b []int) bool {
	if len(a) != len(b) {
		return false
	}
	for i := range a {
		if a[i] != b[i] {
			return false
		}
	}
	return true
}

// isRole: v is the value of role ref inside fn
func isRole(fn *ssa.Function, v ssa.Value, ref roleRef) bool {
	root, path, ok := fieldChain(fn, v)
	return ok && paramIndex(fn, root) == ref.p && sameInts(path, ref.f)
}

// isRoleField: v reads field `name` of the (struct-valued) role ref inside fn
func isRoleField(fn *ssa.Function, v ssa.Value, ref roleRef, name string) bool {
	root, path, ok := fieldChain(fn, v)
	if !ok || paramIndex(fn, root) != ref.p || len(path) != len(ref.f)+1 || !sameInts(path[:len(ref.f)], ref.f) {
		return false
	}
	// the type of the role value
	t := root.Type()
	for _, i := range ref.f {
		st, ok := t.Underlying().(*types.Struct)
		if !ok || i >= st.NumFields() {
			return false
		}
		t = st.Field(i).Type()
	}
	st, ok := t.Underlying().(*types.Struct)
	last := path[len(path)-1]
	return ok && last < st.NumFields() && st.Field(last).Name() == name
}

// structLiteralFields: a is a struct value assembled in a local (composite literal): field index → stored value
func structLiteralFields(a ssa.Value) (map[int]ssa.Value, bool) {
	u, ok := a.(*ssa.UnOp)
	if !ok || u.Op != token.MUL {
		return nil, false
	}
	al, ok := u.X.(*ssa.Alloc)
	if !ok {
		return nil, false
	}
	if _, isStruct := al.Type().Underlying().(*types.Pointer).Elem().Underlying().(*types.Struct); !isStruct {
		return nil, false
	}
	out := map[int]ssa.Value{}
	for _, r := range *al.Referrers() {
		switch x := r.(type) {
		case *ssa.FieldAddr:
			for _, r2 := range *x.Referrers() {
				if st, ok := r2.(*ssa.Store); ok && st.Addr == ssa.Value(x) {
					if _, dup := out[x.Field]; dup {
						return nil, false
					}
					out[x.Field] = st.Val
				}
			}
		case *ssa.Store:
			if x.Addr == ssa.Value(al) {
				return nil, false // assigned as a whole: not a literal
			}
		}
	}
	return out, len(out) > 0
}

// passRoles: the roles known in fn (refs) as they arrive in a callee through the arguments of call
func passRoles(fn *ssa.Function, call *ssa.Call, refs map[string]roleRef) map[string]roleRef {
	out := map[string]roleRef{}
	for i, a := range call.Call.Args {
		root, path, ok := fieldChain(fn, a)
		if !ok {
			continue
		}
		for name, ref := range refs {
			if paramIndex(fn, root) != ref.p || len(path) > len(ref.f) || !sameInts(path, ref.f[:len(path)]) {
				continue
			}
			// the argument is the role itself (path == ref.f) or a struct containing it
			out[name] = roleRef{p: i, f: append([]int(nil), ref.f[len(path):]...)}
		}
	}
	return out
}

// inlineSimple: v is a call of a module function that is a single block ending in a one-value return: returns that
// value and the binding of the callee's parameters
func inlineSimple(P *Program, v ssa.Value) (ssa.Value, map[ssa.Value]ssa.Value, bool) {
	c, ok := v.(*ssa.Call)
	if !ok {
		return nil, nil, false
	}
	g := c.Call.StaticCallee()
	env := map[ssa.Value]ssa.Value{}
	if mc, ok := c.Call.Value.(*ssa.MakeClosure); ok {
		// a local closure called through its value: its free variables are bound to the captured cells
		g, _ = mc.Fn.(*ssa.Function)
		if g == nil {
			return nil, nil, false
		}
		for i, fv := range g.FreeVars {
			if i < len(mc.Bindings) {
				env[fv] = mc.Bindings[i]
			}
		}
	}
	if g == nil {
		return nil, nil, false
	}
	if !P.InModule(g) || len(g.Blocks) != 1 {
		return nil, nil, false
	}
	ret, ok := g.Blocks[0].Instrs[len(g.Blocks[0].Instrs)-1].(*ssa.Return)
	if !ok || len(ret.Results) != 1 {
		return nil, nil, false
	}
	for i, p := range g.Params {
		if i < len(c.Call.Args) {
			env[p] = c.Call.Args[i]
		}
	}
	return ret.Results[0], env, true
}

// envSub: the caller-side value a callee-side value stands for under env: parameters map to arguments; a load
// through a captured variable maps to the single value stored in the captured cell
func envSub(env map[ssa.Value]ssa.Value, x ssa.Value) (ssa.Value, bool) {
	x = stripCopies(x)
	if b, ok := env[x]; ok {
		return b, true
	}
	if u, ok := x.(*ssa.UnOp); ok && u.Op == token.MUL {
		if cell, ok := env[u.X]; ok {
			if al, ok := cell.(*ssa.Alloc); ok {
				var val ssa.Value
				n := 0
				for _, r := range *al.Referrers() {
					if st, ok := r.(*ssa.Store); ok && st.Addr == ssa.Value(al) {
						val = st.Val
						n++
					}
				}
				if n == 1 {
					return val, true
				}
			}
		}
	}
	return nil, false
}

func rulesC15(cx *Ctx) []Obligation {
	P := cx.P
	c := &c15{P: P}
	egc := P.Func("plonk/gates", "(*EvaluateGatesChip).EvaluateGateConstraints")
	ef := P.Func("plonk/gates", "(*EvaluateGatesChip).evalFiltered")
	cf := P.Func("plonk/gates", "(*EvaluateGatesChip).computeFilter")
	rp := findStripFn(P)
	ns := P.Func("plonk/gates", "(*SelectorsInfo).NumSelectors")
	mulE := P.Func("goldilocks", "(*Chip).MulExtension")
	addE := P.Func("goldilocks", "(*Chip).AddExtension")
	subE := P.Func("goldilocks", "(*Chip).SubExtension")
	for name, fn := range map[string]*ssa.Function{"EvaluateGateConstraints": egc, "evalFiltered": ef, "computeFilter": cf, "RemovePrefix": rp, "NumSelectors": ns, "MulExtension": mulE, "AddExtension": addE, "SubExtension": subE} {
		if fn == nil {
			c.und("C15/anchor/"+name, "the selector-filtering code is found", name+" not found in plonk/gates / goldilocks")
		}
	}
	if len(c.obs) > 0 {
		return c.obs
	}
	roles := c.sum(egc, ef, ns, addE)
	if roles != nil {
		froles := c.filtered(ef, cf, rp, mulE, roles)
		if froles != nil {
			c.product(cf, mulE, subE, froles)
		}
	}
	c.removePrefix(rp)
	c.numSelectors(ns)
	return c.obs
}

// ---- EvaluateGateConstraints: every gate, own selector index / group, position-wise sum

// sum returns the parameter positions of evalFiltered by role (gate, vars, row, sel, group, nsel)
func (c *c15) sum(egc, ef, ns, addE *ssa.Function) map[string]roleRef {
	P := c.P
	fi := GetFnInfo(egc)
	recv := ssa.Value(egc.Params[0])
	var call *ssa.Call
	n := 0
	for _, b := range egc.Blocks {
		for _, ins := range b.Instrs {
			if cc, ok := callTo(insValue(ins), ef); ok {
				call = cc
				n++
			}
		}
	}
	key := "C15/sum/per-gate-call"
	desc := "EvaluateGateConstraints evaluates every gate of g.gates once, with the gate's own row number, its own selector index selectorIndices[i], the group groups[selectorIndices[i]] and the number of selector polynomials"
	if n != 1 {
		c.und(key, desc, fmt.Sprintf("%d calls of evalFiltered in EvaluateGateConstraints (expected one)", n))
		return nil
	}
	site := P.Pos(call.Pos())
	roles := map[string]roleRef{}
	var gatesSlice, iv ssa.Value
	var loop *SLoop
	args := call.Call.Args
	// the leaf values handed over: loose arguments, or the fields of a struct literal argument
	type leaf struct {
		v   ssa.Value
		ref roleRef
	}
	var leaves []leaf
	for i, a := range args {
		if i == 0 {
			continue
		}
		if fs, ok := structLiteralFields(a); ok {
			var idxs []int
			for f := range fs {
				idxs = append(idxs, f)
			}
			sort.Ints(idxs)
			for _, f := range idxs {
				leaves = append(leaves, leaf{fs[f], roleRef{p: i, f: []int{f}}})
			}
			continue
		}
		leaves = append(leaves, leaf{a, roleRef{p: i}})
	}
	// the gate argument fixes the loop
	for _, lf := range leaves {
		u, ok := lf.v.(*ssa.UnOp)
		if !ok || u.Op != token.MUL {
			continue
		}
		ia, ok := u.X.(*ssa.IndexAddr)
		if !ok || !recvFieldPath(ia.X, recv, "gates") {
			continue
		}
		l := fi.IvOf[stripCopies(ia.Index)]
		if l == nil {
			continue
		}
		roles["gate"] = lf.ref
		gatesSlice, iv, loop = ia.X, stripCopies(ia.Index), l
	}
	if loop == nil {
		c.bad(key, desc, "no argument of evalFiltered is g.gates[i] for a loop index i", site)
		return nil
	}
	if !fullLoopOver(loop, gatesSlice) {
		c.bad(key, desc, "the loop around evalFiltered does not visit every index of g.gates exactly once (start 0, step 1, < len(g.gates), no break)", site)
		return nil
	}
	if !fi.MustBlock(call.Block()) {
		c.bad(key, desc, "evalFiltered is not executed for every gate (conditional, continue or early exit around the call)", site)
		return nil
	}
	var selVal ssa.Value
	for _, lf := range leaves {
		a := lf.v
		switch {
		case stripCopies(a) == iv:
			roles["row"] = lf.ref
		case func() bool {
			u, ok := a.(*ssa.UnOp)
			if !ok || u.Op != token.MUL {
				return false
			}
			ia, ok := u.X.(*ssa.IndexAddr)
			return ok && recvFieldPath(ia.X, recv, "selectorsInfo", "selectorIndices") && stripCopies(ia.Index) == iv
		}():
			roles["sel"] = lf.ref
			selVal = a
		case func() bool {
			cc, ok := callTo(a, ns)
			return ok && recvFieldAddr(cc.Call.Args[0], recv, "selectorsInfo")
		}():
			roles["nsel"] = lf.ref
		case paramIndex(egc, a) > 0:
			roles["vars"] = lf.ref
		}
	}
	for _, lf := range leaves {
		u, ok := lf.v.(*ssa.UnOp)
		if !ok || u.Op != token.MUL || selVal == nil {
			continue
		}
		ia, ok := u.X.(*ssa.IndexAddr)
		if ok && recvFieldPath(ia.X, recv, "selectorsInfo", "groups") && stripCopies(ia.Index) == stripCopies(selVal) {
			roles["group"] = lf.ref
		}
	}
	for _, r := range []string{"gate", "vars", "row", "sel", "group", "nsel"} {
		if _, ok := roles[r]; !ok {
			what := map[string]string{"vars": "the evaluation point passed by the caller", "row": "the gate's index i", "sel": "g.selectorsInfo.selectorIndices[i] for the same i", "group": "g.selectorsInfo.groups[selectorIndices[i]] for the same i", "nsel": "g.selectorsInfo.NumSelectors()"}[r]
			c.bad(key, desc, "no argument of evalFiltered is "+what, site)
			return nil
		}
	}
	if len(roles) != len(leaves) {
		c.und(key, desc, "evalFiltered has arguments the rule does not know")
		return nil
	}
	c.good(key, desc, site)

	// accumulation
	key = "C15/sum/position-wise"
	desc = "the filtered constraints of every gate are added position-wise: constraints[j] = constraints[j] + filtered[j] for every j, into a vector of numGateConstraints zeros that is returned"
	var acc ssa.Value
	var st *ssa.Store
	cnt := 0
	for _, b := range egc.Blocks {
		for _, ins := range b.Instrs {
			s, ok := ins.(*ssa.Store)
			if !ok {
				continue
			}
			ad, ok := callTo(s.Val, addE)
			if !ok {
				continue
			}
			cnt++
			st = s
			_ = ad
		}
	}
	// the accumulation may live in a helper of the package that the gate loop calls with (totals, filtered)
	helperOK := false
	if cnt == 0 {
		for _, b := range egc.Blocks {
			for _, ins := range b.Instrs {
				hc, ok := ins.(*ssa.Call)
				if !ok || helperOK {
					continue
				}
				h := hc.Call.StaticCallee()
				if h == nil || h.Blocks == nil || h.Pkg != egc.Pkg || h == ef {
					continue
				}
				kF := -1
				for ai, a := range hc.Call.Args {
					if a == ssa.Value(call) {
						kF = ai
					}
				}
				if kF < 0 || kF >= len(h.Params) {
					continue
				}
				hfi := GetFnInfo(h)
				var hst *ssa.Store
				hn := 0
				for _, hb := range h.Blocks {
					for _, hi := range hb.Instrs {
						if s2, ok := hi.(*ssa.Store); ok {
							if _, ok := callTo(s2.Val, addE); ok {
								hn++
								hst = s2
							}
						}
					}
				}
				if hn != 1 {
					continue
				}
				hia, ok := hst.Addr.(*ssa.IndexAddr)
				if !ok {
					continue
				}
				accP, ok := hia.X.(*ssa.Parameter)
				if !ok {
					continue
				}
				kA := paramIndex(h, accP)
				hj := stripCopies(hia.Index)
				hil := hfi.IvOf[hj]
				had, _ := callTo(hst.Val, addE)
				h1, h2 := had.Call.Args[1], had.Call.Args[2]
				filtP := ssa.Value(h.Params[kF])
				ssite := P.Pos(hst.Pos())
				switch {
				case hil == nil || !fullLoopOver(hil, filtP) || hil.Parent != nil:
					c.bad(key, desc, "the accumulation loop does not visit every index of the slice evalFiltered returned exactly once", ssite)
					return roles
				case !hfi.MustBlock(hst.Block()) || !hfi.MustBlock(hil.Header) || !fi.MustBlock(hc.Block()):
					c.bad(key, desc, "the accumulation is skipped for some constraint or gate (conditional, continue or early exit)", ssite)
					return roles
				case len(fi.LoopsOf[hc.Block().Index]) == 0 || fi.LoopsOf[hc.Block().Index][len(fi.LoopsOf[hc.Block().Index])-1] != loop:
					c.bad(key, desc, "the accumulating helper is not called directly in the gate loop", P.Pos(hc.Pos()))
					return roles
				case !(elemLoad(h1, ssa.Value(accP), hj) && elemLoad(h2, filtP, hj)) && !(elemLoad(h2, ssa.Value(accP), hj) && elemLoad(h1, filtP, hj)):
					c.bad(key, desc, "the stored value is not AddExtension(constraints[j], filtered[j]) with the index j it is stored at", ssite)
					return roles
				}
				if kA < 0 || kA >= len(hc.Call.Args) {
					continue
				}
				acc = hc.Call.Args[kA]
				st = hst
				helperOK = true
			}
		}
	}
	if cnt != 1 && !helperOK {
		c.und(key, desc, fmt.Sprintf("%d stores of an AddExtension result in EvaluateGateConstraints (expected one)", cnt))
		return roles
	}
	ssite := P.Pos(st.Pos())
	var il *SLoop
	var j ssa.Value
	var a1, a2 ssa.Value
	if !helperOK {
		ia, ok := st.Addr.(*ssa.IndexAddr)
		if !ok {
			c.und(key, desc, "the sum is not stored to a slice element at "+ssite)
			return roles
		}
		acc = ia.X
		j = stripCopies(ia.Index)
		il = fi.IvOf[j]
		ad, _ := callTo(st.Val, addE)
		a1, a2 = ad.Call.Args[1], ad.Call.Args[2]
	}
	switch {
	case !helperOK && (il == nil || !fullLoopOver(il, ssa.Value(call))):
		c.bad(key, desc, "the accumulation loop does not visit every index of the slice evalFiltered returned exactly once", ssite)
	case !helperOK && il.Parent != loop:
		c.bad(key, desc, "the accumulation loop is not nested directly in the gate loop", ssite)
	case !helperOK && (!fi.MustBlock(st.Block()) || !fi.MustBlock(il.Header)):
		c.bad(key, desc, "the accumulation is skipped for some constraint (conditional, continue or early exit)", ssite)
	case !helperOK && !(elemLoad(a1, acc, j) && elemLoad(a2, ssa.Value(call), j)) && !(elemLoad(a2, acc, j) && elemLoad(a1, ssa.Value(call), j)):
		c.bad(key, desc, "the stored value is not AddExtension(constraints[j], filtered[j]) with the index j it is stored at", ssite)
	default:
		// acc: make of numGateConstraints, zero-initialised over its full length, returned
		mk, ok := acc.(*ssa.MakeSlice)
		if !ok || !recvFieldPath(stripCopies(mk.Len), recv, "numGateConstraints") {
			c.bad(key, desc, "the accumulator is not make(…, g.numGateConstraints)", ssite)
			break
		}
		zero := P.Func("goldilocks", "ZeroExtension")
		zinit := false
		for _, b := range egc.Blocks {
			for _, ins := range b.Instrs {
				s, ok := ins.(*ssa.Store)
				if !ok {
					continue
				}
				if _, ok := callTo(s.Val, zero); !ok {
					continue
				}
				zi, ok := s.Addr.(*ssa.IndexAddr)
				if !ok || zi.X != acc {
					continue
				}
				zl := fi.IvOf[stripCopies(zi.Index)]
				if fullLoopOver(zl, acc) && fi.MustBlock(s.Block()) && zl.Parent == nil && blockDominates(zl.Header, loop.Header) {
					zinit = true
				}
			}
		}
		if !zinit {
			c.bad(key, desc, "the accumulator is not set to ZeroExtension() at every index before the gate loop", ssite)
			break
		}
		retOK := true
		nret := 0
		for _, b := range egc.Blocks {
			if r, ok := b.Instrs[len(b.Instrs)-1].(*ssa.Return); ok {
				nret++
				if len(r.Results) != 1 || r.Results[0] != acc {
					retOK = false
				}
			}
		}
		if !retOK || nret == 0 {
			c.bad(key, desc, "EvaluateGateConstraints does not return the accumulator", ssite)
			break
		}
		c.good(key, desc, ssite)
	}
	return roles
}

func insValue(ins ssa.Instruction) ssa.Value {
	v, _ := ins.(ssa.Value)
	return v
}

func blockDominates(a, b *ssa.BasicBlock) bool {
	return a.Dominates(b)
}

// ---- evalFiltered: filter from the un-stripped selector constant, prefix removed before the gate, every constraint × filter

func (c *c15) filtered(ef, cf, rp, mulE *ssa.Function, roles map[string]roleRef) map[string]roleRef {
	P := c.P
	fi := GetFnInfo(ef)
	is := func(v ssa.Value, r string) bool { return isRole(ef, v, roles[r]) }
	var cfCall, rpCall *ssa.Call
	var inv *ssa.Call
	ncf, nrp, ninv := 0, 0, 0
	for _, b := range ef.Blocks {
		for _, ins := range b.Instrs {
			cc, ok := ins.(*ssa.Call)
			if !ok {
				continue
			}
			switch {
			case cc.Call.StaticCallee() == cf:
				cfCall = cc
				ncf++
			case cc.Call.StaticCallee() == rp:
				rpCall = cc
				nrp++
			case cc.Call.IsInvoke() && cc.Call.Method.Name() == "EvalUnfiltered" && is(cc.Call.Value, "gate"):
				inv = cc
				ninv++
			}
		}
	}
	key := "C15/filter/arguments"
	desc := "evalFiltered computes the filter from its own row, its own group range, the selector constant localConstants[selectorIndex] read BEFORE the selector prefix is stripped, and manySelectors = numSelectors > 1"
	if ncf != 1 || nrp != 1 || ninv != 1 {
		c.und(key, desc, fmt.Sprintf("evalFiltered has %d computeFilter / %d prefix-stripping / %d gate.EvalUnfiltered calls (expected one each)", ncf, nrp, ninv))
		return nil
	}
	site := P.Pos(cfCall.Pos())
	// the roles that reach computeFilter as they are (loose or inside the struct that bundles them)
	froles := passRoles(ef, cfCall, map[string]roleRef{"row": roles["row"], "group": roles["group"], "nsel": roles["nsel"]})
	var selLoad *ssa.UnOp
	varsRef := roles["vars"]
	for i, a := range cfCall.Call.Args {
		if i == 0 {
			continue
		}
		switch {
		case func() bool {
			u, ok := a.(*ssa.UnOp)
			if !ok || u.Op != token.MUL {
				return false
			}
			ia, ok := u.X.(*ssa.IndexAddr)
			if !ok || !is(ia.Index, "sel") {
				return false
			}
			lu, ok := ia.X.(*ssa.UnOp)
			if !ok || !isRoleField(ef, lu, varsRef, c15ConstField) {
				return false
			}
			selLoad = lu
			return true
		}():
			froles["s"] = roleRef{p: i}
		case func() bool {
			bo, ok := a.(*ssa.BinOp)
			if !ok {
				return false
			}
			if k, ok := constInt(bo.Y); ok && is(bo.X, "nsel") {
				return (bo.Op == token.GTR && k == 1) || (bo.Op == token.GEQ && k == 2)
			}
			if k, ok := constInt(bo.X); ok && is(bo.Y, "nsel") {
				return (bo.Op == token.LSS && k == 1) || (bo.Op == token.LEQ && k == 2)
			}
			return false
		}():
			froles["many"] = roleRef{p: i}
		}
	}
	_, hasMany := froles["many"]
	_, hasNsel := froles["nsel"]
	for _, r := range []string{"row", "group", "s"} {
		if _, ok := froles[r]; !ok {
			what := map[string]string{"row": "the row", "group": "the group range", "s": "vars.localConstants[selectorIndex]"}[r]
			c.bad(key, desc, "computeFilter does not receive "+what, site)
			return nil
		}
	}
	if !hasMany && !hasNsel {
		c.bad(key, desc, "computeFilter receives neither numSelectors > 1 nor numSelectors", site)
		return nil
	}
	// the selector constant is read before the prefix is stripped
	if !instrBefore(selLoad, rpCall) {
		c.bad(key, desc, "the selector constant is read after the selector prefix was stripped", site)
		return nil
	}
	c.good(key, desc, site)

	key = "C15/filter/prefix-stripped"
	desc = "the gate sees its constants without the selector prefix: the prefix of numSelectors constants is stripped from the local copy of vars on every path before gate.EvalUnfiltered receives it"
	rsite := P.Pos(rpCall.Pos())
	// two idioms: (pointer) vars.RemovePrefix(n) mutates the local copy; (value) stripped := vars.WithoutPrefix(n)
	recvArg := rpCall.Call.Args[0]
	ptrForm := false
	var varsAlloc ssa.Value
	if r, pth, ok := addrChain(ef, recvArg); ok && paramIndex(ef, r) == varsRef.p && sameInts(pth, varsRef.f) {
		ptrForm, varsAlloc = true, recvArg
	}
	valForm := !ptrForm && is(recvArg, "vars") && rpCall.Call.Signature().Results().Len() == 1
	switch {
	case !ptrForm && !valForm:
		c.und(key, desc, "the prefix-stripping function is not applied to the vars parameter (or its local copy) at "+rsite)
	case len(rpCall.Call.Args) < 2 || !is(rpCall.Call.Args[1], "nsel"):
		c.bad(key, desc, "the prefix is not stripped by numSelectors", rsite)
	case !fi.MustBlock(rpCall.Block()):
		c.bad(key, desc, "the prefix is not stripped on every path", rsite)
	case !instrBefore(rpCall, inv):
		c.bad(key, desc, "gate.EvalUnfiltered runs before the prefix is stripped", rsite)
	default:
		okArg := false
		for _, a := range inv.Call.Args {
			if ptrForm {
				if u, ok := a.(*ssa.UnOp); ok && u.Op == token.MUL && u.X == varsAlloc && instrBefore(rpCall, u) {
					okArg = true
				}
			} else if a == ssa.Value(rpCall) {
				okArg = true
			}
		}
		if !okArg {
			c.bad(key, desc, "gate.EvalUnfiltered does not receive the stripped copy of vars", rsite)
		} else {
			c.good(key, desc, rsite)
		}
	}

	key = "C15/filter/every-constraint"
	desc = "every constraint the gate returns is multiplied by the filter: unfiltered[i] = unfiltered[i]·filter for every i, and that vector is returned"
	var st *ssa.Store
	cnt := 0
	for _, b := range ef.Blocks {
		for _, ins := range b.Instrs {
			s, ok := ins.(*ssa.Store)
			if !ok {
				continue
			}
			if _, ok := callTo(s.Val, mulE); ok {
				st = s
				cnt++
			}
		}
	}
	if cnt != 1 {
		c.und(key, desc, fmt.Sprintf("%d stores of a MulExtension result in evalFiltered (expected one)", cnt))
		return froles
	}
	ssite := P.Pos(st.Pos())
	ia, ok := st.Addr.(*ssa.IndexAddr)
	if !ok {
		c.und(key, desc, "the product is not stored to a slice element at "+ssite)
		return froles
	}
	out := ia.X
	j := stripCopies(ia.Index)
	l := fi.IvOf[j]
	m, _ := callTo(st.Val, mulE)
	a1, a2 := m.Call.Args[1], m.Call.Args[2]
	U := ssa.Value(inv)
	F := ssa.Value(cfCall)
	sameLen := out == U
	if mk, ok := out.(*ssa.MakeSlice); ok {
		if s, ok := lenOfVal(mk.Len); ok && s == U {
			sameLen = true
		}
	}
	switch {
	case !sameLen:
		c.bad(key, desc, "the products are not stored over the gate's own constraint vector (or a vector of the same length)", ssite)
	case l == nil || !fullLoopOver(l, U) || l.Parent != nil:
		c.bad(key, desc, "the loop does not visit every index of the slice gate.EvalUnfiltered returned exactly once", ssite)
	case !fi.MustBlock(st.Block()) || !fi.MustBlock(l.Header):
		c.bad(key, desc, "the multiplication is skipped for some constraint (conditional, continue or early exit)", ssite)
	case !(elemLoad(a1, U, j) && a2 == F) && !(elemLoad(a2, U, j) && a1 == F):
		c.bad(key, desc, "the stored value is not MulExtension(unfiltered[i], filter) with the index i it is stored at and the filter computeFilter returned", ssite)
	default:
		retOK, nret := true, 0
		for _, b := range ef.Blocks {
			if r, ok := b.Instrs[len(b.Instrs)-1].(*ssa.Return); ok {
				nret++
				if len(r.Results) != 1 || r.Results[0] != out {
					retOK = false
				}
			}
		}
		if !retOK || nret == 0 {
			c.bad(key, desc, "evalFiltered does not return the filtered vector", ssite)
		} else {
			c.good(key, desc, ssite)
		}
	}
	return froles
}

// instrBefore: a executes before b on every path reaching b (same block and earlier, or a's block strictly dominates b's)
func instrBefore(a, b ssa.Instruction) bool {
	if a == nil || b == nil {
		return false
	}
	if a.Block() == b.Block() {
		ia, ib := -1, -1
		for i, ins := range a.Block().Instrs {
			if ins == a {
				ia = i
			}
			if ins == b {
				ib = i
			}
		}
		return ia >= 0 && ia < ib
	}
	return a.Block().Dominates(b.Block())
}

// ---- computeFilter: ∏_{i ∈ [start,end), i ≠ row} (i − s) · (UNUSED_SELECTOR − s if many selectors)

func (c *c15) product(cf, mulE, subE *ssa.Function, roles map[string]roleRef) {
	P := c.P
	fi := GetFnInfo(cf)
	is := func(v ssa.Value, r string) bool {
		ref, ok := roles[r]
		return ok && isRole(cf, v, ref)
	}
	key := "C15/filter/product"
	desc := "computeFilter returns ∏ (i − s) over i from groupRange.start to groupRange.end−1 skipping exactly i = row, times (UNUSED_SELECTOR − s) exactly when there are several selector polynomials; UNUSED_SELECTOR = 2^32−1 as in plonky2"
	site := P.FnName(cf)
	one := P.Func("goldilocks", "OneExtension")
	newQE := P.Func("goldilocks", "NewQuadraticExtensionVariable")
	newV := P.Func("goldilocks", "NewVariable")
	zero := P.Func("goldilocks", "Zero")
	// factor(v, isX): v = SubExtension(_, QE(NewVariable(x), Zero()), s) with isX(x) — directly, or through a
	// one-block helper of the module that computes it from its arguments (then x and s are seen through the binding)
	var factorSub func(v ssa.Value, isX func(ssa.Value) bool, sub func(ssa.Value) ssa.Value, depth int) bool
	factorSub = func(v ssa.Value, isX func(ssa.Value) bool, sub func(ssa.Value) ssa.Value, depth int) bool {
		sc, ok := callTo(v, subE)
		if !ok {
			if ret, env, ok := inlineSimple(P, v); ok && depth < 2 {
				return factorSub(ret, isX, func(x ssa.Value) ssa.Value {
					if b, ok := envSub(env, x); ok {
						return sub(b)
					}
					return x
				}, depth+1)
			}
			return false
		}
		if !is(sub(sc.Call.Args[2]), "s") {
			return false
		}
		q, ok := callTo(sc.Call.Args[1], newQE)
		if !ok || len(q.Call.Args) != 2 {
			return false
		}
		if _, ok := callTo(q.Call.Args[1], zero); !ok {
			return false
		}
		nv, ok := callTo(q.Call.Args[0], newV)
		if !ok || len(nv.Call.Args) != 1 {
			return false
		}
		return isX(stripCopies(sub(stripCopies(nv.Call.Args[0]))))
	}
	times := func(v ssa.Value, acc ssa.Value, isX func(ssa.Value) bool) bool {
		sub := func(x ssa.Value) ssa.Value { return x }
		m, ok := callTo(v, mulE)
		if !ok {
			// acc·(x − s) computed by a one-block helper or local closure
			ret, env, okI := inlineSimple(P, v)
			if !okI {
				return false
			}
			m, ok = callTo(ret, mulE)
			if !ok {
				return false
			}
			sub = func(x ssa.Value) ssa.Value {
				if b, ok := envSub(env, x); ok {
					return b
				}
				return x
			}
		}
		a1, a2 := m.Call.Args[1], m.Call.Args[2]
		return (sub(a1) == acc && factorSub(a2, isX, sub, 0)) || (sub(a2) == acc && factorSub(a1, isX, sub, 0))
	}
	if len(fi.Loops) != 1 {
		c.und(key, desc, fmt.Sprintf("computeFilter has %d loops (expected one)", len(fi.Loops)))
		return
	}
	l := fi.Loops[0]
	if !l.Counted || l.Step != 1 || l.Op != token.LSS || !l.SingleExit || l.RangeForm {
		c.bad(key, desc, "the loop is not `for i := start; i < end; i++` without break", site)
		return
	}
	if !isRoleField(cf, l.StartVal, roles["group"], "start") {
		c.bad(key, desc, "the product does not start at groupRange.start", site)
		return
	}
	if !isRoleField(cf, l.Bound, roles["group"], "end") {
		c.bad(key, desc, "the product does not run up to (excluding) groupRange.end", site)
		return
	}
	iv := l.IndexVal
	// the accumulator: a header phi other than the index
	var acc *ssa.Phi
	for _, ins := range l.Header.Instrs {
		phi, ok := ins.(*ssa.Phi)
		if !ok {
			break
		}
		if phi != l.Phi {
			if acc != nil {
				c.und(key, desc, "more than one loop-carried value besides the index")
				return
			}
			acc = phi
		}
	}
	if acc == nil {
		c.und(key, desc, "no loop-carried product found")
		return
	}
	var init, back ssa.Value
	for i, p := range l.Header.Preds {
		if l.Blocks[p] {
			back = acc.Edges[i]
		} else {
			init = acc.Edges[i]
		}
	}
	if _, ok := callTo(init, one); !ok {
		c.bad(key, desc, "the product does not start from OneExtension()", site)
		return
	}
	isIv := func(x ssa.Value) bool { return x == iv }
	// back edge: φ[skip: acc, else: acc·(i − s)] where skip is exactly `i == row`
	bp, ok := back.(*ssa.Phi)
	if !ok || len(bp.Edges) != 2 {
		if times(back, acc, isIv) {
			c.bad(key, desc, "the gate's own row is not skipped: the filter would vanish on the gate's own rows", site)
		} else {
			c.und(key, desc, "the loop step is not `if i == row { continue }; product = product·(i − s)`")
		}
		return
	}
	skipIdx, mulIdx := -1, -1
	for i, e := range bp.Edges {
		if e == ssa.Value(acc) {
			skipIdx = i
		} else if times(e, acc, isIv) {
			mulIdx = i
		}
	}
	if skipIdx < 0 || mulIdx < 0 {
		c.bad(key, desc, "the loop step is not product·(i − s) with i the loop index and s the selector value (or the skipped iteration changes the product)", site)
		return
	}
	// the branch deciding between the two edges
	skipPred := bp.Block().Preds[skipIdx]
	iff, ok := skipPred.Instrs[len(skipPred.Instrs)-1].(*ssa.If)
	if !ok {
		c.und(key, desc, "cannot find the branch that skips an iteration")
		return
	}
	bo, ok := iff.Cond.(*ssa.BinOp)
	isCmp := ok && (bo.Op == token.EQL || bo.Op == token.NEQ) &&
		((stripCopies(bo.X) == iv && is(bo.Y, "row")) || (stripCopies(bo.Y) == iv && is(bo.X, "row")))
	if !isCmp {
		c.bad(key, desc, "the skipped iteration is not decided by i == row", P.Pos(iff.Pos()))
		return
	}
	// on which edge does the skip happen? successor 0 = condition true
	takenOnTrue := skipPred.Succs[0] == bp.Block()
	if (bo.Op == token.EQL) != takenOnTrue {
		c.bad(key, desc, "the iteration i == row is the only one multiplied instead of the only one skipped", P.Pos(iff.Pos()))
		return
	}
	// after the loop: φ[!many: acc, many: acc·(UNUSED − s)]
	unused := int64(-1)
	if sp := P.SPkgs["plonk/gates"]; sp != nil {
		if nc, ok := sp.Members["UNUSED_SELECTOR"].(*ssa.NamedConst); ok {
			if v, ok := constInt(nc.Value); ok {
				unused = v
			}
		}
	}
	if unused != 4294967295 {
		c.bad(key, desc, fmt.Sprintf("UNUSED_SELECTOR = %d, plonky2 uses u32::MAX = 4294967295", unused), site)
		return
	}
	isUnused := func(x ssa.Value) bool { k, ok := constInt(x); return ok && k == unused }
	var ret *ssa.Return
	nret := 0
	for _, b := range cf.Blocks {
		if r, ok := b.Instrs[len(b.Instrs)-1].(*ssa.Return); ok {
			ret = r
			nret++
		}
	}
	if nret != 1 || len(ret.Results) != 1 {
		c.und(key, desc, "computeFilter has several returns")
		return
	}
	fp, ok := ret.Results[0].(*ssa.Phi)
	if !ok || len(fp.Edges) != 2 {
		if ret.Results[0] == ssa.Value(acc) {
			c.bad(key, desc, "the factor (UNUSED_SELECTOR − s) is never applied", site)
		} else if times(ret.Results[0], acc, isUnused) {
			c.bad(key, desc, "the factor (UNUSED_SELECTOR − s) is applied even with a single selector polynomial", site)
		} else {
			c.und(key, desc, "the value returned is not product or product·(UNUSED_SELECTOR − s)")
		}
		return
	}
	plainIdx, unIdx := -1, -1
	for i, e := range fp.Edges {
		if e == ssa.Value(acc) {
			plainIdx = i
		} else if times(e, acc, isUnused) {
			unIdx = i
		}
	}
	if plainIdx < 0 || unIdx < 0 {
		c.bad(key, desc, "the value returned is not product / product·(UNUSED_SELECTOR − s)", site)
		return
	}
	pp := fp.Block().Preds[plainIdx]
	iff2, ok := pp.Instrs[len(pp.Instrs)-1].(*ssa.If)
	if !ok {
		c.und(key, desc, "cannot find the branch on manySelector")
		return
	}
	cond := iff2.Cond
	neg := false
	if u, ok := cond.(*ssa.UnOp); ok && u.Op == token.NOT {
		cond, neg = u.X, true
	}
	isMany := is(cond, "many")
	if !isMany {
		// manySelector derived locally from the number of selector polynomials
		if bo, ok := stripCopies(cond).(*ssa.BinOp); ok {
			if k, ok := constInt(bo.Y); ok && is(bo.X, "nsel") && ((bo.Op == token.GTR && k == 1) || (bo.Op == token.GEQ && k == 2)) {
				isMany = true
			}
			if k, ok := constInt(bo.X); ok && is(bo.Y, "nsel") && ((bo.Op == token.LSS && k == 1) || (bo.Op == token.LEQ && k == 2)) {
				isMany = true
			}
		}
	}
	if !isMany {
		c.bad(key, desc, "the factor (UNUSED_SELECTOR − s) is not decided by manySelector", P.Pos(iff2.Pos()))
		return
	}
	plainOnTrue := pp.Succs[0] == fp.Block()
	if plainOnTrue != neg {
		c.bad(key, desc, "the factor (UNUSED_SELECTOR − s) is applied exactly when there is a single selector polynomial", P.Pos(iff2.Pos()))
		return
	}
	c.good(key, desc, site)
}

// findStripFn: the method of EvaluationVars that drops a prefix of the local constants — identified by what it does
// (it slices the receiver's localConstants from its argument), not by its name
func findStripFn(P *Program) *ssa.Function {
	for _, fn := range P.ModuleFuncsSorted() {
		if fnPkgShort(fn) != "plonk/gates" || fn.Signature.Recv() == nil || len(fn.Params) != 2 || len(fn.Blocks) == 0 {
			continue
		}
		rt := fn.Signature.Recv().Type()
		if pt, ok := rt.(*types.Pointer); ok {
			rt = pt.Elem()
		}
		if n, ok := rt.(*types.Named); !ok || n.Obj().Name() != "EvaluationVars" {
			continue
		}
		for _, b := range fn.Blocks {
			for _, ins := range b.Instrs {
				if sl, ok := ins.(*ssa.Slice); ok && sl.Low != nil && sl.High == nil && stripCopies(sl.Low) == ssa.Value(fn.Params[1]) {
					// which field of the receiver is sliced? (its name is not assumed)
					if name, ok := receiverFieldOf(fn, sl.X); ok {
						c15ConstField = name
						return fn
					}
				}
			}
		}
	}
	return nil
}

// c15ConstField: the field of EvaluationVars holding the local constants (selector constants first); found by
// findStripFn from what the stripping method slices
var c15ConstField = "localConstants"

// receiverFieldOf: v is a load of field F of fn's receiver (pointer or value receiver); returns F's name
func receiverFieldOf(fn *ssa.Function, v ssa.Value) (string, bool) {
	u, ok := v.(*ssa.UnOp)
	if ok && u.Op == token.MUL {
		if fa, ok := u.X.(*ssa.FieldAddr); ok {
			if fa.X == ssa.Value(fn.Params[0]) {
				return fieldName(fa.X.Type(), fa.Field), true
			}
			if al, ok := fa.X.(*ssa.Alloc); ok && localCopyOfPlus(al, fn.Params[0]) {
				return fieldName(fa.X.Type(), fa.Field), true
			}
		}
	}
	if f, ok := v.(*ssa.Field); ok && f.X == ssa.Value(fn.Params[0]) {
		return fieldName(types.NewPointer(f.X.Type()), f.Field), true
	}
	return "", false
}

func (c *c15) removePrefix(rp *ssa.Function) {
	key := "C15/filter/remove-prefix"
	desc := "the prefix-stripping method replaces localConstants by localConstants[n:] (drops exactly the n selector constants from the front) and leaves the other fields as they are"
	site := c.P.FnName(rp)
	recv := ssa.Value(rp.Params[0])
	isStrip := func(v ssa.Value) bool {
		sl, ok := v.(*ssa.Slice)
		if !ok || sl.High != nil || sl.Max != nil || sl.Low == nil || stripCopies(sl.Low) != ssa.Value(rp.Params[1]) {
			return false
		}
		return recvFieldPath(sl.X, recv, c15ConstField) || isRoleField(rp, sl.X, roleRef{p: 0}, c15ConstField)
	}
	if len(rp.Blocks) != 1 {
		c.bad(key, desc, "the method has branches", site)
		return
	}
	if _, isPtr := rp.Signature.Recv().Type().(*types.Pointer); isPtr {
		// pointer form: the single assignment e.localConstants = e.localConstants[n:]
		n, okk := 0, false
		for _, ins := range rp.Blocks[0].Instrs {
			if st, ok := ins.(*ssa.Store); ok {
				n++
				if recvFieldAddr(st.Addr, recv, c15ConstField) && isStrip(st.Val) {
					okk = true
				}
			}
		}
		if okk && n == 1 {
			c.good(key, desc, site)
		} else {
			c.bad(key, desc, "the method is not the single assignment e.localConstants = e.localConstants[numSelectors:]", site)
		}
		return
	}
	// value form: returns a copy whose localConstants is the stripped slice and whose other fields are the receiver's
	ret, ok := rp.Blocks[0].Instrs[len(rp.Blocks[0].Instrs)-1].(*ssa.Return)
	if !ok || len(ret.Results) != 1 {
		c.bad(key, desc, "the value-receiver method does not return the stripped copy", site)
		return
	}
	fields, isLit := structLiteralFields(ret.Results[0])
	st, _ := rp.Params[0].Type().Underlying().(*types.Struct)
	if !isLit {
		// the receiver copy itself, with only localConstants overwritten
		if u, ok := ret.Results[0].(*ssa.UnOp); ok {
			if al, ok := u.X.(*ssa.Alloc); ok && localCopyOfPlus(al, rp.Params[0]) {
				fields, isLit = allocFieldStores(al), true
				for i := 0; st != nil && i < st.NumFields(); i++ {
					if _, has := fields[i]; !has {
						fields[i] = nil // untouched: still the receiver's value
					}
				}
			}
		}
	}
	if !isLit || st == nil {
		c.und(key, desc, "the returned value is not a recognisable copy of the receiver")
		return
	}
	for i := 0; i < st.NumFields(); i++ {
		v, has := fields[i]
		name := st.Field(i).Name()
		switch {
		case name == c15ConstField:
			if !has || v == nil || !isStrip(v) {
				c.bad(key, desc, "the returned localConstants is not e.localConstants[numSelectors:]", site)
				return
			}
		case has && v == nil:
			// untouched field of the receiver's copy
		case !has || !isRoleField(rp, v, roleRef{p: 0}, name):
			c.bad(key, desc, "field "+name+" of the returned copy is not the receiver's "+name, site)
			return
		}
	}
	c.good(key, desc, site)
}

// localCopyOfPlus: the alloc is initialised from parameter p as a whole (field stores may follow)
func localCopyOfPlus(al *ssa.Alloc, p *ssa.Parameter) bool {
	n := 0
	for _, r := range *al.Referrers() {
		if st, ok := r.(*ssa.Store); ok && st.Addr == ssa.Value(al) {
			n++
			if st.Val != ssa.Value(p) {
				return false
			}
		}
	}
	return n == 1
}

func allocFieldStores(al *ssa.Alloc) map[int]ssa.Value {
	out := map[int]ssa.Value{}
	for _, r := range *al.Referrers() {
		if fa, ok := r.(*ssa.FieldAddr); ok {
			for _, r2 := range *fa.Referrers() {
				if st, ok := r2.(*ssa.Store); ok && st.Addr == ssa.Value(fa) {
					out[fa.Field] = st.Val
				}
			}
		}
	}
	return out
}

func (c *c15) numSelectors(ns *ssa.Function) {
	key := "C15/filter/num-selectors"
	desc := "NumSelectors is the number of selector groups (one selector polynomial per group, as plonky2's SelectorsInfo::num_selectors)"
	site := c.P.FnName(ns)
	recv := ssa.Value(ns.Params[0])
	for _, b := range ns.Blocks {
		if r, ok := b.Instrs[len(b.Instrs)-1].(*ssa.Return); ok {
			if len(r.Results) == 1 {
				if s, ok := lenOfVal(r.Results[0]); ok && recvFieldPath(s, recv, "groups") && len(ns.Blocks) == 1 {
					c.good(key, desc, site)
					return
				}
			}
		}
	}
	c.bad(key, desc, "NumSelectors does not return len(s.groups)", site)
}

// ---- parameter relevance (C08/O8.4, C07/O7.4): every value an arithmetic gadget returns is computed from each of
// its field-typed operands. A return that ignores an operand (an early `return Zero` on some path, an accumulator
// dropped) cannot equal the mathematical result for all operands. Exceptions are tabled with their reason.

// dependsOn: the SSA value v is computed (through data flow, φ, calls and local memory) from the parameter p
func dependsOn(v ssa.Value, p *ssa.Parameter, seen map[ssa.Value]bool) bool {
	if v == nil || seen[v] {
		return false
	}
	seen[v] = true
	if v == ssa.Value(p) {
		return true
	}
	switch x := v.(type) {
	case *ssa.Alloc:
		// whatever is stored into the local (or its parts)
		var walk func(a ssa.Value) bool
		walk = func(a ssa.Value) bool {
			refs := a.Referrers()
			if refs == nil {
				return false
			}
			for _, r := range *refs {
				switch y := r.(type) {
				case *ssa.Store:
					if y.Addr == a && dependsOn(y.Val, p, seen) {
						return true
					}
				case *ssa.IndexAddr:
					if y.X == a && walk(y) {
						return true
					}
				case *ssa.FieldAddr:
					if y.X == a && walk(y) {
						return true
					}
				}
			}
			return false
		}
		return walk(x)
	case *ssa.IndexAddr:
		return dependsOn(x.X, p, seen) || dependsOn(x.Index, p, seen)
	case *ssa.FieldAddr:
		return dependsOn(x.X, p, seen)
	}
	if ins, ok := v.(ssa.Instruction); ok {
		for _, op := range ins.Operands(nil) {
			if op != nil && *op != nil && dependsOn(*op, p, seen) {
				return true
			}
		}
	}
	return false
}

var relevanceExceptions = map[string]string{
	"(*Chip).ExpExtension": "a^0 = 1 and the loop-free small cases return constants or the operand itself by definition",
}

func rulesParamRelevance(cx *Ctx, prop string, filter func(name string) bool) []Obligation {
	P := cx.P
	var obs []Obligation
	n := 0
	for _, fn := range P.ModuleFuncsSorted() {
		if fnPkgShort(fn) != "goldilocks" || fn.Signature.Recv() == nil || len(fn.Blocks) == 0 || fn.Object() == nil || !fn.Object().Exported() {
			continue
		}
		name := strings.TrimPrefix(P.FnName(fn), "goldilocks.")
		short := fn.Name()
		if !filter(short) {
			continue
		}
		// operands: parameters of type Variable / QuadraticExtensionVariable (and slices / arrays of them)
		var operands []*ssa.Parameter
		for i, p := range fn.Params {
			if i == 0 {
				continue
			}
			if strings.Contains(p.Type().String(), "goldilocks.Variable") || strings.Contains(p.Type().String(), "QuadraticExtension") {
				operands = append(operands, p)
			}
		}
		if len(operands) == 0 || fn.Signature.Results().Len() == 0 {
			continue
		}
		n++
		key := fmt.Sprintf("%s/relevance/%s", prop, short)
		desc := "every value the gadget returns is computed from each of its field operands (no return path ignores an operand)"
		if why, ok := relevanceExceptions["(*Chip)."+short]; ok {
			obs = append(obs, Obligation{Key: key, Desc: desc, Status: INFO, Detail: "exempt: " + why})
			continue
		}
		bad1 := ""
		nFull := 0
		for _, b := range fn.Blocks {
			ret, ok := b.Instrs[len(b.Instrs)-1].(*ssa.Return)
			if !ok || len(ret.Results) == 0 {
				continue
			}
			if enteredOnlyWhenEmpty(b) {
				// `if len(list) == 0 { return f(rest) }`: what the zero-trip loop would have returned — it must still be
				// computed from every operand that is used outside the loops (the accumulator's starting value, …)
				for _, p := range operands {
					if _, isList := p.Type().Underlying().(*types.Slice); isList {
						continue
					}
					if usedOutsideLoops(fi0(fn), p, b) && !dependsOn(ret.Results[0], p, map[ssa.Value]bool{}) {
						bad1 = fmt.Sprintf("the value returned for an empty list at %s does not depend on operand %s, which the general path uses outside its loop", P.Pos(ret.Pos()), p.Name())
					}
				}
				continue
			}
			nFull++
			for _, p := range operands {
				if !dependsOn(ret.Results[0], p, map[ssa.Value]bool{}) {
					bad1 = fmt.Sprintf("the value returned at %s does not depend on operand %s", P.Pos(ret.Pos()), p.Name())
				}
			}
		}
		_ = name
		if nFull == 0 && bad1 == "" {
			bad1 = "every return is taken only for an empty list"
		}
		if bad1 != "" {
			obs = append(obs, bad(key, desc, bad1, P.FnName(fn)))
		} else {
			obs = append(obs, good(key, desc, P.FnName(fn)))
		}
	}
	if n == 0 {
		obs = append(obs, undecided(prop+"/relevance/floor", "arithmetic gadgets found", "no gadget matched"))
	}
	return obs
}

// enteredOnlyWhenEmpty: block b is entered only through the edge on which a list parameter of the function is empty
// (`len(p) == 0` true edge, `len(p) != 0` / `len(p) > 0` false edge)
func enteredOnlyWhenEmpty(b *ssa.BasicBlock) bool {
	if len(b.Preds) != 1 {
		return false
	}
	p := b.Preds[0]
	iff, ok := p.Instrs[len(p.Instrs)-1].(*ssa.If)
	if !ok || len(p.Succs) != 2 || p.Succs[0] == p.Succs[1] {
		return false
	}
	cmp, ok := iff.Cond.(*ssa.BinOp)
	if !ok {
		return false
	}
	isLenParam := func(v ssa.Value) bool {
		l, ok := lenOfVal(v)
		if !ok {
			return false
		}
		_, isP := stripCopies(l).(*ssa.Parameter)
		return isP
	}
	isZero := func(v ssa.Value) bool { k, ok := constInt(v); return ok && k == 0 }
	onTrue := p.Succs[0] == b
	switch {
	case isLenParam(cmp.X) && isZero(cmp.Y):
		switch cmp.Op {
		case token.EQL, token.LEQ:
			return onTrue
		case token.NEQ, token.GTR:
			return !onTrue
		}
	case isZero(cmp.X) && isLenParam(cmp.Y):
		switch cmp.Op {
		case token.EQL, token.GEQ:
			return onTrue
		case token.NEQ, token.LSS:
			return !onTrue
		}
	}
	return false
}

func fi0(fn *ssa.Function) *FnInfo { return GetFnInfo(fn) }

// usedOutsideLoops: operand p (or a local copy of it) is used by an instruction that is in no loop and not in block
// `except`
func usedOutsideLoops(fi *FnInfo, p *ssa.Parameter, except *ssa.BasicBlock) bool {
	seen := map[ssa.Value]bool{}
	var walk func(v ssa.Value, d int) bool
	walk = func(v ssa.Value, d int) bool {
		if d > 4 || seen[v] || v.Referrers() == nil {
			return false
		}
		seen[v] = true
		for _, r := range *v.Referrers() {
			if _, dbg := r.(*ssa.DebugRef); dbg {
				continue
			}
			b := r.Block()
			if b == nil || b == except {
				continue
			}
			if phi, ok := r.(*ssa.Phi); ok {
				// the starting value of a loop-carried accumulator enters on the edge from outside the loop
				if l := fi.HeaderOf[b]; l != nil {
					for i, pb := range b.Preds {
						if phi.Edges[i] == v && !l.Blocks[pb] {
							return true
						}
					}
				}
			}
			if st, ok := r.(*ssa.Store); ok && st.Val == v {
				// a spill / local copy: what reads the copy counts
				base := st.Addr
				for {
					if ia, ok := base.(*ssa.IndexAddr); ok {
						base = ia.X
						continue
					}
					if fa, ok := base.(*ssa.FieldAddr); ok {
						base = fa.X
						continue
					}
					break
				}
				if al, ok := base.(*ssa.Alloc); ok {
					if al.Comment == p.Name() {
						// the parameter's own spill slot: follow its loads
						if walkAllocLoads(al, walk, d) {
							return true
						}
						continue
					}
					if len(fi.LoopsOf[b.Index]) == 0 {
						return true // copied into another local outside any loop (acc := startingAcc)
					}
					continue
				}
			}
			if len(fi.LoopsOf[b.Index]) == 0 {
				return true
			}
		}
		return false
	}
	return walk(p, 0)
}

func walkAllocLoads(al *ssa.Alloc, walk func(ssa.Value, int) bool, d int) bool {
	var rec func(ptr ssa.Value) bool
	rec = func(ptr ssa.Value) bool {
		if ptr.Referrers() == nil {
			return false
		}
		for _, r := range *ptr.Referrers() {
			switch u := r.(type) {
			case *ssa.UnOp:
				if u.Op == token.MUL && walk(u, d+1) {
					return true
				}
			case *ssa.IndexAddr:
				if rec(u) {
					return true
				}
			case *ssa.FieldAddr:
				if rec(u) {
					return true
				}
			}
		}
		return false
	}
	return rec(al)
}
