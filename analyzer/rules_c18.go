package main

// C18 — gate identifiers resolve to exactly one gate with the stated parameters, or fail.
// E3 regex-language analysis: the patterns are read from the program (constant arguments of the
// regexp.MustCompile calls that initialise the keys of the gateRegexHandlers map), compiled with regexp/syntax
// and compared, as regular languages, with a reference grammar of plonky2 gate identifiers.

import (
	"fmt"
	"go/constant"
	"go/token"
	"go/types"
	"regexp/syntax"
	"sort"
	"strings"

	"golang.org/x/tools/go/ssa"
)

// ---------------------------------------------------------------- automata over regexp/syntax programs

type nfa struct {
	prog *syntax.Prog
	src  string
}

func compileFull(re string) (*nfa, error) {
	r, err := syntax.Parse(re, syntax.Perl)
	if err != nil {
		return nil, err
	}
	p, err := syntax.Compile(r.Simplify())
	if err != nil {
		return nil, err
	}
	for _, in := range p.Inst {
		if in.Op == syntax.InstEmptyWidth {
			return nil, fmt.Errorf("pattern uses an empty-width assertion (anchors / word boundaries are not modelled)")
		}
	}
	return &nfa{prog: p, src: re}, nil
}

// contains: the language of strings having a substring matched by pat (what unanchored FindStringSubmatch accepts).
func compileContains(pat string) (*nfa, error) {
	return compileFull("(?s:.*)(?:" + pat + ")(?s:.*)")
}

type stateSet string // sorted pcs, encoded

func (n *nfa) closure(pcs []uint32) stateSet {
	seen := map[uint32]bool{}
	var out []uint32
	var stack []uint32
	stack = append(stack, pcs...)
	for len(stack) > 0 {
		pc := stack[len(stack)-1]
		stack = stack[:len(stack)-1]
		if seen[pc] {
			continue
		}
		seen[pc] = true
		in := n.prog.Inst[pc]
		switch in.Op {
		case syntax.InstAlt, syntax.InstAltMatch:
			stack = append(stack, in.Out, in.Arg)
		case syntax.InstCapture, syntax.InstNop:
			stack = append(stack, in.Out)
		case syntax.InstFail:
		default:
			out = append(out, pc)
		}
	}
	sort.Slice(out, func(i, j int) bool { return out[i] < out[j] })
	var sb strings.Builder
	for _, pc := range out {
		fmt.Fprintf(&sb, "%d,", pc)
	}
	return stateSet(sb.String())
}

func (n *nfa) pcs(s stateSet) []uint32 {
	var out []uint32
	for _, f := range strings.Split(string(s), ",") {
		if f == "" {
			continue
		}
		var v uint32
		fmt.Sscanf(f, "%d", &v)
		out = append(out, v)
	}
	return out
}

func (n *nfa) start() stateSet { return n.closure([]uint32{uint32(n.prog.Start)}) }

func (n *nfa) accepting(s stateSet) bool {
	for _, pc := range n.pcs(s) {
		if n.prog.Inst[pc].Op == syntax.InstMatch {
			return true
		}
	}
	return false
}

func (n *nfa) step(s stateSet, r rune) stateSet {
	var next []uint32
	for _, pc := range n.pcs(s) {
		in := n.prog.Inst[pc]
		switch in.Op {
		case syntax.InstRune, syntax.InstRune1, syntax.InstRuneAny, syntax.InstRuneAnyNotNL:
			if in.MatchRune(r) {
				next = append(next, in.Out)
			}
		}
	}
	return n.closure(next)
}

// alphabet: one representative rune per class of runes that no instruction of either program distinguishes.
func alphabet(ns ...*nfa) []rune {
	bounds := map[rune]bool{0: true, '\n': true, '\n' + 1: true}
	for _, n := range ns {
		for _, in := range n.prog.Inst {
			if in.Op == syntax.InstRune || in.Op == syntax.InstRune1 {
				rs := in.Rune
				if len(rs) == 1 {
					rs = []rune{rs[0], rs[0]}
				}
				for i := 0; i+1 < len(rs); i += 2 {
					bounds[rs[i]] = true
					bounds[rs[i+1]+1] = true
					if syntax.Flags(in.Arg)&syntax.FoldCase != 0 {
						for c := rs[i]; c <= rs[i+1] && c < rs[i]+64; c++ {
							bounds[c] = true
							bounds[c+1] = true
						}
					}
				}
			}
		}
	}
	var out []rune
	for b := range bounds {
		if b <= 0x10FFFF {
			out = append(out, b)
		}
	}
	sort.Slice(out, func(i, j int) bool { return out[i] < out[j] })
	return out
}

// witness search over the product of the two determinised automata. mode "both": a string accepted by a and b;
// mode "notb": a string accepted by a and rejected by b. Returns the witness string and whether one exists.
func productWitness(a, b *nfa, mode string) (string, bool) {
	alpha := alphabet(a, b)
	type st struct{ x, y stateSet }
	start := st{a.start(), b.start()}
	prev := map[st]st{}
	via := map[st]rune{}
	seen := map[st]bool{start: true}
	queue := []st{start}
	accept := func(s st) bool {
		if !a.accepting(s.x) {
			return false
		}
		if mode == "both" {
			return b.accepting(s.y)
		}
		return !b.accepting(s.y)
	}
	for len(queue) > 0 {
		cur := queue[0]
		queue = queue[1:]
		if accept(cur) {
			var rs []rune
			for c := cur; c != start; c = prev[c] {
				rs = append([]rune{via[c]}, rs...)
			}
			return string(rs), true
		}
		if len(seen) > 400000 {
			return "(search space too large)", true
		}
		for _, r := range alpha {
			nx := a.step(cur.x, r)
			if nx == "" {
				continue // a is dead: no accepted string this way
			}
			n := st{nx, b.step(cur.y, r)}
			if !seen[n] {
				seen[n] = true
				prev[n] = cur
				via[n] = r
				queue = append(queue, n)
			}
		}
	}
	return "", false
}

// ---------------------------------------------------------------- reference grammar of plonky2 gate identifiers

const phantom = `PhantomData<plonky2_field::goldilocks_field::GoldilocksField>`
const num = `[0-9]+`
const notTwo = `(?:[013-9]|[0-9][0-9]+)`

func q(s string) string {
	return strings.NewReplacer("{", `\{`, "}", `\}`, "[", `\[`, "]", `\]`, "(", `\(`, ")", `\)`, "+", `\+`, "N", num).Replace(s)
}

// supported gate type → identifier template(s) emitted by plonky2's Debug-derived Gate::id()
var supportedIDs = map[string]string{
	"ArithmeticGate":              q("ArithmeticGate { num_ops: N }"),
	"ArithmeticExtensionGate":     q("ArithmeticExtensionGate { num_ops: N }"),
	"BaseSumGate":                 q("BaseSumGate { num_limbs: N } + Base: N"),
	"ConstantGate":                q("ConstantGate { num_consts: N }"),
	"CosetInterpolationGate":      q("CosetInterpolationGate { subgroup_bits: N, degree: N, barycentric_weights: [") + num + `(?:, ` + num + `)*` + q("], _phantom: "+phantom+" }<D=2>"),
	"ExponentiationGate":          q("ExponentiationGate { num_power_bits: N, _phantom: " + phantom + " }<D=2>"),
	"MultiplicationExtensionGate": q("MulExtensionGate { num_ops: N }"),
	"NoopGate":                    "NoopGate",
	"PoseidonGate":                q("PoseidonGate(" + phantom + ")<WIDTH=12>"),
	"PoseidonMdsGate":             q("PoseidonMdsGate(" + phantom + ")<WIDTH=12>"),
	"PublicInputGate":             "PublicInputGate",
	"RandomAccessGate":            q("RandomAccessGate { bits: N, num_copies: N, num_extra_constants: N, _phantom: " + phantom + " }<D=2>"),
	"ReducingExtensionGate":       q("ReducingExtensionGate { num_coeffs: N }"),
	"ReducingGate":                q("ReducingGate { num_coeffs: N }"),
}

// identifiers of gates the verifier does not implement (plonky2's lookup gates, the gadget crates' u32 / comparison
// gates as defined in /repo/crypto/plonky2_u32/src/gates, and wrong-extension-degree variants)
var unsupportedIDs = map[string]string{
	"LookupGate":             q("LookupGate { num_slots: N, lut_hash: [") + num + `(?:, ` + num + `)*` + q("] }"),
	"LookupTableGate":        q("LookupTableGate { num_slots: N, lut_hash: [") + num + `(?:, ` + num + `)*` + q("], last_lut_row: N }"),
	"U32ArithmeticGate":      q("U32ArithmeticGate { num_ops: N, _phantom: " + phantom + " }"),
	"U32AddManyGate":         q("U32AddManyGate { num_addends: N, num_ops: N, _phantom: " + phantom + " }"),
	"U32SubtractionGate":     q("U32SubtractionGate { num_ops: N, _phantom: " + phantom + " }"),
	"U32RangeCheckGate":      q("U32RangeCheckGate { num_input_limbs: N, _phantom: " + phantom + " }"),
	"ComparisonGate":         q("ComparisonGate { num_bits: N, num_chunks: N, _phantom: "+phantom+" }<D=") + num + ">",
	"U32InterleaveGate":      q("U32InterleaveGate { num_ops: N }"),
	"UninterleaveToB32Gate":  q("UninterleaveToB32Gate { num_ops: N }"),
	"UninterleaveToU32Gate":  q("UninterleaveToU32Gate { num_ops: N }"),
	"CosetInterpolation/D≠2": q("CosetInterpolationGate { subgroup_bits: N, degree: N, barycentric_weights: [") + num + `(?:, ` + num + `)*` + q("], _phantom: "+phantom+" }<D=") + notTwo + ">",
}

// wrong-degree variants of gates whose identifier carries D and whose pattern captures it: the handler must refuse
var wrongDegreeIDs = map[string]string{
	"ExponentiationGate": q("ExponentiationGate { num_power_bits: N, _phantom: "+phantom+" }<D=") + notTwo + ">",
	"RandomAccessGate":   q("RandomAccessGate { bits: N, num_copies: N, num_extra_constants: N, _phantom: "+phantom+" }<D=") + notTwo + ">",
}

// capture group → field of the returned gate (parameter flow table)
var paramFlow = map[string]map[string]string{
	"ArithmeticGate":              {"numOps": "numOps"},
	"ArithmeticExtensionGate":     {"numOps": "numOps"},
	"BaseSumGate":                 {"numLimbs": "numLimbs", "base": "base"},
	"ConstantGate":                {"numConsts": "numConsts"},
	"CosetInterpolationGate":      {"subgroupBits": "subgroupBits", "degree": "degree", "barycentricWeights": "barycentricWeights"},
	"ExponentiationGate":          {"numPowerBits": "numPowerBits"},
	"MultiplicationExtensionGate": {"numOps": "numOps"},
	"RandomAccessGate":            {"bits": "bits", "numCopies": "numCopies", "numExtraConstants": "numExtraConstants"},
	"ReducingExtensionGate":       {"numCoeffs": "numCoeffs"},
	"ReducingGate":                {"numCoeffs": "numCoeffs"},
}

// ---------------------------------------------------------------- registry extraction

type regEntry struct {
	pattern string
	patVar  string
	handler *ssa.Function
	gate    string // Go type name of the gate the handler returns
	pos     token.Pos
}

func gateRegistry(P *Program) ([]regEntry, string) {
	sp := P.SPkgs["plonk/gates"]
	if sp == nil {
		return nil, "package plonk/gates not found"
	}
	initFn := sp.Func("init")
	if initFn == nil {
		return nil, "package initialiser not found"
	}
	patOf := map[*ssa.Global]string{}
	posOf := map[*ssa.Global]token.Pos{}
	var out []regEntry
	for _, b := range initFn.Blocks {
		for _, ins := range b.Instrs {
			switch x := ins.(type) {
			case *ssa.Store:
				g, ok := x.Addr.(*ssa.Global)
				if !ok {
					continue
				}
				call, ok := x.Val.(*ssa.Call)
				if !ok {
					continue
				}
				f := call.Common().StaticCallee()
				if f == nil || f.String() != "regexp.MustCompile" || len(call.Common().Args) != 1 {
					continue
				}
				c, ok := call.Common().Args[0].(*ssa.Const)
				if !ok || c.Value == nil || c.Value.Kind() != constant.String {
					return nil, "a gate pattern is not a constant string: " + g.Name()
				}
				patOf[g] = constant.StringVal(c.Value)
				posOf[g] = call.Pos()
			case *ssa.MapUpdate:
				u, ok := x.Key.(*ssa.UnOp)
				if !ok {
					continue
				}
				g, ok := u.X.(*ssa.Global)
				if !ok {
					continue
				}
				if _, isRegex := patOf[g]; !isRegex {
					if !strings.HasSuffix(g.Type().String(), "*regexp.Regexp") {
						continue
					}
				}
				var h *ssa.Function
				switch v := x.Value.(type) {
				case *ssa.Function:
					h = v
				case *ssa.MakeClosure:
					h, _ = v.Fn.(*ssa.Function)
				case *ssa.ChangeType:
					h, _ = v.X.(*ssa.Function)
				}
				if h == nil {
					return nil, "a registry handler is not a function: key " + g.Name()
				}
				out = append(out, regEntry{patVar: g.Name(), handler: h, pattern: patOf[g], pos: posOf[g]})
			}
		}
	}
	// the pattern variable may be initialised after the map literal in source order: resolve now
	for i := range out {
		for g, p := range patOf {
			if g.Name() == out[i].patVar {
				out[i].pattern = p
				out[i].pos = posOf[g]
			}
		}
		if out[i].pattern == "" {
			return nil, "no constant pattern found for registry key " + out[i].patVar
		}
		out[i].gate = handlerGate(out[i].handler)
	}
	sort.Slice(out, func(i, j int) bool { return out[i].patVar < out[j].patVar })
	return out, ""
}

// handlerGate: the module gate type a handler returns (through its constructor), by the static type of the
// value converted to the Gate interface.
func handlerGate(h *ssa.Function) string {
	name := ""
	for _, b := range h.Blocks {
		ret, ok := b.Instrs[len(b.Instrs)-1].(*ssa.Return)
		if !ok || len(ret.Results) != 1 {
			continue
		}
		mi, ok := ret.Results[0].(*ssa.MakeInterface)
		if !ok {
			return "?"
		}
		t := mi.X.Type()
		if p, ok := t.(*types.Pointer); ok {
			t = p.Elem()
		}
		n, ok := t.(*types.Named)
		if !ok {
			return "?"
		}
		if name != "" && name != n.Obj().Name() {
			return "?"
		}
		name = n.Obj().Name()
	}
	return name
}

// ---------------------------------------------------------------- the rules

func rulesC18(cx *Ctx) []Obligation {
	var obs []Obligation
	P := cx.P
	reg, why := gateRegistry(P)
	if reg == nil {
		return []Obligation{undecided("C18/anchor/registry", "the gate regex registry is read from the package initialiser", why)}
	}
	if len(reg) < 14 {
		obs = append(obs, undecided("C18/registry/floor", "all registry entries are found", fmt.Sprintf("%d entries (14 confirmed by hand)", len(reg))))
	}
	autos := map[string]*nfa{}
	byGate := map[string]*regEntry{}
	for i := range reg {
		e := &reg[i]
		a, err := compileContains(e.pattern)
		if err != nil {
			obs = append(obs, undecided("C18/pattern/"+e.patVar, "the pattern is a regular expression the analysis models", err.Error()))
			continue
		}
		autos[e.patVar] = a
		if prev, dup := byGate[e.gate]; dup {
			obs = append(obs, bad("C18/registry/bijection/"+e.gate, "every gate type is produced by exactly one registry entry", "both "+prev.patVar+" and "+e.patVar+" produce "+e.gate, P.Pos(e.pos)))
		}
		byGate[e.gate] = e
	}
	// (vii) bijection with the implementations of the Gate interface
	impl := map[string]bool{}
	if sp := P.SPkgs["plonk/gates"]; sp != nil {
		if gi := sp.Type("Gate"); gi != nil {
			if it, ok := gi.Type().Underlying().(*types.Interface); ok {
				for _, mem := range sp.Members {
					tn, ok := mem.(*ssa.Type)
					if !ok {
						continue
					}
					if _, isI := tn.Type().Underlying().(*types.Interface); isI {
						continue
					}
					if types.Implements(types.NewPointer(tn.Type()), it) || types.Implements(tn.Type(), it) {
						impl[tn.Name()] = true
					}
				}
			}
		}
	}
	for g := range impl {
		key := "C18/registry/bijection/" + g
		desc := "every type implementing the Gate interface is produced by exactly one registry entry, and has a reference identifier template"
		if byGate[g] == nil {
			obs = append(obs, bad(key, desc, "no registry handler returns "+g))
		} else if _, ok := supportedIDs[g]; !ok {
			obs = append(obs, undecided(key, desc, "gate type "+g+" has no reference identifier template in the checker's table"))
		} else {
			obs = append(obs, good(key, desc, byGate[g].patVar+" → "+P.FnName(byGate[g].handler)))
		}
	}
	for g := range byGate {
		if !impl[g] {
			obs = append(obs, bad("C18/registry/bijection/"+g, "every registry handler returns a type implementing Gate", "handler of "+byGate[g].patVar+" returns "+g))
		}
	}
	// (i) own template matched, (ii) by no other pattern
	var gates []string
	for g := range supportedIDs {
		gates = append(gates, g)
	}
	sort.Strings(gates)
	for _, g := range gates {
		tmpl, err := compileFull(supportedIDs[g])
		if err != nil {
			obs = append(obs, undecided("C18/template/"+g, "reference template compiles", err.Error()))
			continue
		}
		own := byGate[g]
		key := "C18/match/own/" + g
		desc := "every identifier plonky2 emits for this gate is matched by the registry pattern whose handler builds this gate"
		if own == nil || autos[own.patVar] == nil {
			obs = append(obs, bad(key, desc, "no registry entry builds "+g))
		} else if w, found := productWitness(tmpl, autos[own.patVar], "notb"); found {
			obs = append(obs, bad(key, desc, fmt.Sprintf("identifier %q is not matched by %s", w, own.patVar), P.Pos(own.pos)))
		} else {
			obs = append(obs, good(key, desc, own.patVar+" "+P.Pos(own.pos)))
		}
		for i := range reg {
			e := &reg[i]
			if e == own || autos[e.patVar] == nil {
				continue
			}
			key := "C18/match/exclusive/" + g + "/" + e.patVar
			desc := "no other registry pattern matches an identifier of this gate (the registry is iterated as a Go map: a second match makes the resolved gate depend on iteration order)"
			if w, found := productWitness(tmpl, autos[e.patVar], "both"); found {
				obs = append(obs, bad(key, desc, fmt.Sprintf("identifier %q of %s is also matched by %s (handler builds %s)", w, g, e.patVar, e.gate), P.Pos(e.pos)))
			} else {
				obs = append(obs, good(key, desc, e.patVar))
			}
		}
	}
	// (iii) unimplemented gates are matched by no pattern
	var us []string
	for u := range unsupportedIDs {
		us = append(us, u)
	}
	sort.Strings(us)
	for _, u := range us {
		tmpl, err := compileFull(unsupportedIDs[u])
		if err != nil {
			obs = append(obs, undecided("C18/template/"+u, "reference template compiles", err.Error()))
			continue
		}
		key := "C18/unsupported/" + u
		desc := "identifiers of a gate the verifier does not implement are matched by no registry pattern (so resolution panics instead of binding another gate)"
		hit := ""
		for i := range reg {
			e := &reg[i]
			if autos[e.patVar] == nil {
				continue
			}
			if w, found := productWitness(tmpl, autos[e.patVar], "both"); found {
				hit = fmt.Sprintf("identifier %q is matched by %s and resolved to %s", w, e.patVar, e.gate)
			}
		}
		if hit != "" {
			obs = append(obs, bad(key, desc, hit))
		} else {
			obs = append(obs, good(key, desc, fmt.Sprintf("%d patterns disjoint from %s", len(autos), u)))
		}
	}
	for _, g := range []string{"ExponentiationGate", "RandomAccessGate"} {
		tmpl, _ := compileFull(wrongDegreeIDs[g])
		key := "C18/wrong-degree/" + g
		desc := "an identifier of this gate over another extension degree (D ≠ 2) is either matched by no pattern or refused by the handler (a must-executed refusal comparing the captured degree with gl.D)"
		matched := ""
		for i := range reg {
			e := &reg[i]
			if autos[e.patVar] == nil {
				continue
			}
			if w, found := productWitness(tmpl, autos[e.patVar], "both"); found {
				if e.gate != g {
					matched = "!" + fmt.Sprintf("identifier %q is matched by %s and resolved to %s", w, e.patVar, e.gate)
				} else if matched == "" {
					matched = e.patVar
				}
			}
		}
		switch {
		case strings.HasPrefix(matched, "!"):
			obs = append(obs, bad(key, desc, matched[1:]))
		case matched == "":
			obs = append(obs, good(key, desc, "no pattern matches D≠2 identifiers of "+g))
		default:
			if okk, why := handlerRefusesDegree(cx, byGate[g].handler); okk {
				obs = append(obs, good(key, desc, P.FnName(byGate[g].handler)+" refuses base != gl.D"))
			} else {
				obs = append(obs, bad(key, desc, "the pattern matches D≠2 identifiers and the handler does not refuse them: "+why, P.FnName(byGate[g].handler)))
			}
		}
	}
	obs = append(obs, ruleLookupPanics(cx)...)
	obs = append(obs, ruleParamFlow(cx, reg)...)
	obs = append(obs, ruleHiding(cx, "C18")...)
	return obs
}

// handlerRefusesDegree: the handler parses the captured "base" group and refuses unless it equals gl.D (= 2).
func handlerRefusesDegree(cx *Ctx, h *ssa.Function) (bool, string) {
	r := cx.EntryFn(h)
	for _, g := range r.guards() {
		if !g.rec.Must || g.op != token.EQL || g.x == nil || g.y == nil {
			continue
		}
		for _, pair := range [][2]*Val{{g.x, g.y}, {g.y, g.x}} {
			k := constOf(pair[1])
			if k == nil || k.Int64() != 2 {
				continue
			}
			if r.depsHave(pair[0], h.Params[0].Name()+"[k=base]") && (r.hasTag(pair[0], "strconv.Atoi") || r.hasTag(pair[0], "strconv.ParseUint") || r.hasTag(pair[0], "strconv.ParseInt")) {
				return true, ""
			}
		}
	}
	return false, "no must-executed refusal 'unless parsed base == 2'"
}

// (iv) the lookup's no-match exit is a panic and every normal return is a handler result
func ruleLookupPanics(cx *Ctx) []Obligation {
	P := cx.P
	key := "C18/lookup/no-match-panics"
	desc := "resolving an identifier that no pattern matches panics; every normal return of the lookup is the result of a registry handler"
	fn := P.Func("plonk/gates", "GateInstanceFromId")
	if fn == nil {
		return []Obligation{undecided(key, desc, "plonk/gates.GateInstanceFromId not found")}
	}
	fi := GetFnInfo(fn)
	for _, b := range fn.Blocks {
		ret, ok := b.Instrs[len(b.Instrs)-1].(*ssa.Return)
		if !ok || fi.Refuse[b.Index] {
			continue
		}
		if len(ret.Results) != 1 {
			return []Obligation{bad(key, desc, "unexpected return shape", P.Pos(ret.Pos()))}
		}
		v := ret.Results[0]
		okRet := false
		if c, ok := v.(*ssa.Call); ok && c.Common().StaticCallee() == nil && !c.Common().IsInvoke() {
			okRet = true // dynamic call of the handler taken from the map
		}
		if !okRet {
			return []Obligation{bad(key, desc, "a normal return yields something other than a handler's result (e.g. a default gate for unknown identifiers): "+v.String(), P.Pos(ret.Pos()))}
		}
	}
	// the patterns are matched against the identifier itself: the language analysis of the registry (own / exclusive
	// / unsupported templates) describes the lookup only if no rewriting of the identifier precedes the match. The
	// match may sit in a helper the lookup calls with its own parameter.
	nMatch := 0
	var scan func(f *ssa.Function, idParam ssa.Value, depth int) string
	scan = func(f *ssa.Function, idParam ssa.Value, depth int) string {
		for _, b := range f.Blocks {
			for _, ins := range b.Instrs {
				c, ok := ins.(*ssa.Call)
				if !ok {
					continue
				}
				g := c.Common().StaticCallee()
				if g == nil {
					continue
				}
				if g.Pkg != nil && g.Pkg.Pkg.Path() == "regexp" && len(c.Common().Args) >= 2 {
					switch g.Name() {
					case "FindStringSubmatch", "MatchString", "FindString", "FindStringSubmatchIndex", "FindStringIndex":
						nMatch++
						if c.Common().Args[1] != idParam {
							return "the string matched at " + P.Pos(c.Pos()) + " is " + c.Common().Args[1].String() + ", not the identifier parameter: unanchored patterns then also match identifiers of other gates"
						}
					}
					continue
				}
				if depth < 2 && P.InModule(g) && len(g.Blocks) > 0 {
					// a helper that receives the identifier: follow it with the parameter bound to the identifier
					for ai, a := range c.Common().Args {
						if a == idParam && ai < len(g.Params) {
							if why := scan(g, g.Params[ai], depth+1); why != "" {
								return why
							}
						}
					}
					// a helper that matches something else than what it was given is found by scanning it too
					if depth == 0 {
						passes := false
						for _, a := range c.Common().Args {
							if a == idParam {
								passes = true
							}
						}
						if !passes && fnPkgShort(g) == "plonk/gates" && callsRegexpMatch(g) {
							return "the lookup matches through " + P.FnName(g) + " without handing it the identifier parameter (" + P.Pos(c.Pos()) + ")"
						}
					}
				}
			}
		}
		return ""
	}
	if why := scan(fn, fn.Params[0], 0); why != "" {
		return []Obligation{bad("C18/lookup/matches-raw-id", "the registry patterns are matched against the gate identifier itself (no rewritten or truncated copy)", why)}
	}
	if nMatch == 0 {
		return []Obligation{undecided("C18/lookup/matches-raw-id", "the registry patterns are matched against the gate identifier itself", "no regexp match call found in the lookup or the helpers it hands the identifier to")}
	}
	// the block after the iteration must refuse
	for _, b := range fn.Blocks {
		if strings.Contains(b.Comment, "rangeiter.done") && !fi.Refuse[b.Index] {
			return []Obligation{bad(key, desc, "falling out of the registry iteration does not panic", P.Pos(fn.Pos()))}
		}
	}
	// a matched identifier goes to its handler: the lookup itself refuses only when nothing matched. A refusal between
	// the match and the handler call — keyed on a capture name, say — rejects identifiers of supported gates whose
	// pattern happens to use that name for something else; what a handler refuses is the handler's (tabled) business.
	var done []*ssa.BasicBlock
	for _, b := range fn.Blocks {
		if strings.Contains(b.Comment, "rangeiter.done") {
			done = append(done, b)
		}
	}
	rkey := "C18/lookup/match-goes-to-handler"
	rdesc := "the lookup refuses only when no pattern matched: between a successful match and the call of its handler there is no refusal of the lookup's own (every identifier a pattern matches reaches that pattern's handler)"
	for _, b := range fn.Blocks {
		if _, isPanic := b.Instrs[len(b.Instrs)-1].(*ssa.Panic); !isPanic {
			continue
		}
		after := false
		for _, d := range done {
			if d == b || d.Dominates(b) {
				after = true
			}
		}
		if !after {
			return []Obligation{good(key, desc, P.FnName(fn)+" "+P.Pos(fn.Pos())), good("C18/lookup/matches-raw-id", "the registry patterns are matched against the gate identifier itself (no rewritten or truncated copy)", P.FnName(fn)),
				bad(rkey, rdesc, "the lookup panics for a matched identifier before its handler is called", P.Pos(b.Instrs[len(b.Instrs)-1].Pos()))}
		}
	}
	return []Obligation{good(key, desc, P.FnName(fn)+" "+P.Pos(fn.Pos())), good("C18/lookup/matches-raw-id", "the registry patterns are matched against the gate identifier itself (no rewritten or truncated copy)", P.FnName(fn)), good(rkey, rdesc, P.FnName(fn))}
}

// (v) parameter flow: capture group → checked numeric parse → tabled field of the constructed gate
func ruleParamFlow(cx *Ctx, reg []regEntry) []Obligation {
	var obs []Obligation
	P := cx.P
	n := 0
	for _, e := range reg {
		flow, ok := paramFlow[e.gate]
		if !ok {
			continue
		}
		h := e.handler
		r := cx.EntryFn(h)
		params := h.Params[0].Name()
		ret := r.pointee(r.Res.Ret)
		var fields []string
		for f := range flow {
			fields = append(fields, f)
		}
		sort.Strings(fields)
		// the pattern must define the groups
		for _, grp := range fields {
			n++
			field := flow[grp]
			key := fmt.Sprintf("C18/params/%s/%s", e.gate, grp)
			desc := "the named capture group flows, through a numeric parse whose error leads to a panic, into exactly the constructor argument stored in the field of the same meaning"
			if !strings.Contains(e.pattern, "(?P<"+grp+">") {
				obs = append(obs, bad(key, desc, "the pattern "+e.patVar+" has no capture group "+grp, P.Pos(e.pos)))
				continue
			}
			fv := r.In.Narrow(ret, "."+field)
			if fv == nil {
				obs = append(obs, bad(key, desc, "the constructed gate has no field "+field, P.FnName(h)))
				continue
			}
			if !r.depsHave(fv, params+"[k="+grp+"]") {
				obs = append(obs, bad(key, desc, fmt.Sprintf("field %s.%s does not depend on capture group %s", e.gate, field, grp), P.FnName(h)))
				continue
			}
			other := ""
			for _, g2 := range fields {
				if g2 != grp && r.depsHave(fv, params+"[k="+g2+"]") {
					other = g2
				}
			}
			if other != "" {
				obs = append(obs, bad(key, desc, fmt.Sprintf("field %s.%s also depends on capture group %s (swapped or mixed parameters)", e.gate, field, other), P.FnName(h)))
				continue
			}
			obs = append(obs, good(key, desc, P.FnName(h)+" → "+e.gate+"."+field))
		}
		// every strconv parse in the handler has its error checked
		for _, b := range h.Blocks {
			for _, ins := range b.Instrs {
				c, ok := ins.(*ssa.Call)
				if !ok {
					continue
				}
				f := c.Common().StaticCallee()
				if f == nil || f.Pkg == nil || f.Pkg.Pkg.Path() != "strconv" {
					continue
				}
				key := fmt.Sprintf("C18/params/%s/parse-error-checked", e.gate)
				desc := "a failed numeric parse of an identifier parameter leads to a panic (not to a default value)"
				if errLeadsToRefusal(c) {
					obs = append(obs, good(key, desc, P.Pos(c.Pos())))
				} else {
					obs = append(obs, bad(key, desc, "the error result of "+f.Name()+" is ignored or does not lead to a refusal", P.Pos(c.Pos())))
				}
			}
		}
	}
	if n < 15 {
		obs = append(obs, undecided("C18/params/floor", "the parameter-flow table is evaluated for all parameterised gates", fmt.Sprintf("%d entries (15 confirmed by hand, plus the two degree captures)", n)))
	}
	return obs
}

// errLeadsToRefusal: the call returns (value, error); the error is compared with nil and the non-nil branch refuses.
func errLeadsToRefusal(c *ssa.Call) bool {
	fi := GetFnInfo(c.Parent())
	for _, ref := range *c.Referrers() {
		ex, ok := ref.(*ssa.Extract)
		if !ok || ex.Index != c.Type().(*types.Tuple).Len()-1 {
			continue
		}
		for _, r2 := range *ex.Referrers() {
			bo, ok := r2.(*ssa.BinOp)
			if !ok || (bo.Op != token.NEQ && bo.Op != token.EQL) {
				continue
			}
			for _, r3 := range *bo.Referrers() {
				iff, ok := r3.(*ssa.If)
				if !ok {
					continue
				}
				blk := iff.Block()
				idx := 0
				if bo.Op == token.EQL {
					idx = 1
				}
				if fi.Refuse[blk.Succs[idx].Index] {
					return true
				}
			}
		}
	}
	return false
}

func callsRegexpMatch(f *ssa.Function) bool {
	for _, b := range f.Blocks {
		for _, ins := range b.Instrs {
			if c, ok := ins.(*ssa.Call); ok {
				if g := c.Common().StaticCallee(); g != nil && g.Pkg != nil && g.Pkg.Pkg.Path() == "regexp" {
					switch g.Name() {
					case "FindStringSubmatch", "MatchString", "FindString", "FindStringSubmatchIndex", "FindStringIndex":
						return true
					}
				}
			}
		}
	}
	return false
}
