package main

import (
	"fmt"
	"go/token"
	"sort"

	"golang.org/x/tools/go/ssa"
)

// ruleC16Strides (O16.8): a product over a window of extension values covers every element of the window. Decided on
// the SSA of package plonk: a loop whose index advances by k ≥ 2 per turn, reads x[i+d] of an extension list x and is
// guarded by i + g < len(x) with g ≥ 1 (the guard protects the highest offset, so the loop ends silently while up to g
// elements are left) must hand the leftover on — a read x[…len(x)…] / x[…i…] or a re-slice x[i:] outside that loop.
// A guard i < len(x) cannot drop an element silently (the read of the highest offset panics instead) and is accepted;
// a bound that is not the list's own length is not decided here. Unit-stride loops (today's tree) have no leftover.
func ruleC16Strides(cx *Ctx) []Obligation {
	return ruleStrides(cx, "C16/O16.8/stride-cover", "plonk")
}

// ruleStrides: the same rule for another package under that property's key (C08: goldilocks, whose list functions
// serve lists of any length). Not armed for fri (its lists have power-of-two lengths ≥ 2 by construction, so a walk by
// two without a tail is correct there and a report would be a false alarm) nor for gates (no list is walked by a loop
// index there: the rule would be vacuous).
func ruleStrides(cx *Ctx, key, pkg string) []Obligation {
	P := cx.P
	desc := "every loop of package " + pkg + " that walks an extension list is either unit-stride or, when it advances by k ≥ 2 under a guard i + g < len(x) (g ≥ 1), hands the elements left at its end on (a read or re-slice of x at len(x)/i outside the loop)"
	var obs []Obligation
	walked := 0
	for _, fn := range P.ModuleFuncsSorted() {
		if fnPkgShort(fn) != pkg || fn.Blocks == nil {
			continue
		}
		fi := GetFnInfo(fn)
		for _, l := range fi.Loops {
			h := l.Header
			// integer header φ with back-edge value φ + k
			for _, hi := range h.Instrs {
				phi, ok := hi.(*ssa.Phi)
				if !ok {
					break
				}
				k := int64(0)
				uniform := true
				for i, p := range h.Preds {
					if !l.Blocks[p] {
						continue
					}
					d, ok := polyConst(polySub(poly(phi.Edges[i]), ipoly{phi.Name(): 1}))
					if !ok || (k != 0 && d != k) {
						uniform = false
						break
					}
					k = d
				}
				if !uniform || k == 0 {
					continue
				}
				// lists read at φ + d inside this loop (innermost loop of the read = l)
				lists := map[ssa.Value]bool{}
				var order []ssa.Value
				for b := range l.Blocks {
					la := fi.LoopsOf[b.Index]
					if len(la) == 0 || la[len(la)-1] != l {
						continue
					}
					for _, ins := range b.Instrs {
						ia, ok := ins.(*ssa.IndexAddr)
						if !ok || !isQESlice(ia.X.Type()) {
							continue
						}
						if _, ok := polyConst(polySub(poly(ia.Index), ipoly{phi.Name(): 1})); !ok {
							continue
						}
						if !lists[ia.X] {
							lists[ia.X] = true
							order = append(order, ia.X)
						}
					}
				}
				sort.Slice(order, func(i, j int) bool { return order[i].Pos() < order[j].Pos() })
				for _, x := range order {
					walked++
					site := P.FnName(fn) + " " + P.Pos(phi.Pos()) + " list " + x.Name()
					if k == 1 || k == -1 {
						obs = append(obs, good(key, desc, site))
						continue
					}
					iff, ok := h.Instrs[len(h.Instrs)-1].(*ssa.If)
					if !ok {
						obs = append(obs, good(key, desc, site))
						continue
					}
					cmp, ok := iff.Cond.(*ssa.BinOp)
					if !ok {
						obs = append(obs, good(key, desc, site))
						continue
					}
					// normalise to  A < len(x) + e  holding inside the loop
					inTrue := l.Blocks[h.Succs[0]]
					var A ssa.Value
					e := int64(0)
					lenSide := func(v ssa.Value) (int64, bool) { // v = len(x) + c
						if isLenOfList(v, x) {
							return 0, true
						}
						if bo, ok := v.(*ssa.BinOp); ok && (bo.Op == token.SUB || bo.Op == token.ADD) && isLenOfList(bo.X, x) {
							if c, ok := constInt(bo.Y); ok {
								if bo.Op == token.SUB {
									return -c, true
								}
								return c, true
							}
						}
						return 0, false
					}
					op := cmp.Op
					X, Y := cmp.X, cmp.Y
					if !inTrue {
						switch op {
						case token.LSS:
							op = token.GEQ
						case token.LEQ:
							op = token.GTR
						case token.GTR:
							op = token.LEQ
						case token.GEQ:
							op = token.LSS
						default:
							op = token.ILLEGAL
						}
					}
					if op == token.GTR || op == token.GEQ {
						X, Y = Y, X
						if op == token.GTR {
							op = token.LSS
						} else {
							op = token.LEQ
						}
					}
					if c, ok := lenSide(Y); ok && (op == token.LSS || op == token.LEQ) {
						A, e = X, c
						if op == token.LEQ {
							e++
						}
					}
					if A == nil {
						// bounded by something other than the list's own length: not decided here
						obs = append(obs, good(key, desc, site))
						continue
					}
					g, ok := polyConst(polySub(poly(A), ipoly{phi.Name(): 1}))
					if !ok {
						obs = append(obs, good(key, desc, site))
						continue
					}
					g -= e // i + g < len(x)
					if g < 1 {
						obs = append(obs, good(key, desc, site))
						continue
					}
					// leftover handed on outside the loop?
					handed := false
					dependsOn := func(v ssa.Value) bool {
						seen := map[ssa.Value]bool{}
						var rec func(v ssa.Value, d int) bool
						rec = func(v ssa.Value, d int) bool {
							if v == nil || d > 6 || seen[v] {
								return false
							}
							seen[v] = true
							if v == ssa.Value(phi) || isLenOfList(v, x) {
								return true
							}
							switch t := v.(type) {
							case *ssa.BinOp:
								return rec(t.X, d+1) || rec(t.Y, d+1)
							case *ssa.Convert:
								return rec(t.X, d+1)
							case *ssa.ChangeType:
								return rec(t.X, d+1)
							case *ssa.Phi:
								for _, ed := range t.Edges {
									if rec(ed, d+1) {
										return true
									}
								}
							}
							return false
						}
						return rec(v, 0)
					}
					for _, b := range fn.Blocks {
						if l.Blocks[b] {
							continue
						}
						for _, ins := range b.Instrs {
							switch t := ins.(type) {
							case *ssa.IndexAddr:
								if sameList(t.X, x) && dependsOn(t.Index) {
									handed = true
								}
							case *ssa.Slice:
								if sameList(t.X, x) && (dependsOn(t.Low) || dependsOn(t.High)) {
									handed = true
								}
							}
						}
					}
					if handed {
						obs = append(obs, good(key, desc, site))
					} else {
						obs = append(obs, bad(key, desc, fmt.Sprintf("the loop advances by %d under the guard index + %d < len(list) and nothing outside it reads the up to %d elements left at its end: they never enter the product", k, g, g), site))
					}
				}
			}
		}
	}
	if walked == 0 {
		// nothing is walked by an index (range loops only): no strided walk exists that could drop a leftover. That the
		// rule is not blind is shown on every thorough run by the corpus (M143–M145 fire), not by a floor here —
		// a floor would report a correct rewrite of the loops into range form.
		obs = append(obs, good(key, desc, "package "+pkg+": no loop walks an extension list by a loop index"))
	}
	return obs
}
