package main

// HB — honest hints fit the range checks of their gadgets (C02, C07).
//
// The gadgets take quotient / remainder / inverse / limbs from solver hints and range-check them. The hint bodies
// are ordinary Go run by the prover: if, for some admissible input, a hint hands back a value that its gadget's range
// check refuses (a remainder ≥ p from a "no need to divide" shortcut, a limb ≥ 2^32) or no value at all (a nil
// *big.Int from ModInverse of a non-invertible input), the honest prover has no witness although one exists — on
// exactly those rare inputs. Tests that run honest proofs do not reach them.
//
// Two static analyses, both over the SSA form:
//  (1) for every NewHint site the outputs are followed forward (field- and call-site-sensitive) to the range check
//      the gadget applies: Chip.RangeCheck (canonical: < p) or the n-bit primitive with a constant width (< 2^n);
//      outputs that reach a width given by a parameter are left to the magnitude analysis (W2);
//  (2) in the hint body an upper-bound (interval) analysis with path conditions — facts from dominating branches on
//      x.Cmp(y), x.IsUint64(), x.Sign(), and from "every operand is checked" loops — bounds the value stored into
//      results[k] on every path that returns nil; it must stay below the bound from (1). Values that may be nil
//      (ModInverse, ModSqrt, SetString results) must not be stored into results without a nil test.

import (
	"fmt"
	"go/constant"
	"go/token"
	"go/types"
	"math/big"
	"sort"
	"strings"

	"golang.org/x/tools/go/ssa"
)

type hintUse struct {
	hint   *ssa.Function
	site   token.Pos
	caller *ssa.Function
	bounds map[int]*big.Int // output index → exclusive bound demanded by the gadget
	varW   map[int]bool     // output index → reaches a width that is not a constant
	what   map[int]string
}

func isHintSig(f *ssa.Function) bool {
	if f == nil || f.Signature.Params().Len() != 3 || f.Signature.Results().Len() != 1 {
		return false
	}
	ps := f.Signature.Params()
	return ps.At(0).Type().String() == "*math/big.Int" && ps.At(1).Type().String() == "[]*math/big.Int" &&
		ps.At(2).Type().String() == "[]*math/big.Int" && errorType(f.Signature.Results().At(0).Type())
}

type hflow struct {
	P     *Program
	use   *hintUse
	k     int
	seen  map[string]bool
	steps int
}

func glChipMethod(f *ssa.Function, name string) bool {
	if f == nil || f.Name() != name || f.Signature.Recv() == nil || fnPkgShort(f) != "goldilocks" {
		return false
	}
	return strings.HasSuffix(f.Signature.Recv().Type().String(), "goldilocks.Chip")
}

func (h *hflow) note(b *big.Int, what string) {
	if cur := h.use.bounds[h.k]; cur == nil || b.Cmp(cur) < 0 {
		h.use.bounds[h.k] = b
		h.use.what[h.k] = what
	}
}

// walk: v carries the hint output at field path `path` (nil: v is the output itself; [f, g]: v is a struct — value
// or pointer — whose field f holds a struct whose field g holds it)
func pathKey(p []int) string { return fmt.Sprint(p) }

func (h *hflow) walk(v ssa.Value, path []int, stack []*ssa.Call) {
	key := fmt.Sprintf("%p/%s/%d", v, pathKey(path), len(stack))
	if h.seen[key] || h.steps > 4000 || v.Referrers() == nil || len(path) > 4 {
		return
	}
	h.seen[key] = true
	h.steps++
	for _, r := range *v.Referrers() {
		switch u := r.(type) {
		case *ssa.MakeInterface:
			h.walk(u, path, stack)
		case *ssa.ChangeType:
			h.walk(u, path, stack)
		case *ssa.ChangeInterface:
			h.walk(u, path, stack)
		case *ssa.Phi:
			h.walk(u, path, stack)
		case *ssa.Field:
			if len(path) > 0 && path[0] == u.Field {
				h.walk(u, path[1:], stack)
			}
		case *ssa.FieldAddr:
			if len(path) > 0 && path[0] == u.Field {
				h.walk(u, path[1:], stack) // pointer to the inner value
			}
		case *ssa.UnOp:
			if u.Op == token.MUL {
				h.walk(u, path, stack) // load of the variable / whole struct
			}
		case *ssa.Store:
			if u.Val != v {
				continue
			}
			// the address now points at something holding the output at `path`: climb the FieldAddr chain
			addr := u.Addr
			p2 := append([]int{}, path...)
			for {
				fa, ok := addr.(*ssa.FieldAddr)
				if !ok {
					break
				}
				p2 = append([]int{fa.Field}, p2...)
				addr = fa.X
			}
			if a, ok := addr.(*ssa.Alloc); ok {
				h.walk(a, p2, stack)
			}
		case *ssa.Return:
			idx := -1
			for i, res := range u.Results {
				if res == v {
					idx = i
				}
			}
			resultOf := func(c *ssa.Call) ssa.Value {
				if len(u.Results) == 1 {
					return c
				}
				if c.Referrers() != nil {
					for _, r2 := range *c.Referrers() {
						if ex, ok := r2.(*ssa.Extract); ok && ex.Index == idx {
							return ex
						}
					}
				}
				return nil
			}
			if len(stack) > 0 {
				c := stack[len(stack)-1]
				if res := resultOf(c); res != nil {
					h.walk(res, path, stack[:len(stack)-1])
				}
				continue
			}
			fn := u.Parent()
			for _, caller := range h.P.ModuleFuncsSorted() {
				for _, b := range caller.Blocks {
					for _, ins := range b.Instrs {
						if c, ok := ins.(*ssa.Call); ok && c.Common().StaticCallee() == fn {
							if res := resultOf(c); res != nil {
								h.walk(res, path, nil)
							}
						}
					}
				}
			}
		case *ssa.Call:
			g := u.Common().StaticCallee()
			if g == nil || g.Blocks == nil || !h.P.InModule(g) {
				continue
			}
			args := u.Common().Args
			switch {
			case glChipMethod(g, "RangeCheck"):
				if len(args) == 2 && args[1] == v && len(path) == 1 && path[0] == 0 {
					h.note(bigP, "Chip.RangeCheck at "+h.P.Pos(u.Pos()))
				}
				continue
			case glChipMethod(g, "rangeCheckerCheck"), glChipMethod(g, "RangeCheckWithMaxBits"):
				if len(args) == 3 && args[1] == v {
					wv := stripCopies(args[2])
					if w, ok := constInt(wv); ok && w > 0 && w < 4096 && (len(path) == 0 || (len(path) == 1 && path[0] == 0)) {
						h.note(new(big.Int).Lsh(big.NewInt(1), uint(w)), fmt.Sprintf("%d-bit range check at %s", w, h.P.Pos(u.Pos())))
					} else {
						h.use.varW[h.k] = true
					}
				}
				continue
			}
			if len(stack) >= 3 {
				continue
			}
			for i, a := range args {
				if a == v && i < len(g.Params) {
					h.walk(g.Params[i], path, append(append([]*ssa.Call{}, stack...), u))
				}
			}
		}
	}
}

// hintWrapper: fn forwards one of its parameters as the hint function to NewHint and returns the slice of outputs
// (`func (p *Chip) mustHint(f solver.Hint, n int, in ...frontend.Variable) []frontend.Variable`); returns the index
// of that parameter
func hintWrapper(fn *ssa.Function) (int, bool) {
	if fn == nil || fn.Blocks == nil {
		return 0, false
	}
	for _, b := range fn.Blocks {
		for _, ins := range b.Instrs {
			c, ok := ins.(*ssa.Call)
			if !ok || !c.Common().IsInvoke() || c.Common().Method.Name() != "NewHint" || len(c.Common().Args) < 2 {
				continue
			}
			p, ok := stripCopies(c.Common().Args[0]).(*ssa.Parameter)
			if !ok {
				continue
			}
			// every return hands back output slice of this call
			okRet, n := true, 0
			for _, rb := range fn.Blocks {
				ret, isRet := rb.Instrs[len(rb.Instrs)-1].(*ssa.Return)
				if !isRet {
					continue
				}
				n++
				if len(ret.Results) != 1 {
					okRet = false
					continue
				}
				ex, isEx := ret.Results[0].(*ssa.Extract)
				if !isEx || ex.Tuple != ssa.Value(c) || ex.Index != 0 {
					okRet = false
				}
			}
			if okRet && n > 0 {
				return paramIndex(fn, p), true
			}
		}
	}
	return 0, false
}

// hintUses: every NewHint site of the module (direct, or through a forwarding wrapper) with the bounds its gadget
// demands of the outputs
func hintUses(P *Program) []*hintUse {
	var out []*hintUse
	follow := func(use *hintUse, outputs ssa.Value) {
		if outputs.Referrers() == nil {
			return
		}
		for _, r2 := range *outputs.Referrers() {
			ia, ok := r2.(*ssa.IndexAddr)
			if !ok || ia.Referrers() == nil {
				continue
			}
			k64, ok := constInt(ia.Index)
			if !ok {
				continue
			}
			for _, r3 := range *ia.Referrers() {
				if ld, ok := r3.(*ssa.UnOp); ok && ld.Op == token.MUL {
					h := &hflow{P: P, use: use, k: int(k64), seen: map[string]bool{}}
					h.walk(ld, nil, nil)
				}
			}
		}
	}
	for _, fn := range P.ModuleFuncsSorted() {
		for _, b := range fn.Blocks {
			for _, ins := range b.Instrs {
				c, ok := ins.(*ssa.Call)
				if !ok {
					continue
				}
				if c.Common().IsInvoke() && c.Common().Method.Name() == "NewHint" && len(c.Common().Args) >= 2 {
					hf, ok := stripCopies(c.Common().Args[0]).(*ssa.Function)
					if !ok || !isHintSig(hf) {
						continue
					}
					use := &hintUse{hint: hf, site: c.Pos(), caller: fn, bounds: map[int]*big.Int{}, varW: map[int]bool{}, what: map[int]string{}}
					out = append(out, use)
					if c.Referrers() == nil {
						continue
					}
					for _, r := range *c.Referrers() {
						if ex, ok := r.(*ssa.Extract); ok && ex.Index == 0 {
							follow(use, ex)
						}
					}
					continue
				}
				if w := c.Common().StaticCallee(); w != nil && P.InModule(w) {
					if k, isW := hintWrapper(w); isW && k < len(c.Common().Args) {
						hf, ok := stripCopies(c.Common().Args[k]).(*ssa.Function)
						if !ok || !isHintSig(hf) {
							continue
						}
						use := &hintUse{hint: hf, site: c.Pos(), caller: fn, bounds: map[int]*big.Int{}, varW: map[int]bool{}, what: map[int]string{}}
						out = append(out, use)
						follow(use, c)
					}
				}
			}
		}
	}
	return out
}

// ---------------------------------------------------------------- interval analysis of a hint body

type hbody struct {
	P      *Program
	fn     *ssa.Function
	fi     *FnInfo
	inputs ssa.Value
	// allOperands: an exclusive bound established for every inputs[i] by a checking loop, valid in blocks dominated
	// by the loop's exit
	loopFacts []loopFact
	// a helper of the hint evaluated in the context of one call: its parameters stand for the call's arguments
	parent *hbody
	call   *ssa.Call
}

func (hb *hbody) child(g *ssa.Function, call *ssa.Call) *hbody {
	d := 0
	for q := hb; q != nil; q = q.parent {
		d++
	}
	if d > 3 || g == nil || g.Blocks == nil || !hb.P.InModule(g) {
		return nil
	}
	return &hbody{P: hb.P, fn: g, fi: GetFnInfo(g), parent: hb, call: call}
}

// canonAt: a parameter of a helper stands for the argument of the call being evaluated (in the caller's context, at
// the call's block)
func (hb *hbody) canonAt(v ssa.Value, at *ssa.BasicBlock) (ssa.Value, *hbody, *ssa.BasicBlock) {
	for {
		v = stripCopies(v)
		p, ok := v.(*ssa.Parameter)
		if !ok || hb.parent == nil {
			return v, hb, at
		}
		idx := paramIndex(hb.fn, p)
		if idx < 0 || idx >= len(hb.call.Common().Args) {
			return v, hb, at
		}
		v, at, hb = hb.call.Common().Args[idx], hb.call.Block(), hb.parent
	}
}

// singleReturn: the only return instruction of g
func singleReturn(g *ssa.Function) *ssa.Return {
	var ret *ssa.Return
	for _, b := range g.Blocks {
		if r, ok := b.Instrs[len(b.Instrs)-1].(*ssa.Return); ok {
			if ret != nil {
				return nil
			}
			ret = r
		}
	}
	return ret
}

type loopFact struct {
	exit  *ssa.BasicBlock
	bound *big.Int // every operand ≤ bound
}

func bigMethod(c *ssa.Call) (string, bool) {
	g := c.Common().StaticCallee()
	if g == nil || g.Signature.Recv() == nil || g.Signature.Recv().Type().String() != "*math/big.Int" {
		return "", false
	}
	return g.Name(), true
}

// exactOf: the exact non-negative constant a *big.Int / integer value denotes, if known
func (hb *hbody) exactOf(v ssa.Value, depth int) *big.Int {
	if depth > 8 {
		return nil
	}
	v = stripCopies(v)
	switch x := v.(type) {
	case *ssa.Parameter:
		if cv, c, _ := hb.canonAt(x, nil); c != hb {
			return c.exactOf(cv, depth+1)
		}
	case *ssa.Const:
		if x.Value == nil {
			return nil
		}
		switch x.Value.Kind() {
		case constant.Int:
			if b, ok := new(big.Int).SetString(x.Value.ExactString(), 10); ok {
				return b
			}
		case constant.Float:
			if f, ok := constant.Float64Val(x.Value); ok && f >= 0 && f == float64(int64(f)) {
				return big.NewInt(int64(f))
			}
		}
	case *ssa.UnOp:
		if x.Op == token.MUL {
			if g, ok := x.X.(*ssa.Global); ok {
				if g.Name() == "MODULUS" && strings.HasSuffix(g.Pkg.Pkg.Path(), "/goldilocks") {
					return bigP
				}
				if init, ok := hb.P.GlobalInit(g); ok {
					return hb.exactOf(init, depth+1)
				}
			}
		}
	case *ssa.BinOp:
		a, b := hb.exactOf(x.X, depth+1), hb.exactOf(x.Y, depth+1)
		if a == nil || b == nil {
			return nil
		}
		switch x.Op {
		case token.ADD:
			return new(big.Int).Add(a, b)
		case token.SUB:
			if a.Cmp(b) >= 0 {
				return new(big.Int).Sub(a, b)
			}
		case token.MUL:
			return new(big.Int).Mul(a, b)
		case token.SHL:
			if b.IsInt64() && b.Int64() < 4096 {
				return new(big.Int).Lsh(a, uint(b.Int64()))
			}
		}
	case *ssa.Call:
		if g := x.Common().StaticCallee(); g != nil {
			args := x.Common().Args
			full := ""
			if g.Pkg != nil {
				full = g.Pkg.Pkg.Path() + "." + g.Name()
			}
			switch {
			case full == "math.Pow" && len(args) == 2:
				a, b := hb.exactOf(args[0], depth+1), hb.exactOf(args[1], depth+1)
				if a != nil && b != nil && b.IsInt64() && b.Int64() < 4096 {
					return new(big.Int).Exp(a, b, nil)
				}
			case full == "math/big.NewInt" && len(args) == 1:
				return hb.exactOf(args[0], depth+1)
			}
			if name, ok := bigMethod(x); ok {
				switch name {
				case "SetUint64", "SetInt64":
					if len(args) == 2 {
						return hb.exactOf(args[1], depth+1)
					}
				case "Set":
					if len(args) == 2 {
						return hb.exactOf(args[1], depth+1)
					}
				case "Lsh":
					if len(args) == 3 {
						a, n := hb.exactOf(args[1], depth+1), hb.exactOf(args[2], depth+1)
						if a != nil && n != nil && n.IsInt64() && n.Int64() < 4096 {
							return new(big.Int).Lsh(a, uint(n.Int64()))
						}
					}
				case "Mul":
					if len(args) == 3 {
						a, b := hb.exactOf(args[1], depth+1), hb.exactOf(args[2], depth+1)
						if a != nil && b != nil {
							return new(big.Int).Mul(a, b)
						}
					}
				case "Sub":
					if len(args) == 3 {
						a, b := hb.exactOf(args[1], depth+1), hb.exactOf(args[2], depth+1)
						if a != nil && b != nil && a.Cmp(b) >= 0 {
							return new(big.Int).Sub(a, b)
						}
					}
				case "Exp":
					if len(args) == 4 && isNilConst(args[3]) {
						a, b := hb.exactOf(args[1], depth+1), hb.exactOf(args[2], depth+1)
						if a != nil && b != nil && b.IsInt64() && b.Int64() < 4096 {
							return new(big.Int).Exp(a, b, nil)
						}
					}
				}
			}
		}
	}
	return nil
}

// inputKey: v is (a load of) an element of the inputs slice: "in[k]" or "in[*]"
func (hb *hbody) inputKey(v ssa.Value) string {
	if hb.parent != nil || hb.inputs == nil {
		return ""
	}
	u, ok := stripCopies(v).(*ssa.UnOp)
	if !ok || u.Op != token.MUL {
		return ""
	}
	ia, ok := u.X.(*ssa.IndexAddr)
	if !ok || ia.X != hb.inputs {
		return ""
	}
	if k, ok := constInt(ia.Index); ok {
		return fmt.Sprintf("in[%d]", k)
	}
	return "in[*]"
}

func sameBig(a, b ssa.Value, hb *hbody) bool {
	return sameBig2(a, hb, b, hb)
}

// sameBig2: a (a value of context ha) and b (of context hb) denote the same integer
func sameBig2(a ssa.Value, ha *hbody, b ssa.Value, hb *hbody) bool {
	a, ha, _ = ha.canonAt(a, nil)
	b, hb, _ = hb.canonAt(b, nil)
	if ha != hb {
		return false
	}
	if stripCopies(a) == stripCopies(b) {
		return true
	}
	ka, kb := ha.inputKey(a), hb.inputKey(b)
	return ka != "" && ka == kb && ka != "in[*]"
}

// edgeFact: what the edge d→succ tells about value v: an inclusive upper bound, or nil
func (hb *hbody) edgeFact(d *ssa.BasicBlock, takenTrue bool, v ssa.Value) *big.Int {
	iff, ok := d.Instrs[len(d.Instrs)-1].(*ssa.If)
	if !ok {
		return nil
	}
	return hb.condFact(iff.Cond, takenTrue, v, hb)
}

// condFact: what the boolean cond (a value of this context) being true / false tells about v (a value of context vhb)
func (hb *hbody) condFact(cond ssa.Value, takenTrue bool, v ssa.Value, vhb *hbody) *big.Int {
	neg := false
	for {
		if u, ok := cond.(*ssa.UnOp); ok && u.Op == token.NOT {
			cond = u.X
			neg = !neg
			continue
		}
		break
	}
	holds := takenTrue != neg
	switch c := cond.(type) {
	case *ssa.Call:
		if _, isBig := bigMethod(c); !isBig {
			// a predicate helper of the module: `func isCanonical(x *big.Int) bool { return x.Cmp(MODULUS) < 0 }`
			if ch := hb.child(c.Common().StaticCallee(), c); ch != nil {
				if ret := singleReturn(ch.fn); ret != nil && len(ret.Results) == 1 && len(ch.fn.Blocks) == 1 {
					return ch.condFact(ret.Results[0], holds, v, vhb)
				}
			}
			return nil
		}
		if name, ok := bigMethod(c); ok && name == "IsUint64" && holds && sameBig2(c.Common().Args[0], hb, v, vhb) {
			return new(big.Int).Sub(pow2(64), big.NewInt(1))
		}
		if name, ok := bigMethod(c); ok && name == "IsInt64" && holds && sameBig2(c.Common().Args[0], hb, v, vhb) {
			return new(big.Int).Sub(pow2(63), big.NewInt(1))
		}
	case *ssa.BinOp:
		call, ok := c.X.(*ssa.Call)
		k, isK := constInt(c.Y)
		op := c.Op
		if !ok || !isK {
			// mirrored: const OP call
			call, ok = c.Y.(*ssa.Call)
			k, isK = constInt(c.X)
			switch op {
			case token.LSS:
				op = token.GTR
			case token.LEQ:
				op = token.GEQ
			case token.GTR:
				op = token.LSS
			case token.GEQ:
				op = token.LEQ
			}
			if !ok || !isK {
				return nil
			}
		}
		name, isBig := bigMethod(call)
		if !isBig {
			return nil
		}
		sat := func(o int64) bool {
			var r bool
			switch op {
			case token.EQL:
				r = o == k
			case token.NEQ:
				r = o != k
			case token.LSS:
				r = o < k
			case token.LEQ:
				r = o <= k
			case token.GTR:
				r = o > k
			case token.GEQ:
				r = o >= k
			default:
				return true
			}
			return r == holds
		}
		args := call.Common().Args
		switch name {
		case "Cmp", "CmpAbs":
			if len(args) != 2 {
				return nil
			}
			if sameBig2(args[0], hb, v, vhb) {
				y := hb.exactOf(args[1], 0)
				if y == nil {
					return nil
				}
				switch {
				case !sat(0) && !sat(1): // only x < y remains
					return new(big.Int).Sub(y, big.NewInt(1))
				case !sat(1):
					return y
				}
			}
			if sameBig2(args[1], hb, v, vhb) { // y.Cmp(x): x ≤ y when outcomes −1 excluded
				y := hb.exactOf(args[0], 0)
				if y == nil {
					return nil
				}
				switch {
				case !sat(0) && !sat(-1):
					return new(big.Int).Sub(y, big.NewInt(1))
				case !sat(-1):
					return y
				}
			}
		case "Sign":
			if sameBig2(args[0], hb, v, vhb) && !sat(1) {
				return big.NewInt(0)
			}
		case "BitLen":
			if sameBig2(args[0], hb, v, vhb) {
				// find the largest bit length that satisfies the condition, if bounded
				best := int64(-1)
				for o := int64(0); o <= 512; o++ {
					if sat(o) {
						best = o
					}
				}
				if best >= 0 && best < 512 {
					return new(big.Int).Sub(pow2(uint(best)), big.NewInt(1))
				}
			}
		}
	}
	return nil
}

// pathFacts: the tightest inclusive upper bound for v implied by the branches dominating block b. Two exclusions of
// one comparison (x.Cmp(y) == 0 || x.Cmp(y) == 1 → refuse) are combined.
func (hb *hbody) pathFacts(v ssa.Value, b *ssa.BasicBlock) *big.Int {
	var best *big.Int
	upd := func(x *big.Int) {
		if x != nil && (best == nil || x.Cmp(best) < 0) {
			best = x
		}
	}
	type excl struct {
		y                *big.Int
		no0, no1, noLess bool
	}
	var ex []*excl
	cur := b
	for d := b.Idom(); d != nil; cur, d = d, d.Idom() {
		if len(d.Succs) != 2 {
			continue
		}
		inT, okEdge := edgeTaken(hb.fi, d, cur)
		if !okEdge {
			continue
		}
		upd(hb.edgeFact(d, inT, v))
		// single-outcome exclusions of Cmp
		if iff, ok := d.Instrs[len(d.Instrs)-1].(*ssa.If); ok {
			if c, ok := iff.Cond.(*ssa.BinOp); ok && (c.Op == token.EQL || c.Op == token.NEQ) {
				if call, ok := c.X.(*ssa.Call); ok {
					if name, isBig := bigMethod(call); isBig && name == "Cmp" && sameBig(call.Common().Args[0], v, hb) {
						if k, ok := constInt(c.Y); ok {
							excluded := (c.Op == token.EQL && !inT) || (c.Op == token.NEQ && inT)
							if y := hb.exactOf(call.Common().Args[1], 0); y != nil && excluded {
								var e *excl
								for _, q := range ex {
									if q.y.Cmp(y) == 0 {
										e = q
									}
								}
								if e == nil {
									e = &excl{y: y}
									ex = append(ex, e)
								}
								switch k {
								case 0:
									e.no0 = true
								case 1:
									e.no1 = true
								case -1:
									e.noLess = true
								}
							}
						}
					}
				}
			}
		}
	}
	for _, e := range ex {
		switch {
		case e.no0 && e.no1:
			upd(new(big.Int).Sub(e.y, big.NewInt(1)))
		case e.no1:
			upd(e.y)
		}
	}
	if hb.inputKey(v) != "" {
		for _, lf := range hb.loopFacts {
			if lf.exit == b || lf.exit.Dominates(b) {
				upd(lf.bound)
			}
		}
	}
	return best
}

// findLoopFacts: `for _, operand := range inputs { if operand.Cmp(Y) >= 0 { refuse } }` bounds every operand
func (hb *hbody) findLoopFacts() {
	for _, l := range hb.fi.Loops {
		if !l.Counted || l.StartConst == nil || *l.StartConst != 0 || l.Step != 1 || l.Op != token.LSS || !isLenOfList(l.Bound, hb.inputs) {
			continue
		}
		var exit *ssa.BasicBlock
		for _, s := range l.Header.Succs {
			if !l.Blocks[s] {
				exit = s
			}
		}
		if exit == nil || !l.SingleExit {
			continue
		}
		for _, b := range hb.fn.Blocks {
			if !l.Blocks[b] || len(b.Succs) != 2 {
				continue
			}
			// the branch must execute in every iteration
			if !mustInLoop(hb.fi, l, b) {
				continue
			}
			var cont int
			switch {
			case hb.fi.Refuse[b.Succs[0].Index] && !hb.fi.Refuse[b.Succs[1].Index]:
				cont = 1
			case hb.fi.Refuse[b.Succs[1].Index] && !hb.fi.Refuse[b.Succs[0].Index]:
				cont = 0
			default:
				continue
			}
			// the element of this iteration
			for bb := range l.Blocks {
				for _, ins := range bb.Instrs {
					ld, ok := ins.(*ssa.UnOp)
					if !ok || ld.Op != token.MUL {
						continue
					}
					ia, ok := ld.X.(*ssa.IndexAddr)
					if !ok || ia.X != hb.inputs || ia.Index != l.IndexVal {
						continue
					}
					if f := hb.edgeFact(b, cont == 0, ld); f != nil {
						hb.loopFacts = append(hb.loopFacts, loopFact{exit: exit, bound: f})
					}
				}
			}
		}
	}
}

// freshReceiver: the receiver of a big.Int method call is a value made for this call (new(big.Int), big.NewInt(c))
// and used nowhere else as a receiver of a mutating call — then the call's result is determined by its operands
func freshReceiver(c *ssa.Call) bool {
	args := c.Common().Args
	if len(args) == 0 {
		return false
	}
	recv := stripCopies(args[0])
	switch r := recv.(type) {
	case *ssa.Alloc:
		if !r.Heap || r.Referrers() == nil {
			return false
		}
		n := 0
		for _, u := range *r.Referrers() {
			if _, ok := u.(*ssa.DebugRef); ok {
				continue
			}
			n++
		}
		return n == 1
	case *ssa.Call:
		if g := r.Common().StaticCallee(); g != nil && g.Pkg != nil && g.Pkg.Pkg.Path() == "math/big" && g.Name() == "NewInt" {
			return true
		}
	}
	return false
}

// mutatedElsewhere: v is the receiver of some mutating big.Int method besides the call that produced it
func mutatedLater(v ssa.Value) bool {
	if v.Referrers() == nil {
		return false
	}
	for _, r := range *v.Referrers() {
		c, ok := r.(*ssa.Call)
		if !ok {
			continue
		}
		name, isBig := bigMethod(c)
		if !isBig || len(c.Common().Args) == 0 || c.Common().Args[0] != v {
			continue
		}
		switch name {
		case "Cmp", "CmpAbs", "Sign", "IsUint64", "IsInt64", "Uint64", "Int64", "BitLen", "String", "Text", "Bytes", "Bit", "Bits", "TrailingZeroBits", "ProbablyPrime", "FillBytes", "Format", "Append":
		default:
			return true
		}
	}
	return false
}

// ub: an inclusive upper bound of the non-negative integer v at block `at`; nil if none could be established.
// nilable reports that v may be a nil pointer.
func (hb *hbody) ub(v ssa.Value, at *ssa.BasicBlock, depth int) (bound *big.Int, nilable bool) {
	if depth > 10 {
		return nil, false
	}
	v = stripCopies(v)
	if e := hb.exactOf(v, 0); e != nil {
		return e, false
	}
	if _, isAlloc := v.(*ssa.Alloc); !isAlloc && mutatedLater(v) {
		return nil, false
	}
	min := func(a, b *big.Int) *big.Int {
		switch {
		case a == nil:
			return b
		case b == nil:
			return a
		case a.Cmp(b) < 0:
			return a
		}
		return b
	}
	fact := hb.pathFacts(v, at)
	if _, isParam := v.(*ssa.Parameter); isParam && hb.parent != nil {
		if cv, c, cat := hb.canonAt(v, at); c != hb {
			b, n := c.ub(cv, cat, depth+1)
			return min(b, fact), n
		}
	}
	switch x := v.(type) {
	case *ssa.Phi:
		var worst *big.Int
		anyNil := false
		for i, e := range x.Edges {
			b, n := hb.ub(e, x.Block().Preds[i], depth+1)
			anyNil = anyNil || n
			if b == nil {
				return fact, anyNil
			}
			if worst == nil || b.Cmp(worst) > 0 {
				worst = b
			}
		}
		return min(worst, fact), anyNil
	case *ssa.Call:
		name, isBig := bigMethod(x)
		if !isBig {
			if ch := hb.child(x.Common().StaticCallee(), x); ch != nil {
				if ret := singleReturn(ch.fn); ret != nil && len(ret.Results) == 1 {
					b, n := ch.ub(ret.Results[0], ret.Block(), depth+1)
					return min(b, fact), n
				}
				return fact, false
			}
			if g := x.Common().StaticCallee(); g != nil && g.Signature.Recv() != nil && g.Name() == "BigInt" &&
				strings.HasSuffix(g.Signature.Recv().Type().String(), "goldilocks.Element") {
				// gnark-crypto: Element.BigInt writes the regular (canonical) form, < p
				return min(bigPm1, fact), false
			}
			return fact, false
		}
		if !freshReceiver(x) {
			// the receiver is shared with other code: what it holds when the result is used cannot be told from
			// this call alone
			return fact, name == "ModInverse" || name == "ModSqrt"
		}
		r, nilable := hb.opBound(x, name, at, depth)
		return min(r, fact), nilable
	case *ssa.Alloc:
		// a big.Int made here (new(big.Int)): zero if nothing writes it; otherwise the result of the single big.Int
		// operation that has it as receiver or as its out-parameter (z.QuoRem(x, y, r) writes z and r)
		pt, ok := x.Type().Underlying().(*types.Pointer)
		if !ok || pt.Elem().String() != "math/big.Int" || x.Referrers() == nil {
			return fact, false
		}
		var writer *ssa.Call
		role := ""
		writers := 0
		for _, r := range *x.Referrers() {
			switch u := r.(type) {
			case *ssa.Store:
				if u.Addr == ssa.Value(x) {
					return fact, false // assigned as a whole
				}
			case *ssa.DebugRef, *ssa.Return, *ssa.Phi, *ssa.MakeInterface:
			case *ssa.Call:
				name, isBig := bigMethod(u)
				if !isBig {
					return fact, false // handed to other code
				}
				args := u.Common().Args
				if len(args) > 0 && args[0] == ssa.Value(x) {
					switch name {
					case "Cmp", "CmpAbs", "Sign", "IsUint64", "IsInt64", "Uint64", "Int64", "BitLen", "String", "Text", "Bytes", "Bit", "Bits", "TrailingZeroBits", "ProbablyPrime", "FillBytes", "Format", "Append":
					default:
						writers++
						writer, role = u, "recv"
					}
				}
				if (name == "QuoRem" || name == "DivMod") && len(args) == 4 && args[3] == ssa.Value(x) {
					writers++
					writer, role = u, "rem"
				}
			default:
				return fact, false
			}
		}
		switch {
		case writers == 0:
			return big.NewInt(0), false
		case writers > 1:
			return fact, false
		}
		wargs := writer.Common().Args
		wname, _ := bigMethod(writer)
		if wname == "QuoRem" || wname == "DivMod" {
			a, _ := hb.ub(wargs[1], writer.Block(), depth+1)
			y := hb.exactOf(wargs[2], 0)
			if y == nil || y.Sign() <= 0 {
				return fact, false
			}
			if role == "rem" {
				return min(min(new(big.Int).Sub(y, big.NewInt(1)), a), fact), false
			}
			if a != nil {
				return min(new(big.Int).Quo(a, y), fact), false
			}
			return fact, false
		}
		if role == "recv" {
			// any other operation: evaluate it as if its receiver were fresh (this local is written by it alone)
			b, n := hb.opBound(writer, wname, writer.Block(), depth+1)
			return min(b, fact), n
		}
		return fact, false
	case *ssa.Extract:
		if c, ok := x.Tuple.(*ssa.Call); ok {
			if _, isBig := bigMethod(c); !isBig {
				// one result of a module helper returning several values (quotient, remainder)
				if ch := hb.child(c.Common().StaticCallee(), c); ch != nil {
					if ret := singleReturn(ch.fn); ret != nil && x.Index < len(ret.Results) {
						b, n := ch.ub(ret.Results[x.Index], ret.Block(), depth+1)
						return min(b, fact), n
					}
				}
				return fact, false
			}
			if name, isBig := bigMethod(c); isBig && name == "SetString" && x.Index == 0 {
				return fact, true
			}
			if name, isBig := bigMethod(c); isBig && (name == "DivMod" || name == "QuoRem") {
				args := c.Common().Args
				a, _ := hb.ub(args[1], at, depth+1)
				y := hb.exactOf(args[2], 0)
				if x.Index == 0 && a != nil && y != nil && y.Sign() > 0 {
					return min(new(big.Int).Quo(a, y), fact), false
				}
				if x.Index == 1 && y != nil && y.Sign() > 0 {
					return min(min(new(big.Int).Sub(y, big.NewInt(1)), a), fact), false
				}
			}
		}
	}
	return fact, false
}

// opBound: an inclusive upper bound of the result of the big.Int method call c (receiver value after the call)
func (hb *hbody) opBound(c *ssa.Call, name string, at *ssa.BasicBlock, depth int) (*big.Int, bool) {
	args := c.Common().Args
	min := func(a, b *big.Int) *big.Int {
		switch {
		case a == nil:
			return b
		case b == nil:
			return a
		case a.Cmp(b) < 0:
			return a
		}
		return b
	}
	nilable := false
	arg := func(i int) (*big.Int, bool) {
		if i >= len(args) {
			return nil, false
		}
		return hb.ub(args[i], at, depth+1)
	}
	var r *big.Int
	switch name {
	case "Set":
		r, nilable = arg(1)
	case "SetUint64":
		r = new(big.Int).Sub(pow2(64), big.NewInt(1))
	case "Add":
		a, _ := arg(1)
		b, _ := arg(2)
		if a != nil && b != nil {
			r = new(big.Int).Add(a, b)
		}
	case "Mul":
		a, _ := arg(1)
		b, _ := arg(2)
		if a != nil && b != nil {
			r = new(big.Int).Mul(a, b)
		}
	case "Div", "Quo":
		a, _ := arg(1)
		if y := hb.exactOf(args[2], 0); a != nil && y != nil && y.Sign() > 0 {
			r = new(big.Int).Quo(a, y)
		} else if a != nil {
			r = a
		}
	case "Rem", "Mod":
		a, _ := arg(1)
		b, _ := arg(2)
		if b != nil && b.Sign() > 0 {
			r = new(big.Int).Sub(b, big.NewInt(1))
		}
		r = min(r, a)
	case "Rsh":
		a, _ := arg(1)
		if n := hb.exactOf(args[2], 0); a != nil && n != nil && n.IsInt64() && n.Int64() < 4096 {
			r = new(big.Int).Rsh(a, uint(n.Int64()))
		} else {
			r = a
		}
	case "And":
		a, _ := arg(1)
		b, _ := arg(2)
		r = min(a, b)
	case "ModInverse":
		b, _ := arg(2)
		if b != nil && b.Sign() > 0 {
			r = new(big.Int).Sub(b, big.NewInt(1))
		}
		nilable = true
	case "ModSqrt":
		b, _ := arg(2)
		if b != nil && b.Sign() > 0 {
			r = new(big.Int).Sub(b, big.NewInt(1))
		}
		nilable = true
	case "Exp":
		if len(args) == 4 && !isNilConst(args[3]) {
			b, _ := arg(3)
			if b != nil && b.Sign() > 0 {
				r = new(big.Int).Sub(b, big.NewInt(1))
			}
		}
	}
	return r, nilable
}

// edgeTaken: every path from d to cur (a non-refusing block dominated by d) leaves d through its true (false) edge
func edgeTaken(fi *FnInfo, d, cur *ssa.BasicBlock) (bool, bool) {
	if len(d.Succs) != 2 || d.Succs[0] == d.Succs[1] {
		return false, false
	}
	s0, s1 := d.Succs[0], d.Succs[1]
	r0, r1 := fi.Refuse[s0.Index], fi.Refuse[s1.Index]
	switch {
	case r0 && !r1:
		return false, true
	case r1 && !r0:
		return true, true
	}
	via0 := (s0 == cur || s0.Dominates(cur)) && len(s0.Preds) == 1
	via1 := (s1 == cur || s1.Dominates(cur)) && len(s1.Preds) == 1
	switch {
	case via0 && !via1:
		return true, true
	case via1 && !via0:
		return false, true
	}
	return false, false
}

// nilChecked: block `at` is dominated by a branch that excludes v == nil
func nilChecked(v ssa.Value, at *ssa.BasicBlock) bool {
	cur := at
	for d := at.Idom(); d != nil; cur, d = d, d.Idom() {
		if len(d.Succs) != 2 {
			continue
		}
		iff, ok := d.Instrs[len(d.Instrs)-1].(*ssa.If)
		if !ok {
			continue
		}
		c, ok := iff.Cond.(*ssa.BinOp)
		if !ok || (c.Op != token.EQL && c.Op != token.NEQ) {
			continue
		}
		var other ssa.Value
		if stripCopies(c.X) == v {
			other = c.Y
		} else if stripCopies(c.Y) == v {
			other = c.X
		} else {
			continue
		}
		if !isNilConst(other) {
			continue
		}
		inT, okEdge := edgeTaken(GetFnInfo(at.Parent()), d, cur)
		if okEdge && ((c.Op == token.NEQ && inT) || (c.Op == token.EQL && !inT)) {
			return true
		}
	}
	return false
}

func rulesHintBodies(cx *Ctx, prop string) []Obligation {
	P := cx.P
	var obs []Obligation
	uses := hintUses(P)
	desc := "the value a hint stores into results[k] fits the range check its gadget applies to that output, on every path that returns nil (interval analysis of the hint body with the facts of its dominating branches), and is never a possibly-nil *big.Int: otherwise the honest prover has no witness for exactly the inputs that take that path"
	// merge the demands of all sites per hint and output
	type demand struct {
		bound *big.Int
		what  string
	}
	demands := map[*ssa.Function]map[int]*demand{}
	var hints []*ssa.Function
	for _, u := range uses {
		if demands[u.hint] == nil {
			demands[u.hint] = map[int]*demand{}
			hints = append(hints, u.hint)
		}
		for k, b := range u.bounds {
			if d := demands[u.hint][k]; d == nil || b.Cmp(d.bound) < 0 {
				demands[u.hint][k] = &demand{b, u.what[k]}
			}
		}
	}
	sort.Slice(hints, func(i, j int) bool { return hints[i].Pos() < hints[j].Pos() })
	derived := 0
	for _, hf := range hints {
		if hf.Blocks == nil || len(hf.Params) != 3 {
			continue
		}
		hb := &hbody{P: P, fn: hf, fi: GetFnInfo(hf), inputs: hf.Params[1]}
		hb.findLoopFacts()
		results := ssa.Value(hf.Params[2])
		// stores into results[k]
		type st struct {
			k     int
			val   ssa.Value
			block *ssa.BasicBlock
			pos   token.Pos
		}
		var stores []st
		for _, b := range hf.Blocks {
			for _, ins := range b.Instrs {
				s, ok := ins.(*ssa.Store)
				if !ok {
					continue
				}
				ia, ok := s.Addr.(*ssa.IndexAddr)
				if !ok || ia.X != results {
					continue
				}
				k := -1
				if kk, ok := constInt(ia.Index); ok {
					k = int(kk)
				}
				stores = append(stores, st{k, s.Val, b, s.Pos()})
			}
		}
		// results[k] written in place: results[k].SetUint64(x), results[k].Set(y), … (gnark pre-allocates the outputs)
		type inpl struct {
			k     int
			call  *ssa.Call
			name  string
			block *ssa.BasicBlock
		}
		var inplace []inpl
		for _, b := range hf.Blocks {
			for _, ins := range b.Instrs {
				c, ok := ins.(*ssa.Call)
				if !ok {
					continue
				}
				name, isBig := bigMethod(c)
				if !isBig || len(c.Common().Args) == 0 {
					continue
				}
				switch name {
				case "Cmp", "CmpAbs", "Sign", "IsUint64", "IsInt64", "Uint64", "Int64", "BitLen", "String", "Text", "Bytes", "Bit", "Bits", "TrailingZeroBits", "ProbablyPrime", "FillBytes", "Format", "Append":
					continue
				}
				ld, ok := stripCopies(c.Common().Args[0]).(*ssa.UnOp)
				if !ok || ld.Op != token.MUL {
					continue
				}
				ia, ok := ld.X.(*ssa.IndexAddr)
				if !ok || ia.X != results {
					continue
				}
				k := -1
				if kk, ok := constInt(ia.Index); ok {
					k = int(kk)
				}
				inplace = append(inplace, inpl{k, c, name, b})
			}
		}
		var ks []int
		for k := range demands[hf] {
			ks = append(ks, k)
		}
		sort.Ints(ks)
		for _, s := range stores {
			if hb.fi.Refuse[s.block.Index] {
				continue
			}
			key := fmt.Sprintf("%s/HB/%s/results[%d]/non-nil", prop, hf.Name(), s.k)
			if _, nilable := hb.ub(s.val, s.block, 0); nilable && !nilChecked(stripCopies(s.val), s.block) {
				obs = append(obs, bad(key, desc, "the stored value may be nil (result of ModInverse / ModSqrt / SetString used without a nil test)", P.Pos(s.pos)))
			}
		}
		for _, k := range ks {
			d := demands[hf][k]
			key := fmt.Sprintf("%s/HB/%s/results[%d]", prop, hf.Name(), k)
			derived++
			n := 0
			failed := false
			for _, s := range stores {
				if (s.k != k && s.k != -1) || hb.fi.Refuse[s.block.Index] {
					continue
				}
				n++
				b, _ := hb.ub(s.val, s.block, 0)
				switch {
				case b == nil:
					obs = append(obs, bad(key, desc, fmt.Sprintf("no upper bound could be established for the value stored here; the gadget demands < %s (%s)", boundName(d.bound), d.what), P.Pos(s.pos)))
					failed = true
				case b.Cmp(d.bound) >= 0:
					obs = append(obs, bad(key, desc, fmt.Sprintf("the value stored here can be as large as %s on this path; the gadget demands < %s (%s)", boundName(new(big.Int).Add(b, big.NewInt(1))), boundName(d.bound), d.what), P.Pos(s.pos)))
					failed = true
				}
				if failed {
					break
				}
			}
			for _, w := range inplace {
				if failed || (w.k != k && w.k != -1) || hb.fi.Refuse[w.block.Index] {
					continue
				}
				n++
				b, _ := hb.opBound(w.call, w.name, w.block, 0)
				switch {
				case b == nil:
					obs = append(obs, bad(key, desc, fmt.Sprintf("no upper bound could be established for the value written into results[%d] in place here; the gadget demands < %s (%s)", k, boundName(d.bound), d.what), P.Pos(w.call.Pos())))
					failed = true
				case b.Cmp(d.bound) >= 0:
					obs = append(obs, bad(key, desc, fmt.Sprintf("the value written into results[%d] in place here can be as large as %s on this path; the gadget demands < %s (%s)", k, boundName(new(big.Int).Add(b, big.NewInt(1))), boundName(d.bound), d.what), P.Pos(w.call.Pos())))
					failed = true
				}
			}
			if failed {
				continue
			}
			if n == 0 {
				obs = append(obs, undecided(key, desc, "no store into results["+fmt.Sprint(k)+"] found in "+P.FnName(hf)))
				continue
			}
			obs = append(obs, good(key, desc, fmt.Sprintf("%s: %d store(s) below %s (%s)", P.FnName(hf), n, boundName(d.bound), d.what)))
		}
	}
	if derived < 3 {
		obs = append(obs, undecided(prop+"/HB/floor", "hint outputs are traced to the range checks of their gadgets", fmt.Sprintf("only %d hint outputs could be traced from %d NewHint sites", derived, len(uses))))
	}
	return obs
}

func boundName(b *big.Int) string {
	switch {
	case b.Cmp(bigP) == 0:
		return "p"
	case b.Cmp(new(big.Int).Add(bigP, big.NewInt(0))) == 0:
		return "p"
	}
	if b.Sign() > 0 {
		if new(big.Int).Lsh(big.NewInt(1), uint(b.BitLen()-1)).Cmp(b) == 0 {
			return fmt.Sprintf("2^%d", b.BitLen()-1)
		}
	}
	s := b.String()
	if len(s) > 24 {
		return fmt.Sprintf("~2^%d", b.BitLen())
	}
	return s
}
