package main

// MA — accumulator discipline of frontend.API.MulAcc (gnark v0.9.1).
//
// The R1CS builder's MulAcc(a, b, c) re-uses the storage of its first operand when the sum fits its capacity
// ("_a is mutated without performing a new memalloc"); results of linear operations carry spare capacity. A value
// that is still held elsewhere (a parameter the caller keeps, a copy of an array, a variable read afterwards) then
// silently changes. The result is builder-dependent arithmetic: the same gadget is exact in the test engine and
// wrong in the compiled circuit. The rule: at every MulAcc site the accumulator operand is OWNED (nothing else holds
// its storage) and DEAD afterwards (the pre-call value is never read again). Ownership proofs accepted:
//
//	const     a constant (converted to a fresh expression by the builder)
//	fresh     the result of a copying API operation (Add, Sub, Mul, Div, …), of a module function returning such a
//	          result, or of a MulAcc whose own site satisfies the rule; or a φ of these (loop accumulators)
//	slot      a load from a slot of a local, non-escaping, never-copied array all of whose stores store owned,
//	          singly-held values — with the MulAcc result stored straight back to the same slot
//	param     (arrays only) the parameter of an unexported function all of whose call sites pass an owned array
//	          value that is dead after the call
//	hint      a NewHint output x[i] accumulating const·x[j], j ≠ i: a single-term expression of capacity 1; the
//	          two-term sum cannot be stored in place
//
// Everything else is reported with the reason the proof failed.

import (
	"fmt"
	"go/token"
	"go/types"

	"golang.org/x/tools/go/ssa"
)

const gnarkFrontend = "github.com/consensys/gnark/frontend"

var apiCopyOps = map[string]bool{"Add": true, "Sub": true, "Mul": true, "Div": true, "DivUnchecked": true, "Inverse": true,
	"IsZero": true, "Cmp": true, "FromBinary": true, "Xor": true, "Or": true, "And": true}

type ownState int

const (
	ownUnknown ownState = iota
	ownBusy
	ownYes
	ownNo
)

type ownRes struct {
	st  ownState
	why string
}

type paramKey struct {
	fn *ssa.Function
	i  int
}

type owner struct {
	P       *Program
	ret     map[*ssa.Function]*ownRes
	par     map[paramKey]*ownRes
	alloc   map[*ssa.Alloc]*ownRes
	site    map[*ssa.Call]*ownRes
	callers map[*ssa.Function][]*ssa.Call
}

func newOwner(P *Program) *owner {
	o := &owner{P: P, ret: map[*ssa.Function]*ownRes{}, par: map[paramKey]*ownRes{}, alloc: map[*ssa.Alloc]*ownRes{}, site: map[*ssa.Call]*ownRes{}, callers: map[*ssa.Function][]*ssa.Call{}}
	for _, fn := range P.ModuleFuncsSorted() {
		for _, b := range fn.Blocks {
			for _, ins := range b.Instrs {
				if c, ok := ins.(*ssa.Call); ok {
					if g := c.Call.StaticCallee(); g != nil {
						o.callers[g] = append(o.callers[g], c)
					}
				}
			}
		}
	}
	return o
}

// apiMethod: the call is an invoke of a method of gnark's frontend.API (or a sub-interface declared in that package)
func apiMethod(c *ssa.Call) (string, bool) {
	if c == nil || !c.Call.IsInvoke() || c.Call.Method == nil || c.Call.Method.Pkg() == nil {
		return "", false
	}
	if c.Call.Method.Pkg().Path() != gnarkFrontend {
		return "", false
	}
	return c.Call.Method.Name(), true
}

func stripIface(v ssa.Value) ssa.Value {
	for {
		switch x := v.(type) {
		case *ssa.ChangeType:
			v = x.X
		case *ssa.ChangeInterface:
			v = x.X
		default:
			return v
		}
	}
}

// slotLoad: v = *(&A[idx]) with A a local array Alloc
func slotLoad(v ssa.Value) (*ssa.Alloc, ssa.Value, bool) {
	u, ok := v.(*ssa.UnOp)
	if !ok || u.Op != token.MUL {
		return nil, nil, false
	}
	ia, ok := u.X.(*ssa.IndexAddr)
	if !ok {
		return nil, nil, false
	}
	al, ok := ia.X.(*ssa.Alloc)
	if !ok {
		return nil, nil, false
	}
	return al, ia.Index, true
}

func (o *owner) where(ins ssa.Instruction) string {
	if ins == nil {
		return "?"
	}
	return o.P.Pos(ins.Pos())
}

// ---- scalar ownership

func (o *owner) ownedScalar(v ssa.Value, seen map[ssa.Value]bool) (bool, string) {
	v = stripIface(v)
	if seen[v] {
		return true, "" // loop-carried: decided by the other edges
	}
	seen[v] = true
	switch x := v.(type) {
	case *ssa.Const:
		return true, ""
	case *ssa.MakeInterface:
		if _, isIface := x.X.Type().Underlying().(*types.Interface); !isIface {
			if _, ok := x.X.(*ssa.Const); ok {
				return true, ""
			}
			if b, ok := x.X.Type().Underlying().(*types.Basic); ok && b.Info()&types.IsNumeric != 0 {
				return true, ""
			}
			if _, ok := x.X.Type().Underlying().(*types.Pointer); ok { // *big.Int constant
				return true, ""
			}
		}
		return o.ownedScalar(x.X, seen)
	case *ssa.Phi:
		for _, e := range x.Edges {
			if ok, why := o.ownedScalar(e, seen); !ok {
				return false, why
			}
		}
		return true, ""
	case *ssa.Call:
		if m, ok := apiMethod(x); ok {
			if apiCopyOps[m] {
				return true, ""
			}
			if m == "MulAcc" {
				r := o.siteOK(x)
				if r.st == ownNo {
					return false, "it is the result of the MulAcc at " + o.where(x) + " whose accumulator is not owned"
				}
				return true, ""
			}
			return false, "it is the result of API." + m + ", which may return one of its operands"
		}
		if g := x.Call.StaticCallee(); g != nil && len(g.Blocks) > 0 && g.Signature.Results().Len() == 1 {
			r := o.returnsOwned(g)
			if r.st == ownNo {
				return false, "it is returned by " + o.P.FnName(g) + ": " + r.why
			}
			return true, ""
		}
		return false, "it is the result of a call the rule cannot see through (" + o.where(x) + ")"
	case *ssa.UnOp:
		if al, _, ok := slotLoad(x); ok {
			r := o.ownedContent(al)
			if r.st == ownNo {
				return false, r.why
			}
			return true, ""
		}
		if fa, ok := x.X.(*ssa.FieldAddr); ok {
			if al, ok := fa.X.(*ssa.Alloc); ok {
				for _, r := range *al.Referrers() {
					if st, ok := r.(*ssa.Store); ok && st.Addr == ssa.Value(al) {
						if p, ok := st.Val.(*ssa.Parameter); ok {
							return false, "it is a field of parameter " + p.Name() + ", which the caller may still hold (no defensive copy such as api.Mul(x, 1))"
						}
					}
				}
			}
		}
		return false, "it is loaded from memory that is not a slot of a local array (" + x.X.String() + ")"
	case *ssa.Parameter:
		return false, "it is parameter " + x.Name() + ", which the caller may still hold"
	case *ssa.Field:
		return false, "it is a field of " + x.X.Name() + ", which the caller may still hold"
	case *ssa.Extract, *ssa.Index, *ssa.Lookup:
		return false, "it is a component of another value that is still held (" + v.String() + ")"
	}
	return false, "its origin is not recognised (" + v.String() + ")"
}

// ---- aggregates (arrays of variables)

func (o *owner) ownedAgg(v ssa.Value, f *ssa.Function, seen map[ssa.Value]bool) (bool, string) {
	v = stripIface(v)
	if seen[v] {
		return true, ""
	}
	seen[v] = true
	switch x := v.(type) {
	case *ssa.Const:
		return true, "" // zero value
	case *ssa.Parameter:
		for i, p := range f.Params {
			if p == x {
				r := o.paramOwned(f, i)
				if r.st == ownNo {
					return false, r.why
				}
				return true, ""
			}
		}
		return false, "free variable"
	case *ssa.Phi:
		for _, e := range x.Edges {
			if ok, why := o.ownedAgg(e, f, seen); !ok {
				return false, why
			}
		}
		return true, ""
	case *ssa.Call:
		if g := x.Call.StaticCallee(); g != nil && len(g.Blocks) > 0 && g.Signature.Results().Len() == 1 {
			r := o.returnsOwned(g)
			if r.st == ownNo {
				return false, "it is returned by " + o.P.FnName(g) + ": " + r.why
			}
			return true, ""
		}
		return false, "it is the result of a call the rule cannot see through (" + o.where(x) + ")"
	case *ssa.UnOp:
		if al, ok := x.X.(*ssa.Alloc); ok && x.Op == token.MUL {
			r := o.ownedContent(al)
			if r.st == ownNo {
				return false, r.why
			}
			return true, ""
		}
	}
	return false, "its origin is not recognised (" + v.String() + ")"
}

func isAggOfVars(t types.Type) bool {
	switch u := t.Underlying().(type) {
	case *types.Array:
		return true && u != nil
	}
	return false
}

// returnsOwned: every value f returns is owned (scalar or array according to the result type)
func (o *owner) returnsOwned(f *ssa.Function) *ownRes {
	if r := o.ret[f]; r != nil {
		if r.st == ownBusy {
			return &ownRes{st: ownYes}
		}
		return r
	}
	r := &ownRes{st: ownBusy}
	o.ret[f] = r
	agg := isAggOfVars(f.Signature.Results().At(0).Type())
	res := &ownRes{st: ownYes}
	for _, b := range f.Blocks {
		rt, ok := b.Instrs[len(b.Instrs)-1].(*ssa.Return)
		if !ok || len(rt.Results) != 1 {
			continue
		}
		var okk bool
		var why string
		if agg {
			okk, why = o.ownedAgg(rt.Results[0], f, map[ssa.Value]bool{})
		} else {
			okk, why = o.ownedScalar(rt.Results[0], map[ssa.Value]bool{})
		}
		if !okk {
			res = &ownRes{st: ownNo, why: why}
			break
		}
	}
	*r = *res
	return r
}

// paramOwned: array parameter i of f is owned on entry
func (o *owner) paramOwned(f *ssa.Function, i int) *ownRes {
	k := paramKey{f, i}
	if r := o.par[k]; r != nil {
		if r.st == ownBusy {
			return &ownRes{st: ownYes}
		}
		return r
	}
	r := &ownRes{st: ownBusy}
	o.par[k] = r
	res := &ownRes{st: ownYes}
	name := f.Params[i].Name()
	switch {
	case f.Object() != nil && f.Object().Exported():
		res = &ownRes{st: ownNo, why: "parameter " + name + " of exported " + o.P.FnName(f) + " may still be held by any caller"}
	case len(o.callers[f]) == 0:
		res = &ownRes{st: ownNo, why: "no static call site of " + o.P.FnName(f) + " found (called through a value?)"}
	default:
		for _, c := range o.callers[f] {
			if i >= len(c.Call.Args) {
				res = &ownRes{st: ownNo, why: "call with fewer arguments at " + o.where(c)}
				break
			}
			arg := stripIface(c.Call.Args[i])
			if _, isLoad := arg.(*ssa.UnOp); isLoad {
				res = &ownRes{st: ownNo, why: "at " + o.where(c) + " the argument for " + name + " is a copy of a variable the caller keeps"}
				break
			}
			if ok, why := o.ownedAgg(arg, c.Parent(), map[ssa.Value]bool{}); !ok {
				res = &ownRes{st: ownNo, why: "at " + o.where(c) + " the argument for " + name + " is not owned: " + why}
				break
			}
			if u := usedAfter(arg, c); u != nil {
				res = &ownRes{st: ownNo, why: "at " + o.where(c) + " the argument for " + name + " is used again at " + o.where(u)}
				break
			}
		}
	}
	*r = *res
	return r
}

// ownedContent: every slot of local array A always holds an owned value that nothing else holds
func (o *owner) ownedContent(A *ssa.Alloc) *ownRes {
	if r := o.alloc[A]; r != nil {
		if r.st == ownBusy {
			return &ownRes{st: ownYes}
		}
		return r
	}
	r := &ownRes{st: ownBusy}
	o.alloc[A] = r
	res := o.ownedContent1(A)
	*r = *res
	return r
}

func (o *owner) ownedContent1(A *ssa.Alloc) *ownRes {
	f := A.Parent()
	name := A.Comment
	if name == "" {
		name = A.Name()
	}
	no := func(why string) *ownRes { return &ownRes{st: ownNo, why: why} }
	if _, ok := A.Type().Underlying().(*types.Pointer).Elem().Underlying().(*types.Array); !ok {
		return no("local " + name + " is not an array")
	}
	for _, ref := range *A.Referrers() {
		switch x := ref.(type) {
		case *ssa.DebugRef:
		case *ssa.IndexAddr:
			for _, r2 := range *x.Referrers() {
				switch y := r2.(type) {
				case *ssa.DebugRef:
				case *ssa.UnOp:
					if y.Op != token.MUL {
						return no("the address of a slot of " + name + " escapes at " + o.where(y))
					}
				case *ssa.Store:
					if y.Addr != ssa.Value(x) {
						return no("the address of a slot of " + name + " is stored at " + o.where(y))
					}
					if _, _, ok := slotLoad(stripIface(y.Val)); ok {
						return no("a value read from an array slot is copied into " + name + " at " + o.where(y) + " (two holders of one value)")
					}
					if ok, why := o.ownedScalar(y.Val, map[ssa.Value]bool{}); !ok {
						return no("the value stored into " + name + " at " + o.where(y) + " is not owned: " + why)
					}
					if u := otherHolder(y.Val, y); u != nil {
						return no("the value stored into " + name + " at " + o.where(y) + " is also held at " + o.where(u))
					}
				default:
					return no("the address of a slot of " + name + " escapes at " + o.where(r2))
				}
			}
		case *ssa.UnOp: // whole-array load: only to return it or hand it to a call (a transient holder)
			for _, r2 := range *x.Referrers() {
				switch y := r2.(type) {
				case *ssa.DebugRef, *ssa.Return:
				case *ssa.Call:
					// the callee's copy lives only during the call; its result must not be a second holder that
					// outlives it: accepted when the result is stored straight back over A or is itself owned
					if y.Call.StaticCallee() == nil {
						return no(name + " is handed to a dynamic call at " + o.where(y))
					}
				default:
					return no(name + " is copied at " + o.where(r2) + " (the copy keeps the old values)")
				}
			}
		case *ssa.Store:
			if x.Addr != ssa.Value(A) {
				return no("the address of " + name + " is stored at " + o.where(x))
			}
			if ok, why := o.ownedAgg(x.Val, f, map[ssa.Value]bool{}); !ok {
				return no("the array assigned to " + name + " at " + o.where(x) + " is not owned: " + why)
			}
		default:
			return no("the address of " + name + " escapes at " + o.where(ref))
		}
	}
	return &ownRes{st: ownYes}
}

// otherHolder: v (an owned scalar just stored by st) is held somewhere else too: a second store, a return, an
// argument of a non-API call, a φ that is not its own accumulator chain
func otherHolder(v ssa.Value, st *ssa.Store) ssa.Instruction {
	v = stripIface(v)
	refs := v.Referrers()
	if refs == nil {
		return nil
	}
	for _, r := range *refs {
		switch x := r.(type) {
		case *ssa.DebugRef:
		case *ssa.Store:
			if x != st {
				return x
			}
		case *ssa.Call:
			if _, ok := apiMethod(x); ok {
				continue // operand of an API operation: read, or consumed as accumulator (checked at that site)
			}
			if x.Call.StaticCallee() != nil {
				continue // read by a module function during the call
			}
			return x
		case *ssa.ChangeType, *ssa.ChangeInterface, *ssa.MakeInterface:
			if xv, ok := r.(ssa.Value); ok {
				if u := otherHolder(xv, st); u != nil {
					return u
				}
			}
		case *ssa.Phi:
			// a loop accumulator feeding itself through MulAcc is the same holder
			continue
		default:
			return r
		}
	}
	return nil
}

// usedAfter: some use of v executes after call before v is redefined
func usedAfter(v ssa.Value, call *ssa.Call) ssa.Instruction {
	refs := v.Referrers()
	if refs == nil {
		return nil
	}
	cb := call.Block()
	var defBlock *ssa.BasicBlock
	if ins, ok := v.(ssa.Instruction); ok {
		defBlock = ins.Block()
	}
	// blocks reachable from the call without passing through the definition of v
	reach := map[*ssa.BasicBlock]bool{}
	var work []*ssa.BasicBlock
	for _, s := range cb.Succs {
		work = append(work, s)
	}
	for len(work) > 0 {
		b := work[len(work)-1]
		work = work[:len(work)-1]
		if reach[b] || b == defBlock {
			continue
		}
		reach[b] = true
		work = append(work, b.Succs...)
	}
	idx := func(ins ssa.Instruction) int {
		for i, x := range ins.Block().Instrs {
			if x == ins {
				return i
			}
		}
		return -1
	}
	ci := idx(call)
	for _, r := range *refs {
		if r == ssa.Instruction(call) {
			continue
		}
		if _, ok := r.(*ssa.DebugRef); ok {
			continue
		}
		if phi, ok := r.(*ssa.Phi); ok {
			for i, e := range phi.Edges {
				if e != v {
					continue
				}
				pb := phi.Block().Preds[i]
				if pb == cb || reach[pb] {
					if phi.Block() == defBlock && pb != cb {
						continue
					}
					return phi
				}
			}
			continue
		}
		if r.Block() == cb {
			if idx(r) > ci {
				return r
			}
			if reach[cb] && cb != defBlock {
				return r
			}
			continue
		}
		if reach[r.Block()] {
			return r
		}
	}
	return nil
}

// ---- the MulAcc sites

func (o *owner) siteOK(c *ssa.Call) *ownRes {
	if r := o.site[c]; r != nil {
		if r.st == ownBusy {
			return &ownRes{st: ownYes}
		}
		return r
	}
	r := &ownRes{st: ownBusy}
	o.site[c] = r
	res := o.siteOK1(c)
	*r = *res
	return r
}

func (o *owner) siteOK1(c *ssa.Call) *ownRes {
	no := func(why string) *ownRes { return &ownRes{st: ownNo, why: why} }
	yes := func(how string) *ownRes { return &ownRes{st: ownYes, why: how} }
	if len(c.Call.Args) != 3 {
		return no("unexpected arity")
	}
	a := stripIface(c.Call.Args[0])
	// hint: x[i] + const·x[j]
	if hi, i, ok := hintOutput(a); ok {
		if hj, j, ok2 := hintOutput(stripIface(c.Call.Args[2])); ok2 && hj == hi && i != j && isNonZeroConst(c.Call.Args[1]) {
			return yes("hint output accumulating const·(another output of the same hint): single-term expression, cannot be updated in place")
		}
		if hj, j, ok2 := hintOutput(stripIface(c.Call.Args[1])); ok2 && hj == hi && i != j && isNonZeroConst(c.Call.Args[2]) {
			return yes("hint output accumulating const·(another output of the same hint): single-term expression, cannot be updated in place")
		}
	}
	if A, idx, ok := slotLoad(a); ok {
		rc := o.ownedContent(A)
		if rc.st == ownNo {
			return no(rc.why)
		}
		for _, u := range *a.Referrers() {
			if u != ssa.Instruction(c) {
				if _, dbg := u.(*ssa.DebugRef); !dbg {
					return no("the accumulator's value is also used at " + o.where(u))
				}
			}
		}
		// the result goes straight back into the same slot, nothing touches the array in between
		instrs := c.Block().Instrs
		ci := -1
		for i, x := range instrs {
			if x == ssa.Instruction(c) {
				ci = i
			}
		}
		for i := ci + 1; i < len(instrs); i++ {
			switch x := instrs[i].(type) {
			case *ssa.Store:
				if ia, ok := x.Addr.(*ssa.IndexAddr); ok && ia.X == ssa.Value(A) {
					if stripIface(x.Val) == ssa.Value(c) && stripCopies(ia.Index) == stripCopies(idx) {
						return yes("slot of an owned local array, result stored straight back")
					}
					return no("after the MulAcc a different slot or value is stored into the array first (" + o.where(x) + ")")
				}
			case *ssa.UnOp:
				if sa, _, ok := slotLoad(x); ok && sa == A {
					return no("the array is read at " + o.where(x) + " before the MulAcc result replaces the accumulator's slot")
				}
				if x.X == ssa.Value(A) {
					return no("the array is copied at " + o.where(x) + " before the MulAcc result replaces the accumulator's slot")
				}
			case *ssa.Call, *ssa.If, *ssa.Jump, *ssa.Return:
				if _, isCall := x.(*ssa.Call); isCall {
					return no("a call intervenes before the MulAcc result is stored back (" + o.where(x) + ")")
				}
				return no("the MulAcc result is not stored back into the accumulator's slot in the same block")
			}
		}
		return no("the MulAcc result is not stored back into the accumulator's slot")
	}
	if ok, why := o.ownedScalar(a, map[ssa.Value]bool{}); !ok {
		return no("the accumulator is not owned: " + why)
	}
	if u := usedAfter(a, c); u != nil {
		return no("the accumulator's pre-call value is used again at " + o.where(u))
	}
	return yes("fresh value, dead after the call")
}

// hintOutput: v = res[i] with res the slice returned by Compiler().NewHint(...), i constant
func hintOutput(v ssa.Value) (ssa.Value, int64, bool) {
	// through NewVariable(x).Limb wrappers: Field / FieldAddr of a struct built from the value
	v = unwrapLimb(v)
	// through a witness struct returned by a helper: w := p.mulAddWitness(…); w.remainder.Limb
	if src, ok := traceField(stripIface(v), nil, 0); ok {
		v = unwrapLimb(src)
	}
	u, ok := v.(*ssa.UnOp)
	if !ok || u.Op != token.MUL {
		return nil, 0, false
	}
	ia, ok := u.X.(*ssa.IndexAddr)
	if !ok {
		return nil, 0, false
	}
	i, ok := constInt(ia.Index)
	if !ok {
		return nil, 0, false
	}
	if wc, isCall := ia.X.(*ssa.Call); isCall {
		// the outputs of a forwarding wrapper around NewHint (mustHint)
		if _, isW := hintWrapper(wc.Call.StaticCallee()); isW {
			return wc, i, true
		}
	}
	ex, ok := ia.X.(*ssa.Extract)
	if !ok {
		return nil, 0, false
	}
	call, ok := ex.Tuple.(*ssa.Call)
	if !ok || !call.Call.IsInvoke() || call.Call.Method.Name() != "NewHint" || call.Call.Method.Pkg() == nil || call.Call.Method.Pkg().Path() != gnarkFrontend {
		return nil, 0, false
	}
	return call, i, true
}

// traceField resolves a scalar read out of (nested) struct values back to the value that was put there: loads of
// FieldAddr chains on a local that is stored once, Field chains on values, struct literals, NewVariable(x), and
// module functions with a single return (followed into the callee). path is the list of field indices still to be
// selected from v (outermost first).
func traceField(v ssa.Value, path []int, depth int) (ssa.Value, bool) {
	if depth > 12 {
		return nil, false
	}
	v = stripIface(v)
	switch x := v.(type) {
	case *ssa.Extract:
		// one result of a helper with a single return: `quotient, remainder := p.mulAddWitness(a, b, c)`
		if c, ok := x.Tuple.(*ssa.Call); ok {
			if g := c.Call.StaticCallee(); g != nil && g.Blocks != nil {
				var ret *ssa.Return
				for _, b := range g.Blocks {
					if r, ok := b.Instrs[len(b.Instrs)-1].(*ssa.Return); ok {
						if ret != nil {
							return nil, false
						}
						ret = r
					}
				}
				if ret != nil && x.Index < len(ret.Results) {
					if len(path) == 0 {
						return ret.Results[x.Index], true
					}
					return traceField(ret.Results[x.Index], path, depth+1)
				}
			}
		}
		return nil, false
	case *ssa.Field:
		return traceField(x.X, append([]int{x.Field}, path...), depth+1)
	case *ssa.UnOp:
		if x.Op != token.MUL {
			return nil, false
		}
		// collect the FieldAddr chain down to the base pointer
		var chain []int
		base := x.X
		for {
			fa, ok := base.(*ssa.FieldAddr)
			if !ok {
				break
			}
			chain = append([]int{fa.Field}, chain...)
			base = fa.X
		}
		al, ok := base.(*ssa.Alloc)
		if !ok || al.Referrers() == nil {
			return nil, false
		}
		full := append(append([]int{}, chain...), path...)
		if len(full) == 0 {
			return nil, false
		}
		// the local is written once as a whole, or field by field (a composite literal)
		var whole ssa.Value
		nWhole := 0
		for _, r := range *al.Referrers() {
			if st, ok := r.(*ssa.Store); ok && st.Addr == ssa.Value(al) {
				whole = st.Val
				nWhole++
			}
		}
		if nWhole == 1 {
			return traceField(whole, full, depth+1)
		}
		if nWhole > 1 {
			return nil, false
		}
		var src ssa.Value
		n := 0
		for _, r := range *al.Referrers() {
			fa, ok := r.(*ssa.FieldAddr)
			if !ok || fa.Field != full[0] || fa.Referrers() == nil {
				continue
			}
			for _, r2 := range *fa.Referrers() {
				if st, ok := r2.(*ssa.Store); ok && st.Addr == ssa.Value(fa) {
					src = st.Val
					n++
				}
			}
		}
		if n != 1 {
			return nil, false
		}
		if len(full) == 1 {
			return src, true
		}
		return traceField(src, full[1:], depth+1)
	case *ssa.Call:
		if len(path) == 0 {
			return nil, false
		}
		g := x.Call.StaticCallee()
		if g == nil || g.Blocks == nil {
			return nil, false
		}
		if g.Name() == "NewVariable" && len(x.Call.Args) == 1 && len(path) == 1 && path[0] == 0 {
			return x.Call.Args[0], true
		}
		var ret *ssa.Return
		for _, b := range g.Blocks {
			if r, ok := b.Instrs[len(b.Instrs)-1].(*ssa.Return); ok {
				if ret != nil {
					return nil, false
				}
				ret = r
			}
		}
		if ret == nil || len(ret.Results) != 1 {
			return nil, false
		}
		return traceField(ret.Results[0], path, depth+1)
	}
	return nil, false
}

// unwrapLimb looks through gl.NewVariable(x).Limb (a static call returning a one-field struct, then Field 0)
func unwrapLimb(v ssa.Value) ssa.Value {
	for k := 0; k < 4; k++ {
		v = stripIface(v)
		switch x := v.(type) {
		case *ssa.Field:
			if c, ok := x.X.(*ssa.Call); ok {
				if g := c.Call.StaticCallee(); g != nil && g.Name() == "NewVariable" && len(c.Call.Args) == 1 {
					v = c.Call.Args[0]
					continue
				}
			}
			return v
		case *ssa.UnOp:
			// load of a field of a local holding NewVariable(x)
			if fa, ok := x.X.(*ssa.FieldAddr); ok && x.Op == token.MUL {
				if al, ok := fa.X.(*ssa.Alloc); ok {
					var src ssa.Value
					n := 0
					for _, r := range *al.Referrers() {
						if st, ok := r.(*ssa.Store); ok && st.Addr == ssa.Value(al) {
							src = st.Val
							n++
						}
					}
					if n == 1 {
						if c, ok := src.(*ssa.Call); ok {
							if g := c.Call.StaticCallee(); g != nil && g.Name() == "NewVariable" && len(c.Call.Args) == 1 {
								v = c.Call.Args[0]
								continue
							}
						}
					}
				}
			}
			return v
		default:
			return v
		}
	}
	return v
}

func isNonZeroConst(v ssa.Value) bool {
	v = stripCopies(v)
	if c, ok := v.(*ssa.Const); ok {
		if k, ok := constInt(c); ok {
			return k != 0
		}
		return false
	}
	// a package-level *big.Int / value that is never zero cannot be told here; MODULUS is recognised by name
	if u, ok := v.(*ssa.UnOp); ok && u.Op == token.MUL {
		if g, ok := u.X.(*ssa.Global); ok && g.Name() == "MODULUS" {
			return true
		}
	}
	return false
}

// rulesMulAcc emits one obligation per MulAcc site in the given packages
func rulesMulAcc(cx *Ctx, prop string, pkgs ...string) []Obligation {
	P := cx.P
	o := newOwner(P)
	var obs []Obligation
	desc := "the accumulator operand of API.MulAcc is owned and dead after the call (gnark's R1CS builder may update it in place; a value still held elsewhere would change under the compiled circuit but not in the test engine)"
	n := 0
	for _, fn := range P.ModuleFuncsSorted() {
		inPkg := false
		for _, p := range pkgs {
			if p == fnPkgShort(fn) {
				inPkg = true
			}
		}
		if !inPkg {
			continue
		}
		for _, b := range fn.Blocks {
			for _, ins := range b.Instrs {
				c, ok := ins.(*ssa.Call)
				if !ok {
					continue
				}
				if m, ok := apiMethod(c); !ok || m != "MulAcc" {
					continue
				}
				n++
				key := fmt.Sprintf("%s/MA/%s", prop, P.FnName(fn))
				r := o.siteOK(c)
				if r.st == ownNo {
					obs = append(obs, bad(key, desc, r.why, P.Pos(c.Pos())))
				} else {
					obs = append(obs, good(key, desc, P.Pos(c.Pos())+" ("+r.why+")"))
				}
			}
		}
	}
	if n == 0 {
		obs = append(obs, Obligation{Key: prop + "/MA/none", Desc: desc, Status: INFO, Detail: "no MulAcc call in " + fmt.Sprint(pkgs)})
	}
	return obs
}

// rulesMulAccElsewhere: the same accumulator discipline for every MulAcc call of the circuit packages outside
// goldilocks and poseidon (whose sites belong to C07 and C10). None exists today; a new one — the Merkle fold
// rewritten as two MulAcc that both start from the running digest — must satisfy the rule.
func rulesMulAccElsewhere(cx *Ctx, prop string) []Obligation {
	P := cx.P
	o := newOwner(P)
	var obs []Obligation
	desc := "the accumulator operand of API.MulAcc is owned and dead after the call (gnark's R1CS builder may update it in place; a value still held elsewhere would change under the compiled circuit but not in the test engine) — every site outside the goldilocks and poseidon packages"
	n, total := 0, 0
	for _, fn := range P.ModuleFuncsSorted() {
		if !circuitPackage(fn) {
			continue
		}
		for _, b := range fn.Blocks {
			for _, ins := range b.Instrs {
				c, ok := ins.(*ssa.Call)
				if !ok {
					continue
				}
				if m, ok := apiMethod(c); !ok || m != "MulAcc" {
					continue
				}
				total++
				if pk := fnPkgShort(fn); pk == "goldilocks" || pk == "poseidon" {
					continue
				}
				n++
				key := fmt.Sprintf("%s/MA/%s", prop, P.FnName(fn))
				r := o.siteOK(c)
				if r.st == ownNo {
					obs = append(obs, bad(key, desc, r.why, P.Pos(c.Pos())))
				} else {
					obs = append(obs, good(key, desc, P.Pos(c.Pos())+" ("+r.why+")"))
				}
			}
		}
	}
	if n == 0 {
		if total == 0 {
			return []Obligation{undecided(prop+"/MA/elsewhere", desc, "no MulAcc call was found in the circuit packages at all: the matcher would pass vacuously")}
		}
		obs = append(obs, good(prop+"/MA/elsewhere", desc, fmt.Sprintf("no MulAcc call outside goldilocks and poseidon (%d sites there)", total)))
	}
	return obs
}
