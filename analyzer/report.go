package main

// Obligations, verdicts, evidence files, VIOLATION / KNOWN-FINDING lines, replay files.

import (
	"encoding/json"
	"fmt"
	"os"
	"path/filepath"
	"regexp"
	"sort"
	"strings"
	"time"
)

type Obligation struct {
	Key    string   `json:"key"`  // rule + construct, never a line number
	Desc   string   `json:"rule"` // the rule applied, in words
	Status string   `json:"status"`
	Detail string   `json:"detail,omitempty"`
	Sites  []string `json:"sites,omitempty"` // matched constructs (file:line, call path)
}

const (
	OK        = "ok"
	VIOLATED  = "violated"
	UNDECIDED = "undecided"
	INFO      = "info"
)

func good(key, desc string, sites ...string) Obligation {
	return Obligation{Key: key, Desc: desc, Status: OK, Sites: sites}
}
func bad(key, desc, detail string, sites ...string) Obligation {
	return Obligation{Key: key, Desc: desc, Status: VIOLATED, Detail: detail, Sites: sites}
}
func undecided(key, desc, detail string) Obligation {
	return Obligation{Key: key, Desc: desc, Status: UNDECIDED, Detail: detail}
}

type KnownFindings struct {
	Findings []struct {
		Property string `json:"property"`
		Key      string `json:"key"`
		What     string `json:"what"`
	} `json:"findings"`
	Fixed []string `json:"fixed"`
}

func verifDir() string {
	if d := os.Getenv("VERIF_DIR"); d != "" {
		return d
	}
	if _, err := os.Stat("/verif/MANIFEST.json"); err == nil {
		return "/verif"
	}
	wd, _ := os.Getwd()
	return wd
}

func loadKnown() *KnownFindings {
	k := &KnownFindings{}
	b, err := os.ReadFile(filepath.Join(verifDir(), "known_findings.json"))
	if err != nil {
		return k
	}
	if err := json.Unmarshal(b, k); err != nil {
		fmt.Println("warning: known_findings.json unreadable:", err)
	}
	return k
}

func (k *KnownFindings) Has(prop, key string) (string, bool) {
	for _, f := range k.Findings {
		if f.Property == prop && f.Key == key {
			return f.What, true
		}
	}
	return "", false
}

var unsafeChars = regexp.MustCompile(`[^A-Za-z0-9_.-]+`)

type PropResult struct {
	ID          string
	Obs         []Obligation
	Explanation string
	Rule        string
	Trusted     []string
	Assumptions []string
	Extra       map[string]interface{}
}

// Report prints the verdict of one property, writes evidence and replay files, and returns the number of
// violations that are not listed as known findings.
func Report(cx *Ctx, pr *PropResult, wall time.Duration) int {
	known := loadKnown()
	vd := verifDir()
	os.MkdirAll(filepath.Join(vd, "evidence"), 0o755)
	os.MkdirAll(filepath.Join(vd, "replay"), 0o755)
	nOK, nBad, nKnown, nInfo := 0, 0, 0, 0
	distinct := map[string]bool{}
	var samples []interface{}
	finalizeKeys(pr.Obs)
	for _, o := range pr.Obs {
		switch o.Status {
		case OK:
			nOK++
			for _, s := range o.Sites {
				distinct[s] = true
			}
			if len(samples) < 12 {
				samples = append(samples, map[string]interface{}{"obligation": o.Key, "rule": o.Desc, "matched": o.Sites})
			}
		case INFO:
			nInfo++
		default:
			if what, isKnown := known.Has(pr.ID, o.Key); isKnown {
				nKnown++
				fmt.Printf("KNOWN-FINDING: property=%s %s — %s\n", pr.ID, o.Key, what)
				continue
			}
			nBad++
			rp := filepath.Join(vd, "replay", pr.ID+"-"+unsafeChars.ReplaceAllString(o.Key, "_")+".json")
			rb, _ := json.MarshalIndent(map[string]interface{}{
				"property": pr.ID, "key": o.Key, "rule": o.Desc, "status": o.Status, "detail": o.Detail, "sites": o.Sites,
				"repo": cx.P.Dir, "how": "glcheck replay <this file> re-evaluates the rule on the current tree",
			}, "", " ")
			os.WriteFile(rp, rb, 0o644)
			fmt.Printf("  %s %s\n      rule: %s\n      %s\n", strings.ToUpper(o.Status), o.Key, o.Desc, o.Detail)
			for _, s := range o.Sites {
				fmt.Printf("      at %s\n", s)
			}
			fmt.Printf("VIOLATION property=%s replay=%s\n", pr.ID, rp)
		}
	}
	total := nOK + nBad + nKnown
	fmt.Printf("%s: %d obligations, %d discharged, %d violated, %d known findings, %d informational; %d distinct constructs matched\n",
		pr.ID, total, nOK, nBad, nKnown, nInfo, len(distinct))
	if os.Getenv("GLCHECK_VERBOSE") != "" {
		for _, o := range pr.Obs {
			fmt.Printf("   [%s] %s %v %s\n", o.Status, o.Key, o.Sites, o.Detail)
		}
	}
	cov := map[string]interface{}{
		"explanation":         pr.Explanation,
		"rule":                pr.Rule,
		"obligations":         total,
		"discharged":          nOK,
		"evaluations":         total,
		"distinct_nontrivial": len(distinct),
		"samples":             samples,
		"exhaustive":          true,
		"trusted_base":        pr.Trusted,
		"checker_cmd":         "bin/glcheck check " + pr.ID + " " + cx.Tier,
		"packages_loaded":     len(cx.P.Pkgs),
		"module_functions":    cx.P.NFuncs,
		"module_blocks":       cx.P.NBlock,
		"known_findings":      nKnown,
		"informational":       nInfo,
		"repo_dir":            cx.P.Dir,
	}
	for k, v := range cx.Stats {
		cov[k] = v
	}
	for k, v := range pr.Extra {
		cov[k] = v
	}
	if len(samples) == 0 {
		cov["samples"] = []interface{}{map[string]interface{}{"note": "no obligation was discharged on this run"}}
	}
	seed := 0
	fmt.Sscanf(os.Getenv("VERIF_SEED"), "%d", &seed)
	ev := map[string]interface{}{
		"property_id": pr.ID,
		"tier":        cx.Tier,
		"seed":        seed,
		"level":       "other",
		"coverage":    cov,
		"assumptions": pr.Assumptions,
		"wall_s":      wall.Seconds(),
		"violations":  nBad,
	}
	b, _ := json.MarshalIndent(ev, "", " ")
	if os.Getenv("GLCHECK_NO_EVIDENCE") == "" {
		os.WriteFile(filepath.Join(vd, "evidence", pr.ID+".json"), b, 0o644)
	}
	return nBad
}

// finalizeKeys sorts the obligations and gives several instances of one construct in one function an ordinal
// (source order): keys are rule + construct, never line numbers.
func finalizeKeys(obs []Obligation) {
	sort.SliceStable(obs, func(i, j int) bool { return obs[i].Key < obs[j].Key })
	cnt := map[string]int{}
	for _, o := range obs {
		cnt[o.Key]++
	}
	seen := map[string]int{}
	for i := range obs {
		k := obs[i].Key
		if cnt[k] > 1 {
			seen[k]++
			obs[i].Key = fmt.Sprintf("%s#%d", k, seen[k])
		}
	}
}
