package main

// Shared machinery of the rule files: cached entry evaluations, path patterns, loop coverage.

import (
	"fmt"
	"go/token"
	"go/types"
	"regexp"
	"sort"
	"strings"

	"golang.org/x/tools/go/ssa"
)

type Run struct {
	In    *Interp
	Entry *ssa.Function
	Res   *Result
	Recs  []*Rec
}

type Ctx struct {
	P     *Program
	Tier  string
	runs  map[string]*Run
	Stats map[string]interface{}
	mag   *magAnalyzer
}

func NewCtx(P *Program, tier string) *Ctx {
	return &Ctx{P: P, Tier: tier, runs: map[string]*Run{}, Stats: map[string]interface{}{}}
}

// Entry evaluates (once) the abstract interpretation from the given entry point.
// Verifier-level entries summarise pure gadget-layer arithmetic; gadget-level entries descend fully.
func (cx *Ctx) Entry(pkg, name string) *Run {
	key := pkg + "." + name
	if r, ok := cx.runs[key]; ok {
		return r
	}
	fn := cx.P.Func(pkg, name)
	if fn == nil {
		cx.runs[key] = nil
		return nil
	}
	in := NewInterp(cx.P)
	in.OpaquePure = !in.Layer[fnPkgShort(fn)]
	res := in.Run(fn)
	r := &Run{In: in, Entry: fn, Res: res, Recs: in.Flatten(res)}
	cx.runs[key] = r
	n, _ := cx.Stats["entries_evaluated"].(int)
	cx.Stats["entries_evaluated"] = n + 1
	c, _ := cx.Stats["call_sites_evaluated"].(int)
	cx.Stats["call_sites_evaluated"] = c + in.Calls
	rc, _ := cx.Stats["records"].(int)
	cx.Stats["records"] = rc + len(r.Recs)
	lp, _ := cx.Stats["loops_classified"].(int)
	cx.Stats["loops_classified"] = lp + len(in.Loops)
	return r
}

// ParamRoot: name of the entry parameter of the given named type ("variables.Proof"), "R" for the receiver.
func (r *Run) ParamRoot(typ string) string {
	for i, p := range r.Entry.Params {
		t := p.Type()
		if pt, ok := t.(*types.Pointer); ok {
			t = pt.Elem()
		}
		if types.TypeString(t, shortQual) == typ {
			if i == 0 && r.Entry.Signature.Recv() != nil {
				return "R"
			}
			return p.Name()
		}
	}
	return ""
}

func (r *Run) site(rec *Rec) string {
	s := r.In.P.Pos(rec.Site)
	if len(rec.Chain) > 0 {
		var parts []string
		for _, c := range rec.Chain {
			parts = append(parts, r.In.P.Pos(c.Site)+"→"+c.Callee.Name())
		}
		s += " via " + strings.Join(parts, " ")
	}
	return s
}

func (r *Run) notes() string {
	return strings.Join(r.In.Notes, "; ")
}

// ---------------------------------------------------------------- loop coverage

var ivRe = regexp.MustCompile(`\[iv(\d+)\]`)

func atoi(s string) int {
	n := 0
	for _, c := range s {
		n = n*10 + int(c-'0')
	}
	return n
}

func hasInt(l []int, x int) bool {
	for _, y := range l {
		if y == x {
			return true
		}
	}
	return false
}

func hasStr(l []string, x string) bool {
	i := sort.SearchStrings(l, x)
	return i < len(l) && l[i] == x
}

// loopFull: loop id ranges over every element of the collection at access path coll (0, 1, …, len-1, each
// exactly once, no other exit). guards are the must-executed length-equality refusals usable for co-indexing.
func (r *Run) loopFull(id int, coll string, rec *Rec) (bool, string) {
	ld := r.In.Loops[id]
	if ld == nil {
		return false, fmt.Sprintf("loop iv%d unknown", id)
	}
	sl := ld.S
	where := ld.FnPos
	if !sl.Counted {
		return false, "loop at " + where + " is not a counted loop"
	}
	if !sl.SingleExit {
		return false, "loop at " + where + " has an exit other than its bound test (break/return inside)"
	}
	if sl.Step == 1 {
		if sl.StartConst == nil || *sl.StartConst != 0 {
			return false, "loop at " + where + " does not start at index 0"
		}
		if sl.Op != token.LSS && sl.Op != token.NEQ {
			return false, "loop at " + where + " continues while index " + sl.Op.String() + " bound (expected <)"
		}
		if ld.Bound == nil {
			return false, "loop at " + where + ": bound not evaluated"
		}
		if hasStr(ld.Bound.LenOf, coll) && len(ld.Bound.LenOf) == 1 {
			return true, ""
		}
		// co-indexed: bound is the length of another collection, proven equal by a must-executed guard
		for _, other := range ld.Bound.LenOf {
			if r.lenGuard(other, coll, rec) {
				return true, ""
			}
		}
		return false, fmt.Sprintf("loop at %s is bounded by %s, not by len(%s)", where, boundStr(ld.Bound), coll)
	}
	if sl.Step == -1 {
		// for i := len(x)-1; i >= 0; i--
		if sl.Op != token.GEQ || ld.Bound == nil || ld.Bound.K == nil || ld.Bound.K.ExactString() != "0" {
			return false, "down-counting loop at " + where + " does not run to index 0"
		}
		if ld.Start != nil && ld.Start.Sym == "-(len("+coll+"),1)" {
			return true, ""
		}
		return false, "down-counting loop at " + where + " does not start at len(" + coll + ")-1"
	}
	return false, fmt.Sprintf("loop at %s has step %d", where, sl.Step)
}

func boundStr(v *Val) string {
	if v == nil {
		return "?"
	}
	if len(v.LenOf) > 0 {
		return "len" + fmt.Sprint(v.LenOf)
	}
	if s := symOrLen(v); s != "" {
		return s
	}
	return v.short(1)
}

// lenGuard: a must-executed refusal "unless len(a) == len(b)" dominating (in the chain sense) the record.
func (r *Run) lenGuard(a, b string, rec *Rec) bool {
	for _, g := range r.Recs {
		if g.Kind != "guard" || !g.Must || len(g.Args) == 0 || g.Args[0] == nil || g.Args[0].Bin == nil {
			continue
		}
		bi := g.Args[0].Bin
		eq := (bi.Op == token.NEQ && g.Neg) || (bi.Op == token.EQL && !g.Neg)
		if !eq || bi.X == nil || bi.Y == nil {
			continue
		}
		if (lenIs(bi.X, a) && lenIs(bi.Y, b)) || (lenIs(bi.X, b) && lenIs(bi.Y, a)) {
			return true
		}
		// the guard may have been established inside another loop over the same collections: it then holds for
		// every element provided that loop is itself a full-range loop (paths are compared up to induction symbols)
		for _, pair := range [][2]*Val{{bi.X, bi.Y}, {bi.Y, bi.X}} {
			if len(pair[0].LenOf) != 1 || len(pair[1].LenOf) != 1 {
				continue
			}
			ga, gb := pair[0].LenOf[0], pair[1].LenOf[0]
			if genIv(ga) != genIv(a) || genIv(gb) != genIv(b) {
				continue
			}
			oka, _ := r.covered(g, ga)
			okb, _ := r.covered(g, gb)
			if (oka || !strings.Contains(ga, "[iv")) && (okb || !strings.Contains(gb, "[iv")) {
				return true
			}
		}
	}
	return false
}

func lenIs(v *Val, path string) bool {
	return v != nil && len(v.LenOf) == 1 && v.LenOf[0] == path
}

// covered: every index selector of the (definite) access path is the induction variable of a loop that encloses
// the record and fully ranges over the prefix collection; constant indices are allowed only as listed (fixed arrays).
func (r *Run) covered(rec *Rec, path string) (bool, string) {
	return r.coveredAssuming(rec, path, nil)
}

// coveredAssuming: like covered, but loop id → collection pairs in assume have been shown full by other means
func (r *Run) coveredAssuming(rec *Rec, path string, assume map[int]string) (bool, string) {
	sels := splitSel(path)
	prefix := ""
	for _, s := range sels {
		if strings.HasPrefix(s, "[") {
			switch {
			case strings.HasPrefix(s, "[iv"):
				id := atoi(s[3 : len(s)-1])
				if !hasInt(rec.Loops, id) {
					return false, fmt.Sprintf("index %s of %s is not an induction variable of a loop enclosing the call", s, prefix)
				}
				if assume != nil && assume[id] == prefix {
					break
				}
				if okk, why := r.loopFull(id, prefix, rec); !okk {
					return false, why
				}
			case strings.HasPrefix(s, "[s:"):
				return false, "only the sub-slice " + prefix + s + " is covered"
			case s == "[?]":
				return false, "index into " + prefix + " is not a loop induction variable"
			case strings.HasPrefix(s, "[e:"):
				return false, "index into " + prefix + " is a computed expression " + s + " (coverage of the whole list is not shown by this access)"
			}
		}
		prefix += s
	}
	return true, ""
}

// patRe turns a path pattern with [] wildcards into a regexp over concrete paths: a.b[].c[0] → ^a\.b\[iv\d+\]\.c\[0\]$
func patRe(pat string) *regexp.Regexp {
	q := regexp.QuoteMeta(pat)
	q = strings.ReplaceAll(q, `\[\]`, `\[[^\]]*\]`)
	return regexp.MustCompile("^" + q + "$")
}

// findCovering searches the records of the given kind for one that must execute and whose argument argIdx is
// definitely the element at pattern pat, with full loop coverage. Returns the matched sites or the best diagnosis.
func (r *Run) findCovering(kind string, argIdx int, pat string, extra func(*Rec) bool) ([]string, string) {
	re := patRe(pat)
	var why []string
	var sites []string
	for _, rec := range r.Recs {
		if rec.Kind != kind || argIdx >= len(rec.Args) || rec.Args[argIdx] == nil {
			continue
		}
		a := rec.Args[argIdx]
		matched := ""
		for _, p := range a.Dir {
			if re.MatchString(p) {
				matched = p
			}
		}
		if matched == "" {
			continue
		}
		if extra != nil && !extra(rec) {
			continue
		}
		assume := map[int]string{}
		if p, okk := a.Definite(); !okk || p != matched {
			// a loop over a literal table of lists (for _, l := range [][]T{a, b, c} { for _, x := range l { … } }):
			// the argument is "one of" a[i], b[i], c[i] and the inner loop is bounded by "one of" their lengths — by
			// construction the same one. Accepted when the table's content is exactly those lists and its loop is full.
			k, okT, whyT := r.tableDriven(rec, a, matched)
			if !okT {
				why = append(why, fmt.Sprintf("%s: argument may also be something other than %s (%s)%s", r.site(rec), matched, a.short(1), whyT))
				continue
			}
			assume = k
		}
		if !rec.Must {
			why = append(why, fmt.Sprintf("%s: does not execute on every path / every iteration (conditional, continue or early exit around it)", r.site(rec)))
			continue
		}
		if okk, w := r.coveredAssuming(rec, matched, assume); !okk {
			why = append(why, fmt.Sprintf("%s: %s", r.site(rec), w))
			continue
		}
		sites = append(sites, r.site(rec))
	}
	if len(sites) > 0 {
		return sites, ""
	}
	if len(why) == 0 {
		return nil, "no " + kind + " constraint is applied to " + pat + " anywhere on the paths from " + r.Entry.Name()
	}
	return nil, strings.Join(why, " | ")
}

// depsHave: the value's may-dependencies include an atom compatible with the path pattern (prefix either way).
func (r *Run) depsHave(v *Val, pat string) bool {
	if v == nil {
		return false
	}
	g := genPath(strings.ReplaceAll(pat, "[]", "[*]"))
	for _, n := range r.In.Atoms.Names(r.In.AllDeps(v)) {
		if n == g || strings.HasPrefix(n, g+".") || strings.HasPrefix(n, g+"[") || strings.HasPrefix(g, n+".") || strings.HasPrefix(g, n+"[") {
			return true
		}
	}
	return false
}

func (r *Run) depsHaveAll(v *Val, pats ...string) (bool, string) {
	for _, p := range pats {
		if !r.depsHave(v, p) {
			return false, p
		}
	}
	return true, ""
}

func (r *Run) hasTag(v *Val, tag string) bool {
	if v == nil {
		return false
	}
	for _, n := range r.In.Atoms.Names(r.In.AllDeps(v)) {
		if n == "via:"+tag {
			return true
		}
	}
	return false
}

// leaf enumeration over a struct type: access-path patterns of every leaf whose type satisfies pred.
func leafPaths(t types.Type, prefix string, pred func(types.Type) bool, out *[]string, depth int) {
	if depth > 12 {
		return
	}
	if pred(t) {
		*out = append(*out, prefix)
		return
	}
	switch u := t.Underlying().(type) {
	case *types.Struct:
		for i := 0; i < u.NumFields(); i++ {
			leafPaths(u.Field(i).Type(), prefix+"."+u.Field(i).Name(), pred, out, depth+1)
		}
	case *types.Slice:
		leafPaths(u.Elem(), prefix+"[]", pred, out, depth+1)
	case *types.Array:
		leafPaths(u.Elem(), prefix+"[]", pred, out, depth+1)
	case *types.Pointer:
		leafPaths(u.Elem(), prefix, pred, out, depth+1)
	}
}

func typeIs(t types.Type, names ...string) bool {
	s := types.TypeString(t, shortQual)
	for _, n := range names {
		if s == n {
			return true
		}
	}
	return false
}

// tableDriven: see findCovering. Returns the loops it has shown full (loop id → collection path).
func (r *Run) tableDriven(rec *Rec, a *Val, matched string) (map[int]string, bool, string) {
	if a == nil || a.Mixed || len(a.Dir) < 2 {
		return nil, false, ""
	}
	// the selector of the matched path that indexes the list whose loop has a multi-valued bound
	sels := splitSel(matched)
	prefix := ""
	for si, sel := range sels {
		if strings.HasPrefix(sel, "[iv") {
			id := atoi(sel[3 : len(sel)-1])
			ld := r.In.Loops[id]
			if ld != nil && ld.Bound != nil && len(ld.Bound.LenOf) == len(a.Dir) && hasInt(rec.Loops, id) {
				rest := strings.Join(sels[si:], "")
				// every alternative of the argument is <list_j><rest>, and the lists are exactly the loop's bounds
				var lists []string
				for _, p := range a.Dir {
					if !strings.HasSuffix(p, rest) {
						return nil, false, ""
					}
					lists = append(lists, strings.TrimSuffix(p, rest))
				}
				sort.Strings(lists)
				bounds := append([]string(nil), ld.Bound.LenOf...)
				sort.Strings(bounds)
				if strings.Join(lists, "|") != strings.Join(bounds, "|") {
					return nil, false, " — the inner loop is bounded by other lists than the ones indexed"
				}
				sl := ld.S
				if !sl.Counted || !sl.SingleExit || sl.Step != 1 || sl.StartConst == nil || *sl.StartConst != 0 || (sl.Op != token.LSS && sl.Op != token.NEQ) {
					return nil, false, " — the inner loop is not a full 0..len-1 loop"
				}
				// an enclosing loop that is full over a local table whose content is exactly these lists
				for _, tid := range rec.Loops {
					if tid == id {
						break
					}
					tl := r.In.Loops[tid]
					if tl == nil || tl.Bound == nil || tl.Bound.Aux == nil || len(tl.Bound.LenOf) != 1 || !strings.HasPrefix(tl.Bound.LenOf[0], "c:") {
						continue
					}
					seq, ok := r.In.seqOf(tl.Bound.Aux)
					if !ok || len(seq) != len(lists) {
						continue
					}
					var content []string
					okSeq := true
					for _, e := range seq {
						p, def := e.Definite()
						if !def {
							okSeq = false
						}
						content = append(content, p)
					}
					sort.Strings(content)
					if !okSeq || strings.Join(content, "|") != strings.Join(lists, "|") {
						continue
					}
					if okk, _ := r.loopFull(tid, tl.Bound.LenOf[0], rec); !okk {
						continue
					}
					return map[int]string{id: prefix}, true, ""
				}
				return nil, false, " — no full loop over a literal table holding exactly these lists encloses the call"
			}
		}
		prefix += sel
	}
	return nil, false, ""
}
