package main

func cmdCheck(ids []string, tier string) int { return 0 }
func cmdReplay(f string) int                 { return 0 }
