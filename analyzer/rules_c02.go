package main

// C02 — valid proofs are accepted under every range-check configuration (partial): alignment of every width
// that can reach the commit-based checker (W3, including the configuration-dependent proof-of-work width for
// every circuit description in the repository), and the dispatch obligations of C06.

import (
	"encoding/json"
	"fmt"
	"io/fs"
	"os"
	"path/filepath"
	"strings"
)

func rulesC02(cx *Ctx) []Obligation {
	obs := rulesW3(cx, "C02")
	// the only configuration-dependent width must be 64 − ProofOfWorkBits
	nInfo := 0
	for i := range obs {
		if obs[i].Status == INFO {
			nInfo++
			if !strings.Contains(obs[i].Detail, "64:uint64 - ") {
				obs[i].Status = UNDECIDED
				obs[i].Detail = "a non-constant width other than 64 − ProofOfWorkBits reaches the range primitive: " + obs[i].Detail
			}
		}
	}
	// evaluate it for every circuit description found in the repository
	root := filepath.Dir(cx.P.Dir)
	var files []string
	filepath.WalkDir(root, func(p string, d fs.DirEntry, err error) error {
		if err != nil {
			return nil
		}
		if d.IsDir() && (d.Name() == ".git" || d.Name() == "target" || d.Name() == "node_modules") {
			return filepath.SkipDir
		}
		if !d.IsDir() && d.Name() == "common_circuit_data.json" {
			files = append(files, p)
		}
		return nil
	})
	base := int64(16)
	for _, f := range files {
		rel, _ := filepath.Rel(root, f)
		key := "C02/W3/pow-width/" + rel
		desc := "for this circuit description, 64 − proof_of_work_bits (the width of the proof-of-work check) is a positive multiple of the commit checker's base width 16, so the verifier can be built for Groth16/PLONK builders"
		b, err := os.ReadFile(f)
		if err != nil {
			obs = append(obs, undecided(key, desc, err.Error()))
			continue
		}
		var doc struct {
			Config struct {
				Fri struct {
					Pow *int64 `json:"proof_of_work_bits"`
				} `json:"fri_config"`
			} `json:"config"`
			FriParams struct {
				Config struct {
					Pow *int64 `json:"proof_of_work_bits"`
				} `json:"config"`
				Hiding bool `json:"hiding"`
			} `json:"fri_params"`
		}
		if err := json.Unmarshal(b, &doc); err != nil || doc.FriParams.Config.Pow == nil {
			obs = append(obs, undecided(key, desc, "cannot read proof_of_work_bits"))
			continue
		}
		pow := *doc.FriParams.Config.Pow
		w := 64 - pow
		switch {
		case doc.Config.Fri.Pow != nil && *doc.Config.Fri.Pow != pow:
			obs = append(obs, bad(key, desc, fmt.Sprintf("config.fri_config.proof_of_work_bits = %d but fri_params.config.proof_of_work_bits = %d", *doc.Config.Fri.Pow, pow), rel))
		case w <= 0 || w%base != 0:
			obs = append(obs, bad(key, desc, fmt.Sprintf("proof_of_work_bits = %d gives width %d, not a positive multiple of %d: the deferred drain of the commit checker panics", pow, w, base), rel))
		default:
			obs = append(obs, good(key, desc, fmt.Sprintf("%s: proof_of_work_bits %d → width %d", rel, pow, w)))
		}
	}
	if len(files) == 0 {
		obs = append(obs, Obligation{Key: "C02/W3/pow-width/none", Desc: "circuit descriptions in the repository are evaluated", Status: INFO, Detail: "no common_circuit_data.json found"})
	}
	for _, o := range rulesC06(cx) {
		obs = append(obs, o)
	}
	// the 97-input inner circuit's public-input hash ends in a partial chunk: the sponge must keep the previous
	// lanes there (plonky2's overwrite mode), otherwise that honest proof is rejected under every backend
	for _, o := range ruleSpongeOverwrite(cx) {
		o.Key = "C02/honest-pi-hash/" + strings.TrimPrefix(o.Key, "C09/O9.4/")
		obs = append(obs, o)
	}
	obs = append(obs, rulesW2(cx)...)
	obs = append(obs, rulesHintBodies(cx, "C02")...)
	return obs
}
