package main

import (
	"encoding/json"
	"fmt"
	"os"
	"runtime/debug"
	"sort"
	"strings"
	"time"
)

type propDef struct {
	ID    string
	Rules func(cx *Ctx) []Obligation
	Expl  string
	Rule  string
	Floor int // minimum number of obligations (hand-confirmed table size): fewer means the rule matched vacuously
}

var trustedBase = []string{
	"go/types + go/ssa (golang.org/x/tools v0.29.0) represent the build the tests use",
	"gnark v0.9.1 API semantics as tabled in analyzer/calls.go: AssertIsEqual/AssertIsBoolean/AssertIsDifferent/AssertIsLessOrEqual, Rangechecker.Check, ToBinary, bits.ToBinary emit constraints; Add/Mul/Sub/MulAcc/Select/Lookup2/IsZero/FromBinary/NewHint/Defer only compute",
	"emulated.Goldilocks{}.Modulus() = 2^64-2^32+1; BN254 scalar field r",
	"the frozen obligation tables in analyzer/rules_*.go, derived by reading this code against plonky2's verifier",
}

var props = map[string]*propDef{}

func registerProp(p *propDef) { props[p.ID] = p }

func propIDs() []string {
	var ids []string
	for id := range props {
		ids = append(ids, id)
	}
	sort.Strings(ids)
	return ids
}

func cmdCheck(ids []string, tier string) int {
	if tier != "quick" && tier != "thorough" {
		fmt.Println("tier must be quick or thorough")
		return 2
	}
	if len(ids) == 0 {
		ids = propIDs()
	}
	for _, id := range ids {
		if props[id] == nil {
			fmt.Printf("unknown or unclaimed property %s (claimed: %v)\n", id, propIDs())
			return 2
		}
	}
	t0 := time.Now()
	P, err := Load(repoDir())
	if err != nil {
		fmt.Println("UNDECIDED: cannot load the module:", err)
		for _, id := range ids {
			fmt.Printf("VIOLATION property=%s replay=%s\n", id, "/verif/replay/load-error.json")
		}
		os.MkdirAll(verifDir()+"/replay", 0o755)
		os.WriteFile(verifDir()+"/replay/load-error.json", []byte(fmt.Sprintf("{\"error\": %q}\n", err.Error())), 0o644)
		return 1
	}
	fmt.Printf("loaded %s: %d packages, %d module functions, %d blocks (%.1fs)\n", P.Dir, len(P.Pkgs), P.NFuncs, P.NBlock, time.Since(t0).Seconds())
	if len(P.Pkgs) < 10 || P.NFuncs < 200 {
		fmt.Println("UNDECIDED: fewer packages/functions than the module has — the build was not fully loaded")
		for _, id := range ids {
			fmt.Printf("VIOLATION property=%s replay=%s\n", id, "/verif/replay/load-error.json")
		}
		return 1
	}
	rc := 0
	cx := NewCtx(P, tier)
	for _, id := range ids {
		t1 := time.Now()
		pd := props[id]
		var obs []Obligation
		func() {
			defer func() {
				if e := recover(); e != nil {
					if os.Getenv("GLCHECK_STACK") != "" {
						fmt.Fprintln(os.Stderr, string(debug.Stack()))
					}
					obs = append(obs, undecided(id+"/engine/panic", "the analysis completes", fmt.Sprint(e)))
				}
			}()
			obs = pd.Rules(cx)
		}()
		n := 0
		for _, o := range obs {
			if o.Status != INFO {
				n++
			}
		}
		if n < pd.Floor {
			obs = append(obs, undecided(id+"/engine/floor", "the rule tables produce at least the hand-confirmed number of obligations", fmt.Sprintf("%d obligations evaluated, expected at least %d", n, pd.Floor)))
		}
		pr := &PropResult{ID: id, Obs: obs, Explanation: pd.Expl, Rule: pd.Rule, Trusted: trustedBase,
			Assumptions: []string{"static analysis of the source: nothing is executed; see DESIGN.md §7 for the trusted base and limits"}}
		if Report(cx, pr, time.Since(t0)+0*time.Since(t1)) > 0 {
			rc = 1
		}
	}
	return rc
}

func cmdReplay(file string) int {
	b, err := os.ReadFile(file)
	if err != nil {
		fmt.Println(err)
		return 2
	}
	var rp struct {
		Property string `json:"property"`
		Key      string `json:"key"`
	}
	if err := json.Unmarshal(b, &rp); err != nil || props[rp.Property] == nil {
		fmt.Println("not a replay file of this checker")
		return 2
	}
	P, err := Load(repoDir())
	if err != nil {
		fmt.Println("cannot load:", err)
		return 1
	}
	cx := NewCtx(P, "quick")
	os.Setenv("GLCHECK_NO_EVIDENCE", "1")
	obs := props[rp.Property].Rules(cx)
	finalizeKeys(obs)
	for _, o := range obs {
		if o.Key == rp.Key {
			fmt.Printf("%s: %s\n  rule: %s\n  %s %v\n", o.Key, o.Status, o.Desc, o.Detail, o.Sites)
			if o.Status == OK || o.Status == INFO {
				fmt.Println("the obligation holds on the current tree")
				return 0
			}
			fmt.Printf("VIOLATION property=%s replay=%s\n", rp.Property, file)
			return 1
		}
	}
	fmt.Println("obligation", rp.Key, "is no longer generated")
	return 1
}

func withC06(f func(cx *Ctx) []Obligation) func(cx *Ctx) []Obligation {
	return func(cx *Ctx) []Obligation {
		obs := f(cx)
		// a backend that drops range checks voids every bound these rules rely on
		for _, o := range rulesC06(cx) {
			obs = append(obs, o)
		}
		return obs
	}
}

func init() {
	registerProp(&propDef{ID: "C03", Rules: withState("C03", withC06(rulesC03)), Floor: 24,
		Expl: "In CircuitFixed.Define: the 16-public-inputs refusal; every element of the public [4] array is asserted equal to a loop accumulator acc' = limb + M·acc (recurrence shape extracted from the SSA phi), whose limbs are elements [j·T,(j+1)·T) of the inner proof's public inputs (partition of all 16); the same slice element is range-checked on every path to a width w with 2^w ≤ M (injectivity: HashNoPad reduces inputs mod p, so the inner proof fixes limbs only mod p); M^T ≤ 2^128. Plus C06: the width checks relied on are live in every backend configuration (dispatch, deferred drain, the chip that collects them is never copied).",
		Rule: "one obligation per clause O3.1–O3.4, plus the C06 obligations"})
	registerProp(&propDef{ID: "C04", Rules: withState("C04", rulesC04), Floor: 5,
		Expl: "For every circuit type of the module whose Define reaches VerifierChip.Verify, the verifierData argument is definitely a field of the circuit and that field's gnark visibility (struct tag parsed like gnark's schema walker) is '-' or public, i.e. not chosen by the prover. Liveness of the key (digest absorbed first, ConstantSigmasCap is caps[0]) is decided under C11 and C12.",
		Rule: "one obligation per circuit type reaching the verifier"})
	registerProp(&propDef{ID: "C11", Rules: withState("C11", func(cx *Ctx) []Obligation {
		return append(rulesC11(cx), ruleNoCopy(cx, "C11", "challenger", "Chip", "it owns the sponge state and the input/output buffers of the transcript")...)
	}), Floor: 25,
		Expl: "Event-sequence analysis of the challenge derivation reachable from VerifierChip.Verify: the calls to the two transcript primitives (ObserveElement / GetChallenge) are extracted with their static call paths in control-flow order; every squeeze is identified by the challenge field that receives its result (result tagging by call path), every observation by the proof data it depends on; the collapsed sequence must equal plonky2's order; every event executes on every path inside full-range loops over the observed lists; the openings' content order (append-chain content-sequence analysis) is the reference order at both uses; ObserveElement must-stores an empty output buffer; the challenger (sponge state and buffers) is never copied. The sponge arithmetic over arbitrary histories is not decided.",
		Rule: "one obligation for the order, one per distinct event (binding/coverage), one for the openings order, one for the buffer reset"})
	registerProp(&propDef{ID: "C01", Floor: 109, Rules: func(cx *Ctx) []Obligation {
		obs := append(rulesC01Own(cx), rulesConfigCoverage(cx, "C01/O1.4")...)
		for _, f := range []func(*Ctx) []Obligation{rulesC11, rulesC12, rulesC13, rulesC14, rulesC15, rulesC16, rulesC17, rulesC20, rulesC06} {
			obs = append(obs, f(cx)...)
		}
		obs = append(obs, rulesHygiene(cx, "C01")...)
		return obs
	},
		Expl: "Structural necessary conditions of 'tampered or mismatched proofs are rejected': (own) both circuits call VerifierChip.Verify on every path with their own fields; Verify calls the PLONK check and FRI verification on every path with the derived challenges, HashNoPad(publicInputs), the proof's openings/opening proof and the caps in order; every input leaf of the proof, the verifier data and the public inputs (enumerated from the types) influences at least one must-executed constraint; (union) the obligations of C11 (binding and order of the transcript), C12, C13, C14, C16, C17, C20 and C06; (state) no package-level or chip-level state survives from one circuit, proof or call to the next (tabled exceptions). Decides that every input is bound and every verification equation is emitted on every path for every element — not that the equations are the right polynomials.",
		Rule: "own wiring/liveness obligations plus the union of the listed properties' obligations (C06 C11 C12 C13 C14 C15 C16 C17 C20)"})
	registerProp(&propDef{ID: "C18", Rules: withState("C18", rulesC18), Floor: 210,
		Expl: "Regular-language analysis of the gate registry: the 14 patterns are read from the program (constant arguments of regexp.MustCompile stored under the keys of gateRegexHandlers), compiled with regexp/syntax and wrapped as 'contains a match' (the lookup is unanchored); by product/subset constructions against a reference grammar of plonky2's Debug-format identifiers it is decided that every supported identifier is matched by its own pattern and by no other (so the result is independent of Go's randomised map iteration), that identifiers of unimplemented gates (lookup, lookup-table, u32 arithmetic/add-many/subtraction/range-check, comparison, interleave gates, other extension degrees) match no pattern or are refused by the handler; plus: the no-match exit panics and every return is a handler result; each capture group flows through an error-checked strconv parse into the field of the same meaning (dependency analysis per constant map key); registry ↔ Gate implementations is a bijection; circuits with hiding are refused.",
		Rule: "one obligation per (gate template × pattern), per unimplemented template, per capture group, per parse call, per registry entry"})
	registerProp(&propDef{ID: "C19", Rules: withState("C19", rulesC19), Floor: 78,
		Expl: "Decoder discipline: every json.Unmarshal error is checked and refuses (including inside the custom UnmarshalJSON methods); every leaf of the raw decoder structs is uint64/string/bool (so encoding/json itself refuses negative, fractional, over-64-bit values and scalars for lists); every big.Int.SetString uses constant base 10 and its result is used unmerged; copy completeness (each Goldilocks/BN254 leaf of the decoded proof and verifier data depends on the raw field of the same name and on no other raw field — dependency analysis of the decoding entry points); position (every copy loop reachable from the decoders is a plain 0..len-1 loop over a complete list and accesses elements at its own index); unconditional copy (O19.6: every store, append and call of a decoding function executes on every non-refusing path, once per iteration of its loops — no data-dependent skip). Value equality for arbitrary documents is not decided; ReadCommonCircuitData's configuration copy is covered by the positive tests' exact expectations.",
		Rule: "one obligation per Unmarshal site, raw type, SetString site, decoded leaf, copy loop"})
	registerProp(&propDef{ID: "C02", Rules: withState("C02", rulesC02), Floor: 44,
		Expl: "Partial: (W3) every constant width that reaches the n-bit range primitive through the static call graph is a multiple of the commit checker's base width, the only configuration-dependent width is 64 − ProofOfWorkBits and it is a positive multiple of 16 for every common_circuit_data.json in the repository (else commit-based builds panic in the deferred drain); (dispatch) C06's obligations — no backend skips or mis-selects checks, so the verdict cannot depend on the backend through a dropped constraint; (W2) honest fit by the magnitude analysis (abstract interpretation of the gadget layer over upper bounds, context-sensitive, constant-propagating loop counters): in every context reaching a reduction the value is below p·2^n for the quotient width in force, every operand reaching MulAdd / Inverse is canonical (the hints refuse larger ones), no intermediate value reaches the BN254 field, and upper-layer functions exchange canonical values only — for every configuration and proof shape, under the stated input assumption (proof data and constants canonical); (sponge) a partial last chunk keeps the previous lanes, as needed for the 97-input circuit; (HB) honest hints fit: for every NewHint site the outputs are traced (field- and call-site-sensitive) to the range check their gadget applies, and an interval analysis of the hint body with the facts of its dominating branches shows that the value stored into results[k] stays below that bound on every path returning nil and is never a possibly-nil *big.Int. Acceptance of concrete proofs (the algebraic identities themselves) is not decided.",
		Rule: "one obligation per width reaching the range primitive, per circuit description, per C06 rule, per reduction / hint-operand site (worst case over contexts), per package for the interface invariant"})
	registerProp(&propDef{ID: "C10", Rules: withState("C10", func(cx *Ctx) []Obligation {
		return append(append(rulesC10(cx), rulesMulAcc(cx, "C10", "poseidon")...), ruleNoEmptyLimb(cx)...)
	}), Floor: 12,
		Expl: "Narrow structural clauses only — the injectivity half of C10: in HashNoPad and HashOrNoop the limbs are packed by a loop accumulator acc' = acc + limb_k·base^k (recurrence extracted from the SSA phi; base a compile-time constant ≥ 2^64; exponent = the limb's own index; number of limbs per element bounded — by the slice bounds lo+c / min(_, lo+c) or by a dominating len(input) ≤ c — with base^T ≤ r), and ToVec splits the canonical bit decomposition (no explicit width) into consecutive disjoint chunks of ≤ 63 bits. Plus the MulAcc accumulator discipline (MA) at every MulAcc site of the poseidon package (BN254 permutation, packing): the accumulator is owned and dead after the call, so the computed hash does not depend on the R1CS builder re-using storage. Plus absorb tiling: the chunk and limb loops of HashNoPad tile [0, len(input)) — start 0, while index < len, stride equal to the width of the window [i, min(len, i+W)) — so every element is absorbed exactly once for every length; every return of HashNoPad hands back element 0 of the sponge state (no shortcut return for some lengths). Agreement of the BN254 Poseidon permutation, sponge and shortcut with the reference PoseidonBN128 for all inputs is numeric and not decided.",
		Rule: "one obligation per packing accumulator, for the chunking, the tiling, and per MulAcc site"})
	registerProp(&propDef{ID: "C15", Rules: withState("C15", rulesC15), Floor: 10,
		Expl: "Narrow structural clauses only — the selector-filtering and position-wise-sum half of C15, decided on the SSA of plonk/gates: EvaluateGateConstraints calls evalFiltered once for every gate with the gate's own row, selectorIndices[i], groups[selectorIndices[i]] and NumSelectors(); the results are added position-wise into a zeroed vector of numGateConstraints that is returned; evalFiltered reads the selector constant before RemovePrefix, strips exactly numSelectors constants before the gate sees them, multiplies every returned constraint by the filter; computeFilter is ∏(i−s) over [start,end) skipping exactly i = row, times (UNUSED_SELECTOR−s) iff several selectors, UNUSED_SELECTOR = 2^32−1. Equality of each Gate.EvalUnfiltered with plonky2's gate polynomial for all wire values is numeric and NOT decided.",
		Rule: "one obligation per structural clause of the filter/sum code"})
	registerProp(&propDef{ID: "C20", Rules: withState("C20", func(cx *Ctx) []Obligation {
		obs := append(rulesC20(cx), ruleNoRecover(cx, "C20")...)
		for _, o := range rulesC11(cx) {
			if strings.HasPrefix(o.Key, "C11/O11.2/openings-content-order") || o.Key == "C11/O11.3/binds/observe:Openings" {
				o.Key = "C20/bound/" + strings.TrimPrefix(o.Key, "C11/")
				obs = append(obs, o)
			}
		}
		return obs
	}), Floor: 22,
		Expl: "T3 guard table: 18 refusals reachable from VerifierChip.Verify keyed by the compared quantities (lengths of proof lists vs configuration values, normalised to 'continues iff X op Y'), each must execute on every path and for every element of the list it validates (full-range loops); plus the 16-public-inputs refusal of CircuitFixed.Define and the hiding refusal of ReadCommonCircuitData. Decides presence, operator and coverage of the guards; that a shape change not covered by a guard is rejected by the equations is not decided.",
		Rule: "one obligation per guard of the hand-confirmed table (DESIGN appendix A.4); the same comparison made at several sites must be found at each"})
	registerProp(&propDef{ID: "C17", Rules: withState("C17", withC06(rulesC17)), Floor: 36,
		Expl: "T2 field coverage generated from go/types: for every Goldilocks-typed leaf of variables.Proof (both coordinates of extension values) the canonical range check gl.Chip.RangeCheck is applied to the element itself on every path from VerifierChip.Verify, inside full-range loops over the complete field (no narrowing slice, no conditional, no early exit). That the canonical range check is a real check in every backend is C06 (included). Adding a Goldilocks field to the proof structure without extending the sweep is a violation by construction.",
		Rule: "one obligation per leaf access path and coordinate (enumerated from the type), each discharged by a distinct call path"})
	registerProp(&propDef{ID: "C14", Rules: withState("C14", withC06(func(cx *Ctx) []Obligation {
		obs := append(rulesC14(cx), rulesW3(cx, "C14")...)
		// the difficulty the width is computed from is the document's: every ProofOfWorkBits field of the decoded
		// configuration is loaded from the raw field of the same name (C19's configuration-copy obligations)
		for _, o := range ruleConfigCopy(cx) {
			if strings.Contains(o.Key, "ProofOfWorkBits") || strings.HasSuffix(o.Key, "/anchor") {
				o.Key = "C14/O14.4/" + strings.TrimPrefix(o.Key, "C19/O19.4/")
				obs = append(obs, o)
			}
		}
		return obs
	})), Floor: 26,
		Expl: "From VerifierChip.Verify: an n-bit range check executes on every path on the value stored in FriChallenges.FriPowResponse of the derived challenges, with width expression 64 − <FRI config>.ProofOfWorkBits, and that value depends on the proof's PowWitness; the width check is live in every backend (C06 obligations) and constant widths are aligned (W3). The transcript order (witness observed before the response is squeezed) is C11's obligation. The arithmetic 'width w ⇔ ≥ 64−w leading zeros of a canonical 64-bit value' is argued in DESIGN.md, not checked.",
		Rule: "one obligation per clause"})
	registerProp(&propDef{ID: "C12", Rules: withState("C12", func(cx *Ctx) []Obligation { return append(rulesC12(cx), rulesC10(cx)...) }), Floor: 12,
		Expl: "From VerifierChip.Verify: per query round (loop covering every round, co-indexed by a refusal guard) and per tree, an equality executes on every path between a digest that depends on the opened leaf (both coordinates of all evaluations for commit-phase trees), on every sibling (full-range hashing loop) and on the query-index bits, and a cap entry selected by four bits from the top CapHeight bits of the same decomposition; initial tree t is compared against caps[t] in the order [ConstantSigmasCap, WiresCap, PlonkZsPartialProductsCap, QuotientPolysCap]. The leaf index of the commit-phase tree of step i comes from a cursor that accumulates over the reduction steps (O12.5). The Merkle path is folded unconditionally (O12.4): the running digest of the next level is exactly element 0 of the permutation applied at this level, feeds that permutation, and is compared as it is. Plus C10's structural clauses (the leaf is hashed through an injective, non-wrapping limb packing that absorbs every element once). Left/right ordering and the lookup arithmetic are pinned by the positive tests and not claimed.",
		Rule: "one obligation per tree family, index provenance, caps order, packing accumulator"})
	registerProp(&propDef{ID: "C13", Rules: withState("C13", rulesC13), Floor: 11,
		Expl: "Presence and coverage only: per round and step the two coordinate equalities between the bit-selected claimed evaluation and the running evaluation; after the steps the two equalities against the final polynomial at the folded point; the invertibility assertions; coverage of all rounds; the running evaluation is recomputed in every step from that step's data (no value stored into it in the step loop depends on its previous value) and is only ever compared (O13.6). The domain point, combination and interpolation formulas are not decided.",
		Rule: "one obligation per equality coordinate / assertion / loop coverage"})
	registerProp(&propDef{ID: "C16", Rules: withState("C16", func(cx *Ctx) []Obligation {
		return append(append(append(append(rulesC16(cx), rulesConfigCoverage(cx, "C16/O16.3")...), ruleC16Windows(cx)...), ruleC16ChainEnds(cx)...), append(ruleC16ChainLinks(cx), ruleC16Strides(cx)...)...)
	}), Floor: 10,
		Expl: "Presence and coverage only: for every challenge round (full-range loop, count = Config.NumChallenges) an extension equality (both coordinates) between the vanishing value (depending on gates, wires, sigmas, Z, Z(next), partial products, public-input hash, challenges) and Z_H·quotient (from QuotientPolys via ReduceWithPowers); the L₀ division asserts existence; the partial-product openings are read through consecutive per-round windows (O16.5); the chain of running products is closed at both ends on every path — Z(ζ) and Z(gζ) are read and used unconditionally by the function that closes the chain, so a shape with no partial products still gets its check (O16.6); consecutive chain elements are linked n + 1 times (O16.7); a loop of package plonk that walks an extension list in strides of k ≥ 2 under a guard that protects its highest offset hands the leftover elements on, so no element of a chunk is dropped from its product (O16.8). The formula is not decided.",
		Rule: "one obligation per coordinate and assertion"})
	registerProp(&propDef{ID: "C05", Rules: withState("C05", withC06(func(cx *Ctx) []Obligation {
		obs := append(append(rulesC05(cx), rulesW3(cx, "C05")...), rulesMagnitude(cx, "C05")...)
		// the witnessed inverse is determined only if its product check is live for every invertible operand
		for _, o := range rulesC07(cx) {
			if strings.HasPrefix(o.Key, "C07/O7.1/") {
				o.Key = "C05/R1/Inverse/" + strings.TrimPrefix(o.Key, "C07/O7.1/")
				obs = append(obs, o)
			}
		}
		return obs
	})), Floor: 56,
		Expl: "R1 hint discipline (plus, for Inverse, the polarity of the guarded product check: compared for x ≠ 0, constant 1 for x = 0), generic over every Compiler().NewHint call of the module: each hint output is itself the argument of a must-executed range check (bound recorded) and a must-executed equality ties all outputs to all inputs; W1: both sides of each tying equality, evaluated as polynomial bounds over the enforced output bounds and the operand contract (< p), stay below the BN254 modulus, per constant quotient width reaching the site through the call graph (interprocedural constant propagation; globals only if never re-assigned); W3 alignment of every constant width reaching the n-bit range primitive; plus C06's obligations (a backend that drops checks voids the bounds). Decides uniqueness of the witnessed result (no wrap) structurally; does not bound operand magnitudes at every reduction site of the whole verifier (W2, see DESIGN).",
		Rule: "one obligation per hint output, per tying equality, per (hint site × reaching width), per width reaching the range primitive"})
	registerProp(&propDef{ID: "C07", Rules: withState("C07", func(cx *Ctx) []Obligation {
		obs := append(append(rulesC07(cx), rulesMulAcc(cx, "C07", "goldilocks")...), rulesParamRelevance(cx, "C07", func(n string) bool { return !strings.Contains(n, "Extension") && !strings.Contains(n, "Algebra") })...)
		return append(obs, rulesHintBodies(cx, "C07")...)
	}), Floor: 30,
		Expl: "Narrow structural clauses only: Inverse's product assertion is conditioned on IsZero(x) with the right polarity (x = 0 selects the constant 1, x ≠ 0 the product) and the flag is 1 − IsZero(x); Reduce forwards the never-reassigned constant RANGE_CHECK_NB_BITS ≥ 144; every reducing method of gl.Chip returns a hint output confined to [0,p) by a must-executed canonical range check. Plus the MulAcc accumulator discipline (MA) at every MulAcc site of the goldilocks package: the accumulator is owned and dead after the call, so the result does not depend on the R1CS builder re-using its storage. Plus honest hints (HB): every hint output stays below the bound of the range check its gadget applies, on every path of the hint body that returns nil, and no possibly-nil *big.Int is handed back (interval analysis of the hint bodies; inverse of zero must produce a value). Numerical exactness for all operands is not decided.",
		Rule: "one obligation per clause / per reducing method of gl.Chip (enumerated from the method set) / per MulAcc site"})
	registerProp(&propDef{ID: "C08", Rules: withState("C08", func(cx *Ctx) []Obligation {
		return append(append(append(rulesC08(cx), rulesC08Widths(cx)...), rulesMagnitude(cx, "C08")...), append(rulesParamRelevance(cx, "C08", func(n string) bool { return strings.Contains(n, "Extension") }), ruleStrides(cx, "C08/SC/stride-cover", "goldilocks")...)...)
	}), Floor: 43,
		Expl: "Narrow structural clauses only: InverseExtension must-asserts IsZero(a[0])·IsZero(a[1]) == 0 (zero test over both coordinates); DivExtension passes its divisor itself to InverseExtension on every path; every quotient width that reaches the witnessed reduction (including from the extension API) admits a single result (W1) and the reduction/MulAdd hint discipline holds (R1). The field identities are not decided. A loop of package goldilocks that walks an extension list in strides of k ≥ 2 under a guard protecting its highest offset hands the leftover on (SC).",
		Rule: "one obligation per clause"})
	registerProp(&propDef{ID: "C09", Rules: withState("C09", func(cx *Ctx) []Obligation {
		obs := append(append(append(rulesC09(cx), rulesC09Function(cx)...), ruleSpongeOverwrite(cx)...), ruleSpongeSqueeze(cx)...)
		return append(obs, ruleAbsorbTiling(cx, "C09/O9.4/absorb-tiling", "poseidon", "(*GoldilocksChip).HashNToMNoPad")...)
	}), Floor: 30,
		Expl: "Narrow structural clauses only: HashNoPad reduces every input (full-range loop) and hands only reduction results to the sponge; the permutation is a function: R1/W1 for every hint site reached from the Goldilocks Poseidon (widths of the s-box reductions); sibling constant tables used by the base and extension implementations agree element-wise and every table constant is < p; the sponge absorbs in overwrite mode, its chunk loop tiles [0, len(input)) (start 0, while i < len, stride = rate, element i+j with j < rate) and it squeezes from the rate part only. Equality with plonky2's Poseidon for all inputs is not decided.",
		Rule: "one obligation per clause, per reaching width, per table"})
	registerProp(&propDef{ID: "C06", Rules: withState("C06", rulesC06), Floor: 20,
		Expl: "Decides, on the type-checked SSA of package goldilocks, that every range check reaches a live checker in every backend configuration: enum-dispatch path analysis of the dispatcher for every declared RangeCheckerType constant; constructor path analysis (Defer of the drain iff COMMIT, installed checker matches kind, selector returns each kind only under the matching type assertions, overrides can only force bit decomposition); the drain covers every collected (value,width) with alignment refusals; the bit-decomposition checker decomposes to its own width; RangeCheck's limb split (two 32-bit limbs, recomposition multiplier 2^32 evaluated as a linear form, top-limb rule). Does not evaluate ranges numerically: that [0,p) / [0,2^n) is then exactly the accepted set follows from these obligations by the arithmetic argued in DESIGN.md and from gnark's checkers (trusted).",
		Rule: "one obligation per (rule, construct): enum constant × dispatcher, constructor path per kind, drain, checker, limb rules; each is non-trivial when it names a distinct program construct"})
}
