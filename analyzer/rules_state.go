package main

// GS / CS — no hidden state between circuits or proofs.
//
// A gnark circuit definition must be a function of its inputs. Two classes of regressions found by the seeded
// changes break that without touching any constraint: a value cached in a package-level variable (the first circuit
// defined in the process fixes it for every later one: a subgroup generator, digest limbs, a chip with its FRI
// parameters, packing weights shifted in place), and a value cached on a chip and never reset (alpha powers, filter
// terms, a "shape already validated" flag). Both are visible in the shape of the code:
//
//	GS  outside package initialisers nothing writes package-level state: no store rooted at a global, no update of a
//	    global map, no mutating *big.Int method on a value loaded from a global — with the tabled exception
//	CS  outside constructors nothing writes a field of a chip — with the tabled exceptions (the stateful chips)

import (
	"fmt"
	"go/types"
	"sort"
	"strings"

	"golang.org/x/tools/go/ssa"
)

var globalStateExceptions = map[string]string{
	"goldilocks.poseidonChips": "cache of Goldilocks chips keyed by the API instance: a chip's configuration (checker kind) is a function of the API instance only",
}

var chipStateExceptions = map[string]string{
	"goldilocks.Chip.rangeCheckCollected": "the deferred range-check collection (drained by the deferred checkCollected, C06)",
	"goldilocks.Chip.collectedMutex":      "guards the collection",
	"challenger.Chip.*":                   "the challenger is the transcript: all its fields are state of a chip created per proof (C11 fresh-challenger)",
}

var bigIntReadOnly = map[string]bool{"Cmp": true, "CmpAbs": true, "Sign": true, "Uint64": true, "Int64": true, "String": true, "Text": true,
	"BitLen": true, "Bit": true, "IsInt64": true, "IsUint64": true, "Bytes": true, "FillBytes": true, "ProbablyPrime": true, "Bits": true,
	"TrailingZeroBits": true, "Format": true, "Append": true, "MarshalJSON": true, "MarshalText": true, "GobEncode": true, "Float64": true}

// rootGlobal: the address / value v is rooted at a package-level variable of the module (through field, index and
// load steps); returns its qualified name
func rootGlobal(v ssa.Value, depth int) (string, bool) {
	if depth > 10 || v == nil {
		return "", false
	}
	switch x := v.(type) {
	case *ssa.Global:
		if x.Pkg != nil && strings.HasPrefix(x.Pkg.Pkg.Path(), ModPath) {
			return shortPkg(x.Pkg.Pkg) + "." + x.Name(), true
		}
	case *ssa.FieldAddr:
		return rootGlobal(x.X, depth+1)
	case *ssa.IndexAddr:
		return rootGlobal(x.X, depth+1)
	case *ssa.UnOp:
		return rootGlobal(x.X, depth+1)
	case *ssa.Field:
		return rootGlobal(x.X, depth+1)
	case *ssa.Index:
		return rootGlobal(x.X, depth+1)
	case *ssa.Slice:
		return rootGlobal(x.X, depth+1)
	case *ssa.ChangeType:
		return rootGlobal(x.X, depth+1)
	}
	return "", false
}

func circuitPackage(fn *ssa.Function) bool {
	switch fnPkgShort(fn) {
	case "goldilocks", "poseidon", "challenger", "fri", "plonk", "plonk/gates", "verifier", "variables", "types":
		return true
	}
	return false
}

func isInitFn(fn *ssa.Function) bool {
	for f := fn; f != nil; f = f.Parent() {
		if f.Name() == "init" || strings.HasPrefix(f.Name(), "init#") {
			return true
		}
	}
	return false
}

func rulesGlobalState(cx *Ctx, prop string) []Obligation {
	P := cx.P
	key := prop + "/GS/no-package-state"
	desc := "circuit code keeps no state in package-level variables: outside package initialisers nothing stores to a global, updates a global map or mutates a *big.Int held in a global (a value cached there would be fixed by the first circuit or call for all later ones)"
	var bad1 []string
	used := map[string]bool{}
	nFn := 0
	for _, fn := range P.ModuleFuncsSorted() {
		if !circuitPackage(fn) || isInitFn(fn) || len(fn.Blocks) == 0 {
			continue
		}
		nFn++
		for _, b := range fn.Blocks {
			for _, ins := range b.Instrs {
				g, what := "", ""
				switch x := ins.(type) {
				case *ssa.Store:
					if n, ok := rootGlobal(x.Addr, 0); ok {
						g, what = n, "is assigned"
					}
				case *ssa.MapUpdate:
					if n, ok := rootGlobal(x.Map, 0); ok {
						g, what = n, "is updated"
					}
				case *ssa.Call:
					callee := x.Common().StaticCallee()
					if callee != nil && callee.Signature.Recv() != nil && len(x.Common().Args) > 0 {
						rt := callee.Signature.Recv().Type().String()
						if rt == "*math/big.Int" && !bigIntReadOnly[callee.Name()] {
							if n, ok := rootGlobal(x.Common().Args[0], 0); ok {
								g, what = n, "is modified in place by (*big.Int)."+callee.Name()
							}
						}
					}
				}
				if g == "" {
					continue
				}
				if _, ok := globalStateExceptions[g]; ok {
					used[g] = true
					continue
				}
				bad1 = append(bad1, fmt.Sprintf("%s: package-level %s %s in %s", P.Pos(ins.Pos()), g, what, P.FnName(fn)))
			}
		}
	}
	if len(bad1) > 0 {
		sort.Strings(bad1)
		return []Obligation{undecided(key, desc, "state the table does not know (cannot show it is keyed by everything it depends on and reset where needed): "+strings.Join(bad1, "; "))}
	}
	var ex []string
	for g := range used {
		ex = append(ex, g+" ("+globalStateExceptions[g]+")")
	}
	sort.Strings(ex)
	return []Obligation{good(key, desc, fmt.Sprintf("%d functions scanned; tabled: %s", nFn, strings.Join(ex, "; ")))}
}

func rulesChipState(cx *Ctx, prop string) []Obligation {
	P := cx.P
	key := prop + "/CS/no-chip-state"
	desc := "chips carry no state from one call or proof to the next: outside constructors (New…) nothing writes a field of a chip, except the tabled stateful chips"
	var bad1 []string
	used := map[string]bool{}
	isChipPtr := func(t types.Type) (string, bool) {
		pt, ok := t.Underlying().(*types.Pointer)
		if !ok {
			return "", false
		}
		n, ok := pt.Elem().(*types.Named)
		if !ok || n.Obj().Pkg() == nil || !strings.HasPrefix(n.Obj().Pkg().Path(), ModPath) || !strings.HasSuffix(n.Obj().Name(), "Chip") {
			return "", false
		}
		if _, ok := n.Underlying().(*types.Struct); !ok {
			return "", false
		}
		return shortPkg(n.Obj().Pkg()) + "." + n.Obj().Name(), true
	}
	// the chip field an address / map value is rooted at
	var chipField func(v ssa.Value, depth int) (string, bool)
	chipField = func(v ssa.Value, depth int) (string, bool) {
		if depth > 8 || v == nil {
			return "", false
		}
		switch x := v.(type) {
		case *ssa.FieldAddr:
			if cn, ok := isChipPtr(x.X.Type()); ok {
				if _, isAlloc := x.X.(*ssa.Alloc); isAlloc {
					return "", false // a chip being built
				}
				return cn + "." + fieldName(x.X.Type(), x.Field), true
			}
			return chipField(x.X, depth+1)
		case *ssa.IndexAddr:
			return chipField(x.X, depth+1)
		case *ssa.UnOp:
			return chipField(x.X, depth+1)
		case *ssa.Slice:
			return chipField(x.X, depth+1)
		}
		return "", false
	}
	// constructors and the unexported helpers only constructors call (a constructor split into steps)
	ctor := map[*ssa.Function]bool{}
	callers := map[*ssa.Function][]*ssa.Function{}
	valueUse := map[*ssa.Function]bool{}
	for _, fn := range P.ModuleFuncsSorted() {
		if strings.HasPrefix(fn.Name(), "New") {
			ctor[fn] = true
		}
		for _, b := range fn.Blocks {
			for _, ins := range b.Instrs {
				if c, ok := ins.(ssa.CallInstruction); ok {
					if g := c.Common().StaticCallee(); g != nil {
						callers[g] = append(callers[g], fn)
					}
				}
				for _, op := range ins.Operands(nil) {
					if op == nil || *op == nil {
						continue
					}
					if g, ok := (*op).(*ssa.Function); ok {
						if c, isCall := ins.(ssa.CallInstruction); !isCall || c.Common().Value != ssa.Value(g) {
							valueUse[g] = true
						}
					}
				}
			}
		}
	}
	for changed := true; changed; {
		changed = false
		for _, fn := range P.ModuleFuncsSorted() {
			if ctor[fn] || valueUse[fn] || len(callers[fn]) == 0 || (fn.Object() != nil && fn.Object().Exported()) {
				continue
			}
			all := true
			for _, c := range callers[fn] {
				if !ctor[c] {
					all = false
				}
			}
			if all {
				ctor[fn] = true
				changed = true
			}
		}
	}
	n := 0
	for _, fn := range P.ModuleFuncsSorted() {
		if !circuitPackage(fn) || isInitFn(fn) || len(fn.Blocks) == 0 || ctor[fn] {
			continue
		}
		n++
		for _, b := range fn.Blocks {
			for _, ins := range b.Instrs {
				f, what := "", ""
				switch x := ins.(type) {
				case *ssa.Store:
					if n, ok := chipField(x.Addr, 0); ok {
						f, what = n, "is assigned"
					}
				case *ssa.MapUpdate:
					if n, ok := chipField(x.Map, 0); ok {
						f, what = n, "is updated"
					}
				}
				if f == "" {
					continue
				}
				if _, ok := chipStateExceptions[f]; ok {
					used[f] = true
					continue
				}
				if i := strings.LastIndex(f, "."); i > 0 {
					if _, ok := chipStateExceptions[f[:i]+".*"]; ok {
						used[f[:i]+".*"] = true
						continue
					}
				}
				bad1 = append(bad1, fmt.Sprintf("%s: chip field %s %s in %s", P.Pos(ins.Pos()), f, what, P.FnName(fn)))
			}
		}
	}
	if len(bad1) > 0 {
		sort.Strings(bad1)
		return []Obligation{undecided(key, desc, "state the table does not know (cannot show it is reset between proofs): "+strings.Join(bad1, "; "))}
	}
	var ex []string
	for g := range used {
		ex = append(ex, g)
	}
	sort.Strings(ex)
	return []Obligation{good(key, desc, fmt.Sprintf("%d functions scanned; tabled stateful fields written: %s", n, strings.Join(ex, ", ")))}
}

// withState adds the no-hidden-state obligations to a property that quantifies over several circuits, proofs or calls
func withState(prop string, f func(cx *Ctx) []Obligation) func(cx *Ctx) []Obligation {
	return func(cx *Ctx) []Obligation {
		obs := f(cx)
		obs = append(obs, rulesHygiene(cx, prop)...)
		return obs
	}
}

// rulesHygiene: the circuit definition is a function of its inputs — no hidden state, no builder-dependent fast
// path, no append that reaches into the caller's data
func rulesHygiene(cx *Ctx, prop string) []Obligation {
	var obs []Obligation
	obs = append(obs, rulesGlobalState(cx, prop)...)
	obs = append(obs, rulesChipState(cx, prop)...)
	obs = append(obs, ruleNoConstantFastPath(cx, prop)...)
	obs = append(obs, ruleNoAliasingAppend(cx, prop)...)
	return obs
}

// ruleNoRecover: refusals are panics (and gnark's builders report failed definition-time checks by panicking too);
// a recover() in circuit code turns a refusal into a successfully defined circuit with fewer constraints.
func ruleNoRecover(cx *Ctx, prop string) []Obligation {
	P := cx.P
	key := prop + "/refusal/not-recovered"
	desc := "no circuit-definition code recovers from a panic: a shape refusal that is recovered leaves a circuit that is defined successfully with only the constraints emitted before the refusal"
	var sites []string
	for _, fn := range P.ModuleFuncsSorted() {
		if !circuitPackage(fn) {
			continue
		}
		for _, b := range fn.Blocks {
			for _, ins := range b.Instrs {
				c, ok := ins.(ssa.CallInstruction)
				if !ok {
					continue
				}
				if bi, ok := c.Common().Value.(*ssa.Builtin); ok && bi.Name() == "recover" {
					sites = append(sites, P.Pos(ins.Pos())+" in "+P.FnName(fn))
				}
			}
		}
	}
	if len(sites) > 0 {
		sort.Strings(sites)
		return []Obligation{bad(key, desc, "recover() at "+strings.Join(sites, "; "))}
	}
	return []Obligation{good(key, desc, "no recover() in the circuit packages")}
}

// ruleNoConstantFastPath: gnark's test engine answers Compiler().ConstantValue with "not a constant" for every
// value, the real builders do not — a code path taken only for compile-time constants is therefore exercised by no
// test of this repository and makes a gadget compute differently in the compiled circuit. None exists today.
func ruleNoConstantFastPath(cx *Ctx, prop string) []Obligation {
	P := cx.P
	key := prop + "/NC/no-constant-fast-path"
	desc := "no circuit code branches on Compiler().ConstantValue: a path taken only for compile-time constants is invisible to the test engine (which never reports a constant) and changes what the compiled circuit computes"
	var sites []string
	for _, fn := range P.ModuleFuncsSorted() {
		if !circuitPackage(fn) {
			continue
		}
		for _, b := range fn.Blocks {
			for _, ins := range b.Instrs {
				c, ok := ins.(ssa.CallInstruction)
				if !ok || !c.Common().IsInvoke() || c.Common().Method == nil {
					continue
				}
				m := c.Common().Method
				if m.Name() == "ConstantValue" && m.Pkg() != nil && strings.HasPrefix(m.Pkg().Path(), "github.com/consensys/gnark/frontend") {
					sites = append(sites, P.Pos(ins.Pos())+" in "+P.FnName(fn))
				}
			}
		}
	}
	if len(sites) > 0 {
		sort.Strings(sites)
		return []Obligation{undecided(key, desc, "ConstantValue is consulted at "+strings.Join(sites, "; ")+" (cannot show both paths compute the same value)")}
	}
	return []Obligation{good(key, desc, "no use of ConstantValue in the circuit packages")}
}

// ruleNoAliasingAppend: append(x[a:b], …) writes into the backing array of x beyond b when capacity allows; if x is
// data the function received (a parameter, a field of one) the caller's later elements are silently overwritten.
func ruleNoAliasingAppend(cx *Ctx, prop string) []Obligation {
	P := cx.P
	key := prop + "/AP/no-aliasing-append"
	desc := "no append onto a truncated view x[a:b] of data the function received: the appended elements would be written into the caller's backing array beyond b (later elements of the caller's list change silently)"
	var rootedAtParam func(v ssa.Value, depth int) bool
	rootedAtParam = func(v ssa.Value, depth int) bool {
		if depth > 10 || v == nil {
			return false
		}
		switch x := v.(type) {
		case *ssa.Parameter:
			return true
		case *ssa.FieldAddr:
			return rootedAtParam(x.X, depth+1)
		case *ssa.Field:
			return rootedAtParam(x.X, depth+1)
		case *ssa.IndexAddr:
			return rootedAtParam(x.X, depth+1)
		case *ssa.Index:
			return rootedAtParam(x.X, depth+1)
		case *ssa.UnOp:
			return rootedAtParam(x.X, depth+1)
		case *ssa.Slice:
			return rootedAtParam(x.X, depth+1)
		case *ssa.Alloc:
			// a local copy of a parameter
			for _, r := range *x.Referrers() {
				if st, ok := r.(*ssa.Store); ok && st.Addr == ssa.Value(x) {
					if _, ok := st.Val.(*ssa.Parameter); ok {
						return true
					}
				}
			}
		}
		return false
	}
	var sites []string
	for _, fn := range P.ModuleFuncsSorted() {
		if !circuitPackage(fn) {
			continue
		}
		for _, b := range fn.Blocks {
			for _, ins := range b.Instrs {
				c, ok := ins.(*ssa.Call)
				if !ok {
					continue
				}
				bi, ok := c.Common().Value.(*ssa.Builtin)
				if !ok || bi.Name() != "append" || len(c.Common().Args) < 1 {
					continue
				}
				sl, ok := c.Common().Args[0].(*ssa.Slice)
				if !ok || sl.High == nil || sl.Max != nil {
					continue
				}
				if rootedAtParam(sl.X, 0) {
					sites = append(sites, P.Pos(ins.Pos())+" in "+P.FnName(fn))
				}
			}
		}
	}
	if len(sites) > 0 {
		sort.Strings(sites)
		return []Obligation{bad(key, desc, "append onto a truncated view of received data at "+strings.Join(sites, "; "))}
	}
	return []Obligation{good(key, desc, "no such append in the circuit packages")}
}
