package main

// GS / CS — no hidden state between circuits or proofs.
//
// A gnark circuit definition must be a function of its inputs. Two classes of regressions found by the seeded
// changes break that without touching any constraint: a value cached in a package-level variable (the first circuit
// defined in the process fixes it for every later one: a subgroup generator, digest limbs, a chip with its FRI
// parameters, packing weights shifted in place), and a value cached on a chip and never reset (alpha powers, filter
// terms, a "shape already validated" flag). Both are visible in the shape of the code:
//
//	GS  outside package initialisers nothing writes package-level state: no store rooted at a global, no update of a
//	    global map, no mutating *big.Int method on a value loaded from a global — with the tabled exception
//	CS  outside constructors nothing writes a field of a chip — with the tabled exceptions (the stateful chips)

import (
	"fmt"
	"go/token"
	"go/types"
	"sort"
	"strings"

	"golang.org/x/tools/go/ssa"
)

var globalStateExceptions = map[string]string{
	"goldilocks.poseidonChips": "cache of Goldilocks chips keyed by the API instance: a chip's configuration (checker kind) is a function of the API instance only",
}

var chipStateExceptions = map[string]string{
	"goldilocks.Chip.rangeCheckCollected": "the deferred range-check collection (drained by the deferred checkCollected, C06)",
	"goldilocks.Chip.collectedMutex":      "guards the collection",
	"challenger.Chip.*":                   "the challenger is the transcript: all its fields are state of a chip created per proof (C11 fresh-challenger)",
}

var bigIntReadOnly = map[string]bool{"Cmp": true, "CmpAbs": true, "Sign": true, "Uint64": true, "Int64": true, "String": true, "Text": true,
	"BitLen": true, "Bit": true, "IsInt64": true, "IsUint64": true, "Bytes": true, "FillBytes": true, "ProbablyPrime": true, "Bits": true,
	"TrailingZeroBits": true, "Format": true, "Append": true, "MarshalJSON": true, "MarshalText": true, "GobEncode": true, "Float64": true}

// rootGlobal: the address / value v is rooted at a package-level variable of the module (through field, index and
// load steps); returns its qualified name
func rootGlobal(v ssa.Value, depth int) (string, bool) {
	if depth > 10 || v == nil {
		return "", false
	}
	switch x := v.(type) {
	case *ssa.Global:
		if x.Pkg != nil && strings.HasPrefix(x.Pkg.Pkg.Path(), ModPath) {
			return shortPkg(x.Pkg.Pkg) + "." + x.Name(), true
		}
	case *ssa.FieldAddr:
		return rootGlobal(x.X, depth+1)
	case *ssa.IndexAddr:
		return rootGlobal(x.X, depth+1)
	case *ssa.UnOp:
		return rootGlobal(x.X, depth+1)
	case *ssa.Field:
		return rootGlobal(x.X, depth+1)
	case *ssa.Index:
		return rootGlobal(x.X, depth+1)
	case *ssa.Slice:
		return rootGlobal(x.X, depth+1)
	case *ssa.ChangeType:
		return rootGlobal(x.X, depth+1)
	}
	return "", false
}

func circuitPackage(fn *ssa.Function) bool {
	switch fnPkgShort(fn) {
	case "goldilocks", "poseidon", "challenger", "fri", "plonk", "plonk/gates", "verifier", "variables", "types":
		return true
	}
	return false
}

func isInitFn(fn *ssa.Function) bool {
	for f := fn; f != nil; f = f.Parent() {
		if f.Name() == "init" || strings.HasPrefix(f.Name(), "init#") {
			return true
		}
	}
	return false
}

func rulesGlobalState(cx *Ctx, prop string) []Obligation {
	P := cx.P
	key := prop + "/GS/no-package-state"
	desc := "circuit code keeps no state in package-level variables: outside package initialisers nothing stores to a global, updates a global map or mutates a *big.Int held in a global (a value cached there would be fixed by the first circuit or call for all later ones)"
	var bad1 []string
	used := map[string]bool{}
	nFn := 0
	// non-vacuity: the same matcher applied to the package initialisers (exempt) must find their global writes
	nInitWrites := 0
	for _, fn := range P.ModuleFuncsSorted() {
		if !circuitPackage(fn) || !isInitFn(fn) {
			continue
		}
		for _, b := range fn.Blocks {
			for _, ins := range b.Instrs {
				if st, ok := ins.(*ssa.Store); ok {
					if _, ok := rootGlobal(st.Addr, 0); ok {
						nInitWrites++
					}
				}
			}
		}
	}
	if nInitWrites == 0 {
		return []Obligation{undecided(key, desc, "the matcher for writes to package-level variables found none even in the package initialisers: the rule would pass vacuously")}
	}
	for _, fn := range P.ModuleFuncsSorted() {
		if !circuitPackage(fn) || isInitFn(fn) || len(fn.Blocks) == 0 {
			continue
		}
		nFn++
		for _, b := range fn.Blocks {
			for _, ins := range b.Instrs {
				g, what := "", ""
				switch x := ins.(type) {
				case *ssa.Store:
					if n, ok := rootGlobal(x.Addr, 0); ok {
						g, what = n, "is assigned"
					}
				case *ssa.MapUpdate:
					if n, ok := rootGlobal(x.Map, 0); ok {
						g, what = n, "is updated"
					}
				case *ssa.Call:
					callee := x.Common().StaticCallee()
					if callee != nil && callee.Signature.Recv() != nil && len(x.Common().Args) > 0 {
						rt := callee.Signature.Recv().Type().String()
						if rt == "*math/big.Int" && !bigIntReadOnly[callee.Name()] {
							if n, ok := rootGlobal(x.Common().Args[0], 0); ok {
								g, what = n, "is modified in place by (*big.Int)."+callee.Name()
							}
						}
					}
				}
				if g == "" {
					continue
				}
				if _, ok := globalStateExceptions[g]; ok {
					used[g] = true
					continue
				}
				bad1 = append(bad1, fmt.Sprintf("%s: package-level %s %s in %s", P.Pos(ins.Pos()), g, what, P.FnName(fn)))
			}
		}
	}
	if len(bad1) > 0 {
		sort.Strings(bad1)
		return []Obligation{undecided(key, desc, "state the table does not know (cannot show it is keyed by everything it depends on and reset where needed): "+strings.Join(bad1, "; "))}
	}
	var ex []string
	for g := range used {
		ex = append(ex, g+" ("+globalStateExceptions[g]+")")
	}
	sort.Strings(ex)
	return []Obligation{good(key, desc, fmt.Sprintf("%d functions scanned (the matcher finds %d global writes in the exempt package initialisers); tabled: %s", nFn, nInitWrites, strings.Join(ex, "; ")))}
}

func rulesChipState(cx *Ctx, prop string) []Obligation {
	P := cx.P
	key := prop + "/CS/no-chip-state"
	desc := "chips carry no state from one call or proof to the next: outside constructors (New…) nothing writes a field of a chip, except the tabled stateful chips"
	var bad1 []string
	used := map[string]bool{}
	isChipPtr := func(t types.Type) (string, bool) {
		pt, ok := t.Underlying().(*types.Pointer)
		if !ok {
			return "", false
		}
		n, ok := pt.Elem().(*types.Named)
		if !ok || n.Obj().Pkg() == nil || !strings.HasPrefix(n.Obj().Pkg().Path(), ModPath) || !strings.HasSuffix(n.Obj().Name(), "Chip") {
			return "", false
		}
		if _, ok := n.Underlying().(*types.Struct); !ok {
			return "", false
		}
		return shortPkg(n.Obj().Pkg()) + "." + n.Obj().Name(), true
	}
	// the chip field an address / map value is rooted at
	var chipField func(v ssa.Value, depth int) (string, bool)
	chipField = func(v ssa.Value, depth int) (string, bool) {
		if depth > 8 || v == nil {
			return "", false
		}
		switch x := v.(type) {
		case *ssa.FieldAddr:
			if cn, ok := isChipPtr(x.X.Type()); ok {
				if _, isAlloc := x.X.(*ssa.Alloc); isAlloc {
					return "", false // a chip being built
				}
				return cn + "." + fieldName(x.X.Type(), x.Field), true
			}
			return chipField(x.X, depth+1)
		case *ssa.IndexAddr:
			return chipField(x.X, depth+1)
		case *ssa.UnOp:
			return chipField(x.X, depth+1)
		case *ssa.Slice:
			return chipField(x.X, depth+1)
		}
		return "", false
	}
	// constructors and the unexported helpers only constructors call (a constructor split into steps)
	ctor := map[*ssa.Function]bool{}
	callers := map[*ssa.Function][]*ssa.Function{}
	valueUse := map[*ssa.Function]bool{}
	for _, fn := range P.ModuleFuncsSorted() {
		if strings.HasPrefix(fn.Name(), "New") {
			ctor[fn] = true
		}
		for _, b := range fn.Blocks {
			for _, ins := range b.Instrs {
				if c, ok := ins.(ssa.CallInstruction); ok {
					if g := c.Common().StaticCallee(); g != nil {
						callers[g] = append(callers[g], fn)
					}
				}
				for _, op := range ins.Operands(nil) {
					if op == nil || *op == nil {
						continue
					}
					if g, ok := (*op).(*ssa.Function); ok {
						if c, isCall := ins.(ssa.CallInstruction); !isCall || c.Common().Value != ssa.Value(g) {
							valueUse[g] = true
						}
					}
				}
			}
		}
	}
	for changed := true; changed; {
		changed = false
		for _, fn := range P.ModuleFuncsSorted() {
			if ctor[fn] || valueUse[fn] || len(callers[fn]) == 0 || (fn.Object() != nil && fn.Object().Exported()) {
				continue
			}
			all := true
			for _, c := range callers[fn] {
				if !ctor[c] {
					all = false
				}
			}
			if all {
				ctor[fn] = true
				changed = true
			}
		}
	}
	n := 0
	for _, fn := range P.ModuleFuncsSorted() {
		if !circuitPackage(fn) || isInitFn(fn) || len(fn.Blocks) == 0 || ctor[fn] {
			continue
		}
		n++
		for _, b := range fn.Blocks {
			for _, ins := range b.Instrs {
				f, what := "", ""
				switch x := ins.(type) {
				case *ssa.Store:
					if n, ok := chipField(x.Addr, 0); ok {
						f, what = n, "is assigned"
					}
				case *ssa.MapUpdate:
					if n, ok := chipField(x.Map, 0); ok {
						f, what = n, "is updated"
					}
				}
				if f == "" {
					continue
				}
				if _, ok := chipStateExceptions[f]; ok {
					used[f] = true
					continue
				}
				if i := strings.LastIndex(f, "."); i > 0 {
					if _, ok := chipStateExceptions[f[:i]+".*"]; ok {
						used[f[:i]+".*"] = true
						continue
					}
				}
				bad1 = append(bad1, fmt.Sprintf("%s: chip field %s %s in %s", P.Pos(ins.Pos()), f, what, P.FnName(fn)))
			}
		}
	}
	if len(bad1) > 0 {
		sort.Strings(bad1)
		return []Obligation{undecided(key, desc, "state the table does not know (cannot show it is reset between proofs): "+strings.Join(bad1, "; "))}
	}
	var ex []string
	for g := range used {
		ex = append(ex, g)
	}
	sort.Strings(ex)
	return []Obligation{good(key, desc, fmt.Sprintf("%d functions scanned; tabled stateful fields written: %s", n, strings.Join(ex, ", ")))}
}

// withState adds the no-hidden-state obligations to a property that quantifies over several circuits, proofs or calls
func withState(prop string, f func(cx *Ctx) []Obligation) func(cx *Ctx) []Obligation {
	return func(cx *Ctx) []Obligation {
		obs := f(cx)
		obs = append(obs, rulesHygiene(cx, prop)...)
		return obs
	}
}

// rulesHygiene: the circuit definition is a function of its inputs — no hidden state, no builder-dependent fast
// path, no append that reaches into the caller's data
func rulesHygiene(cx *Ctx, prop string) []Obligation {
	var obs []Obligation
	obs = append(obs, rulesGlobalState(cx, prop)...)
	obs = append(obs, rulesChipState(cx, prop)...)
	obs = append(obs, ruleNoConstantFastPath(cx, prop)...)
	obs = append(obs, ruleNoAliasingAppend(cx, prop)...)
	obs = append(obs, ruleNoInPlaceWrite(cx, prop)...)
	obs = append(obs, rulesMulAccElsewhere(cx, prop)...)
	obs = append(obs, ruleDeferDiscipline(cx, prop)...)
	obs = append(obs, ruleRangeCheckerOwnership(cx, prop)...)
	return obs
}

// ruleNoRecover: refusals are panics (and gnark's builders report failed definition-time checks by panicking too);
// a recover() in circuit code turns a refusal into a successfully defined circuit with fewer constraints.
func ruleNoRecover(cx *Ctx, prop string) []Obligation {
	P := cx.P
	key := prop + "/refusal/not-recovered"
	desc := "no circuit-definition code recovers from a panic: a shape refusal that is recovered leaves a circuit that is defined successfully with only the constraints emitted before the refusal"
	var sites []string
	nBuiltin := 0
	for _, fn := range P.ModuleFuncsSorted() {
		if !circuitPackage(fn) {
			continue
		}
		for _, b := range fn.Blocks {
			for _, ins := range b.Instrs {
				c, ok := ins.(ssa.CallInstruction)
				if !ok {
					continue
				}
				if bi, ok := c.Common().Value.(*ssa.Builtin); ok {
					nBuiltin++
					if bi.Name() == "recover" {
						sites = append(sites, P.Pos(ins.Pos())+" in "+P.FnName(fn))
					}
				}
			}
		}
	}
	if len(sites) > 0 {
		sort.Strings(sites)
		return []Obligation{bad(key, desc, "recover() at "+strings.Join(sites, "; "))}
	}
	if nBuiltin == 0 {
		return []Obligation{undecided(key, desc, "no call of any builtin was found in the circuit packages: the rule would pass vacuously")}
	}
	return []Obligation{good(key, desc, fmt.Sprintf("no recover() among the %d builtin calls of the circuit packages", nBuiltin))}
}

// ruleNoConstantFastPath: gnark's test engine answers Compiler().ConstantValue with "not a constant" for every
// value, the real builders do not — a code path taken only for compile-time constants is therefore exercised by no
// test of this repository and makes a gadget compute differently in the compiled circuit. None exists today.
func ruleNoConstantFastPath(cx *Ctx, prop string) []Obligation {
	P := cx.P
	key := prop + "/NC/no-constant-fast-path"
	desc := "no circuit code branches on Compiler().ConstantValue: a path taken only for compile-time constants is invisible to the test engine (which never reports a constant) and changes what the compiled circuit computes"
	var sites []string
	nFrontend := 0
	for _, fn := range P.ModuleFuncsSorted() {
		if !circuitPackage(fn) {
			continue
		}
		for _, b := range fn.Blocks {
			for _, ins := range b.Instrs {
				c, ok := ins.(ssa.CallInstruction)
				if !ok || !c.Common().IsInvoke() || c.Common().Method == nil {
					continue
				}
				m := c.Common().Method
				if m.Pkg() != nil && strings.HasPrefix(m.Pkg().Path(), "github.com/consensys/gnark/frontend") {
					nFrontend++
					if m.Name() == "ConstantValue" {
						sites = append(sites, P.Pos(ins.Pos())+" in "+P.FnName(fn))
					}
				}
			}
		}
	}
	if len(sites) > 0 {
		sort.Strings(sites)
		return []Obligation{undecided(key, desc, "ConstantValue is consulted at "+strings.Join(sites, "; ")+" (cannot show both paths compute the same value)")}
	}
	if nFrontend == 0 {
		return []Obligation{undecided(key, desc, "no call through gnark's frontend interfaces was found in the circuit packages: the rule would pass vacuously")}
	}
	return []Obligation{good(key, desc, fmt.Sprintf("no use of ConstantValue among the %d calls through gnark's frontend interfaces in the circuit packages", nFrontend))}
}

// ruleNoAliasingAppend: append(x[a:b], …) writes into the backing array of x beyond b when capacity allows; if x is
// data the function received (a parameter, a field of one) the caller's later elements are silently overwritten.
// The same happens one call further away: a function that appends onto its slice parameter, called with a truncated
// view x[a:b] of a longer list (ReduceWithPowers(openings.QuotientPolys[s:e], …)).
func rootedAtParamD(v ssa.Value, depth int) (*ssa.Parameter, bool) {
	if depth > 10 || v == nil {
		return nil, false
	}
	switch x := v.(type) {
	case *ssa.Parameter:
		return x, true
	case *ssa.FieldAddr:
		return rootedAtParamD(x.X, depth+1)
	case *ssa.Field:
		return rootedAtParamD(x.X, depth+1)
	case *ssa.IndexAddr:
		return rootedAtParamD(x.X, depth+1)
	case *ssa.Index:
		return rootedAtParamD(x.X, depth+1)
	case *ssa.UnOp:
		return rootedAtParamD(x.X, depth+1)
	case *ssa.Slice:
		return rootedAtParamD(x.X, depth+1)
	case *ssa.ChangeType:
		return rootedAtParamD(x.X, depth+1)
	case *ssa.Alloc:
		// a local copy of a parameter
		for _, r := range *x.Referrers() {
			if st, ok := r.(*ssa.Store); ok && st.Addr == ssa.Value(x) {
				if p, ok := st.Val.(*ssa.Parameter); ok {
					return p, true
				}
			}
		}
	}
	return nil, false
}

// sliceParamItself: v is a slice-typed parameter, possibly re-sliced or passed through φs (not a field of one)
func sliceParamItself(v ssa.Value, depth int) *ssa.Parameter {
	if depth > 6 {
		return nil
	}
	switch x := v.(type) {
	case *ssa.Parameter:
		if _, ok := x.Type().Underlying().(*types.Slice); ok {
			return x
		}
	case *ssa.Slice:
		return sliceParamItself(x.X, depth+1)
	case *ssa.ChangeType:
		return sliceParamItself(x.X, depth+1)
	case *ssa.Phi:
		for _, e := range x.Edges {
			if p := sliceParamItself(e, depth+1); p != nil {
				return p
			}
		}
	}
	return nil
}

// truncatedViewArg: some module call site of fn passes, for parameter index idx, a view x[a:b] (upper bound given,
// no capacity limit) — or its own slice parameter that is in turn passed such a view (one more level)
func truncatedViewArg(P *Program, fn *ssa.Function, idx int, depth int) (string, bool) {
	for _, caller := range P.ModuleFuncsSorted() {
		for _, b := range caller.Blocks {
			for _, ins := range b.Instrs {
				c, ok := ins.(ssa.CallInstruction)
				if !ok || c.Common().StaticCallee() != fn || idx >= len(c.Common().Args) {
					continue
				}
				a := c.Common().Args[idx]
				for {
					if ct, ok := a.(*ssa.ChangeType); ok {
						a = ct.X
						continue
					}
					break
				}
				if sl, ok := a.(*ssa.Slice); ok && sl.High != nil && sl.Max == nil {
					if _, isArr := sl.X.Type().Underlying().(*types.Pointer); !isArr { // x[:] of a local array has no tail
						return P.Pos(ins.Pos()), true
					}
				}
				if p, ok := a.(*ssa.Parameter); ok && depth < 1 {
					if at, ok := truncatedViewArg(P, caller, paramIndex(caller, p), depth+1); ok {
						return at, true
					}
				}
			}
		}
	}
	return "", false
}

// truncatedViewOf: v is x[a:b] (upper bound, no capacity limit), directly or as the value a loop-carried slice
// starts from (`out := in[:0]; for … { out = append(out, …) }`)
func truncatedViewOf(v ssa.Value, depth int) *ssa.Slice {
	if depth > 3 {
		return nil
	}
	switch x := v.(type) {
	case *ssa.Slice:
		if x.High != nil && x.Max == nil {
			return x
		}
	case *ssa.Phi:
		for _, e := range x.Edges {
			if e == v {
				continue
			}
			if c, ok := e.(*ssa.Call); ok {
				if bi, ok := c.Common().Value.(*ssa.Builtin); ok && bi.Name() == "append" {
					continue // the loop's own append: the view is what the other edge brings in
				}
			}
			if sl := truncatedViewOf(e, depth+1); sl != nil {
				return sl
			}
		}
	}
	return nil
}

func ruleNoAliasingAppend(cx *Ctx, prop string) []Obligation {
	P := cx.P
	key := prop + "/AP/no-aliasing-append"
	desc := "no append onto a truncated view x[a:b] of data the function received — directly, or onto a slice parameter that a call site binds to such a view: the appended elements would be written into the caller's backing array beyond b (later elements of the caller's list change silently)"
	var sites []string
	nAppend, nOnView, nOnParam := 0, 0, 0
	for _, fn := range P.ModuleFuncsSorted() {
		if !circuitPackage(fn) {
			continue
		}
		for _, b := range fn.Blocks {
			for _, ins := range b.Instrs {
				c, ok := ins.(*ssa.Call)
				if !ok {
					continue
				}
				bi, ok := c.Common().Value.(*ssa.Builtin)
				if !ok || bi.Name() != "append" || len(c.Common().Args) < 1 {
					continue
				}
				nAppend++
				if p := sliceParamItself(c.Common().Args[0], 0); p != nil {
					nOnParam++
					if at, hazard := truncatedViewArg(P, fn, paramIndex(fn, p), 0); hazard {
						sites = append(sites, P.Pos(ins.Pos())+" in "+P.FnName(fn)+" (parameter "+p.Name()+" is bound to a truncated view at "+at+")")
						continue
					}
				}
				sl := truncatedViewOf(c.Common().Args[0], 0)
				if sl == nil {
					continue
				}
				nOnView++
				if _, rooted := rootedAtParamD(sl.X, 0); rooted {
					sites = append(sites, P.Pos(ins.Pos())+" in "+P.FnName(fn))
				}
			}
		}
	}
	if len(sites) > 0 {
		sort.Strings(sites)
		return []Obligation{bad(key, desc, "append onto a truncated view of received data at "+strings.Join(sites, "; "))}
	}
	if nAppend == 0 {
		return []Obligation{undecided(key, desc, "no append was found in the circuit packages: the rule would pass vacuously")}
	}
	return []Obligation{good(key, desc, fmt.Sprintf("%d appends in the circuit packages, %d onto a truncated view, %d onto a slice parameter; none onto a view of received data", nAppend, nOnView, nOnParam))}
}

// ruleNoInPlaceWrite (IW): received lists are read-only. A gadget, gate or verifier function that stores into an
// element of a slice it received (a parameter, a field of a parameter, a view of one) changes the caller's data — the
// opened wires seen by the gates evaluated afterwards, the openings used by FRI later — while its own result is
// right. Allowed: hint functions (their results slice is an out-parameter by gnark's contract) and functions all of
// whose call sites pass a buffer made for the call (make / a local array).
func ruleNoInPlaceWrite(cx *Ctx, prop string) []Obligation {
	P := cx.P
	key := prop + "/IW/received-lists-read-only"
	desc := "no circuit code stores into an element of a list it received (parameter, field of a parameter, view of one), except into a buffer every call site makes for the call: the caller's data would change under later code while the function's own result stays right"
	var sites []string
	nStores, nElem := 0, 0
	for _, fn := range P.ModuleFuncsSorted() {
		if !circuitPackage(fn) || isInitFn(fn) || isHintSig(fn) {
			continue
		}
		for _, b := range fn.Blocks {
			for _, ins := range b.Instrs {
				st, ok := ins.(*ssa.Store)
				if !ok {
					continue
				}
				nStores++
				ia, ok := st.Addr.(*ssa.IndexAddr)
				if !ok {
					continue
				}
				if _, isSl := ia.X.Type().Underlying().(*types.Slice); !isSl {
					continue
				}
				nElem++
				p, rooted := rootedAtParamD(ia.X, 0)
				if !rooted {
					continue
				}
				// the receiver's own fields (a chip's buffers) are the chip-state rule's business
				if fn.Signature.Recv() != nil && len(fn.Params) > 0 && p == fn.Params[0] {
					continue
				}
				if freshAtAllCallSites(P, fn, paramIndex(fn, p)) {
					continue
				}
				sites = append(sites, P.Pos(ins.Pos())+" in "+P.FnName(fn)+" (through "+p.Name()+")")
			}
		}
	}
	if len(sites) > 0 {
		sort.Strings(sites)
		return []Obligation{bad(key, desc, "in-place write into received data at "+strings.Join(dedup(sites), "; "))}
	}
	if nElem == 0 {
		return []Obligation{undecided(key, desc, "no store into a slice element was found in the circuit packages: the rule would pass vacuously")}
	}
	return []Obligation{good(key, desc, fmt.Sprintf("%d stores examined, %d into slice elements, none into a received list", nStores, nElem))}
}

// freshAtAllCallSites: fn is called only statically from the module, and every call passes for parameter idx a buffer
// made for the call (make, a slice of a local array, nil)
func freshAtAllCallSites(P *Program, fn *ssa.Function, idx int) bool {
	if idx < 0 {
		return false
	}
	n := 0
	for _, caller := range P.ModuleFuncsSorted() {
		for _, b := range caller.Blocks {
			for _, ins := range b.Instrs {
				c, ok := ins.(ssa.CallInstruction)
				if !ok {
					continue
				}
				if c.Common().IsInvoke() && c.Common().Method != nil && fn.Object() != nil && c.Common().Method.Name() == fn.Name() {
					return false // may be reached through an interface: the argument is whatever the caller holds
				}
				if c.Common().StaticCallee() != fn || idx >= len(c.Common().Args) {
					continue
				}
				n++
				a := stripCopies(c.Common().Args[idx])
				switch x := a.(type) {
				case *ssa.MakeSlice:
				case *ssa.Const:
					if x.Value != nil {
						return false
					}
				case *ssa.Slice:
					if _, ok := x.X.(*ssa.Alloc); !ok {
						return false
					}
				default:
					return false
				}
			}
		}
	}
	return n > 0
}

// ruleDeferDiscipline (DF): gnark runs the callbacks registered with Compiler().Defer in registration order, after
// the circuit is defined. The Goldilocks chip registers the drain of its collected range checks when it is created —
// before any verifier code runs — so every callback registered later runs AFTER the drain: range checks it collects
// are never handed to gnark, silently (no constraint, no panic). A callback registered earlier runs before the drain
// and can empty the collection. Either way the test engine with honest hints sees nothing. Rule: the only call of
// Compiler().Defer in the circuit packages is the Goldilocks package registering the chip's own drain (a bound method
// that reads the collected list).
func ruleDeferDiscipline(cx *Ctx, prop string) []Obligation {
	P := cx.P
	key := prop + "/DF/only-the-drain-is-deferred"
	desc := "the only callback registered with Compiler().Defer is the Goldilocks chip's own drain, registered by its constructor: any other deferred callback runs before or after the drain of the collected range checks, so checks it makes are never applied (or the collection is emptied first) — invisibly to the test engine"
	var sites []string
	nDrain := 0
	for _, fn := range P.ModuleFuncsSorted() {
		if !circuitPackage(fn) {
			continue
		}
		for _, b := range fn.Blocks {
			for _, ins := range b.Instrs {
				c, ok := ins.(*ssa.Call)
				if !ok || !c.Common().IsInvoke() || c.Common().Method == nil || c.Common().Method.Name() != "Defer" {
					continue
				}
				if m := c.Common().Method; m.Pkg() == nil || !strings.HasPrefix(m.Pkg().Path(), "github.com/consensys/gnark/frontend") {
					continue
				}
				okDrain := false
				if fnPkgShort(fn) == "goldilocks" && len(c.Common().Args) == 1 {
					if mc, ok := c.Common().Args[0].(*ssa.MakeClosure); ok && len(mc.Bindings) == 1 {
						if target := boundTarget(mc.Fn.(*ssa.Function)); target != nil && readsCollected(target) {
							okDrain = true
						}
					}
				}
				if okDrain {
					nDrain++
				} else {
					sites = append(sites, P.Pos(ins.Pos())+" in "+P.FnName(fn))
				}
			}
		}
	}
	if len(sites) > 0 {
		sort.Strings(sites)
		return []Obligation{bad(key, desc, "another callback is deferred at "+strings.Join(sites, "; "))}
	}
	if nDrain == 0 {
		return []Obligation{undecided(key, desc, "the registration of the drain itself was not found: the matcher would pass vacuously")}
	}
	return []Obligation{good(key, desc, fmt.Sprintf("%d registration(s), all of the chip's drain in its constructor", nDrain))}
}

// readsCollected: fn ranges over / reads the chip's rangeCheckCollected list (the drain)
func readsCollected(fn *ssa.Function) bool {
	for _, b := range fn.Blocks {
		for _, ins := range b.Instrs {
			if fa, ok := ins.(*ssa.FieldAddr); ok && fieldName(fa.X.Type(), fa.Field) == "rangeCheckCollected" && fa.Referrers() != nil {
				for _, r := range *fa.Referrers() {
					if ld, ok := r.(*ssa.UnOp); ok && ld.Op == token.MUL {
						return true
					}
				}
			}
		}
	}
	return false
}

// ruleCollectedOnlyGrows: outside the drain the list of collected range checks is only ever appended to
func ruleCollectedOnlyGrows(cx *Ctx, prop string) []Obligation {
	P := cx.P
	key := prop + "/O6.2/collected-only-grows"
	desc := "outside the drain, the chip's list of collected range checks is only appended to (list = append(list, …)): nothing clears, truncates or replaces it before the drain has handed every entry to gnark"
	var sites []string
	n := 0
	for _, fn := range P.ModuleFuncsSorted() {
		if !circuitPackage(fn) || len(fn.Blocks) == 0 {
			continue
		}
		for _, b := range fn.Blocks {
			for _, ins := range b.Instrs {
				st, ok := ins.(*ssa.Store)
				if !ok {
					continue
				}
				fa, ok := st.Addr.(*ssa.FieldAddr)
				if !ok || fieldName(fa.X.Type(), fa.Field) != "rangeCheckCollected" {
					continue
				}
				if _, building := fa.X.(*ssa.Alloc); building {
					continue // the constructor initialising a new chip
				}
				n++
				okApp := false
				if c, ok := st.Val.(*ssa.Call); ok {
					if bi, ok := c.Common().Value.(*ssa.Builtin); ok && bi.Name() == "append" && len(c.Common().Args) >= 1 {
						if base, ok := fieldLoad(stripCopies(c.Common().Args[0]), "rangeCheckCollected"); ok && base == fa.X {
							okApp = true
						}
					}
				}
				if !okApp {
					sites = append(sites, P.Pos(st.Pos())+" in "+P.FnName(fn)+": "+st.Val.String())
				}
			}
		}
	}
	if len(sites) > 0 {
		sort.Strings(sites)
		return []Obligation{bad(key, desc, "the collected list is overwritten at "+strings.Join(sites, "; "))}
	}
	if n == 0 {
		return []Obligation{undecided(key, desc, "no store into Chip.rangeCheckCollected was found (the collecting append was expected)")}
	}
	return []Obligation{good(key, desc, fmt.Sprintf("%d store(s), all of the form list = append(list, …)", n))}
}

// ruleRangeCheckerOwnership (RC): every n-bit range check of the circuit goes through the Goldilocks chip's dispatcher.
// The chip predicts the base width gnark's commit-based checker will choose from the checks IT collected and refuses
// to build unless that width is 16 and every collected width is a multiple of it (gnark ≤ 0.9.1 under-checks
// misaligned widths). A check handed to gnark's checker directly — `rangecheck.New(api).Check(v, n)` in a wrapper
// circuit, say — is invisible to that prediction: it changes the number of checks gnark sees (and with it the base
// width gnark picks) and its own width is not guarded. Rule: `rangecheck.New` and `Rangechecker.Check` are used in
// package goldilocks only.
func ruleRangeCheckerOwnership(cx *Ctx, prop string) []Obligation {
	P := cx.P
	key := prop + "/RC/only-the-chip-range-checks"
	desc := "gnark's range checker is created and called only inside package goldilocks (the chip's constructor, dispatcher and drain): a check handed to it from anywhere else escapes the chip's base-width prediction and alignment guards, and changes the base width gnark picks for the collected ones"
	var sites []string
	nIn := 0
	for _, fn := range P.ModuleFuncsSorted() {
		if !circuitPackage(fn) {
			continue
		}
		for _, b := range fn.Blocks {
			for _, ins := range b.Instrs {
				c, ok := ins.(ssa.CallInstruction)
				if !ok {
					continue
				}
				hit := false
				com := c.Common()
				if com.IsInvoke() && com.Method != nil && com.Method.Name() == "Check" && strings.HasSuffix(ifaceShort(com.Method), "frontend.Rangechecker.Check") {
					hit = true
				}
				if g := com.StaticCallee(); g != nil && g.Pkg != nil && g.Pkg.Pkg.Path() == "github.com/consensys/gnark/std/rangecheck" && g.Name() == "New" {
					hit = true
				}
				if !hit {
					continue
				}
				if fnPkgShort(fn) == "goldilocks" {
					nIn++
				} else {
					sites = append(sites, P.Pos(ins.Pos())+" in "+P.FnName(fn))
				}
			}
		}
	}
	if len(sites) > 0 {
		sort.Strings(sites)
		return []Obligation{bad(key, desc, "gnark's range checker is used outside the Goldilocks chip at "+strings.Join(sites, "; "))}
	}
	if nIn == 0 {
		return []Obligation{undecided(key, desc, "no use of gnark's range checker was found at all: the matcher would pass vacuously")}
	}
	return []Obligation{good(key, desc, fmt.Sprintf("%d uses, all in package goldilocks", nIn))}
}
