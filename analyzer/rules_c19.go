package main

// C19 — deserialization is faithful and position-preserving (decoder discipline, leaf types, copy map).

import (
	"fmt"
	"go/token"
	"go/types"
	"sort"
	"strings"

	"golang.org/x/tools/go/ssa"
)

func rulesC19(cx *Ctx) []Obligation {
	var obs []Obligation
	P := cx.P
	// O19.1 every json.Unmarshal error is checked
	n := 0
	for _, f := range P.ModuleFuncsSorted() {
		fi := GetFnInfo(f)
		for _, b := range f.Blocks {
			for _, ins := range b.Instrs {
				c, ok := ins.(*ssa.Call)
				if !ok {
					continue
				}
				callee := c.Common().StaticCallee()
				if callee == nil || callee.String() != "encoding/json.Unmarshal" {
					continue
				}
				n++
				{
					tdesc := "json.Unmarshal decodes into a fresh zero-valued local (encoding/json decodes in place and leaves absent fields untouched: a recycled or shared target carries values of an earlier document into this one)"
					leafs := freshTargets(P, f, c, c.Common().Args[1], 0)
					n += len(leafs) - 1
					for _, lf := range leafs {
						tkey := "C19/O19.1/fresh-target/" + P.FnName(lf.fn)
						if lf.ok {
							obs = append(obs, good(tkey, tdesc, lf.site))
						} else {
							obs = append(obs, bad(tkey, tdesc, lf.why, lf.site))
						}
					}
				}
				key := "C19/O19.1/unmarshal-error/" + P.FnName(f)
				desc := "the error of json.Unmarshal is checked and leads to a panic or is returned (malformed documents are refused, not half-decoded)"
				okk := false
				for _, ref := range *c.Referrers() {
					switch r := ref.(type) {
					case *ssa.Return:
						okk = true
					case *ssa.BinOp:
						if r.Op != token.NEQ && r.Op != token.EQL {
							continue
						}
						for _, r2 := range *r.Referrers() {
							if iff, ok := r2.(*ssa.If); ok {
								idx := 0
								if r.Op == token.EQL {
									idx = 1
								}
								if fi.Refuse[iff.Block().Succs[idx].Index] {
									okk = true
								}
							}
						}
					}
				}
				if okk {
					obs = append(obs, good(key, desc, P.Pos(c.Pos())))
				} else {
					obs = append(obs, bad(key, desc, "the error is discarded or does not lead to a refusal", P.Pos(c.Pos())))
				}
			}
		}
	}
	if n < 3 {
		obs = append(obs, undecided("C19/O19.1/floor", "the json.Unmarshal call sites are found", fmt.Sprintf("%d sites (7 today; readers may share a decoding function)", n)))
	}
	// O19.2 raw decoder leaf types
	if sp := P.SPkgs["types"]; sp != nil {
		var names []string
		for name, mem := range sp.Members {
			if _, ok := mem.(*ssa.Type); ok && strings.HasSuffix(name, "Raw") {
				names = append(names, name)
			}
		}
		sort.Strings(names)
		if len(names) < 5 {
			obs = append(obs, undecided("C19/O19.2/floor", "the raw decoder struct types are found", fmt.Sprintf("%v", names)))
		}
		for _, name := range names {
			t := sp.Type(name).Type()
			var badLeaves []string
			cnt := 0
			var walk func(t types.Type, path string, d int)
			walk = func(t types.Type, path string, d int) {
				if d > 12 {
					return
				}
				switch u := t.Underlying().(type) {
				case *types.Struct:
					for i := 0; i < u.NumFields(); i++ {
						walk(u.Field(i).Type(), path+"."+u.Field(i).Name(), d+1)
					}
				case *types.Slice:
					walk(u.Elem(), path+"[]", d+1)
				case *types.Array:
					// encoding/json fills a Go array from a shorter JSON list with zero values and silently drops the
					// surplus of a longer one: `[a]` and `[a, 0]` would decode alike
					badLeaves = append(badLeaves, fmt.Sprintf("%s is a fixed-size array [%d] (short or long JSON lists are accepted silently)", path, u.Len()))
					walk(u.Elem(), path+"[]", d+1)
				case *types.Pointer:
					walk(u.Elem(), path, d+1)
				case *types.Basic:
					cnt++
					switch u.Kind() {
					case types.Uint64, types.String, types.Bool:
					default:
						badLeaves = append(badLeaves, path+" "+u.Name())
					}
				default:
					cnt++
					badLeaves = append(badLeaves, path+" "+t.String())
				}
			}
			walk(t, name, 0)
			key := "C19/O19.2/leaf-types/" + name
			desc := "every leaf of the raw decoder struct is uint64, string or bool and every list is a slice (no fixed-size array), so encoding/json itself refuses negative, fractional and over-64-bit numbers and scalars where lists are expected, and a list of the wrong arity is not padded or truncated silently"
			if len(badLeaves) > 0 {
				obs = append(obs, bad(key, desc, "leaves of other types: "+strings.Join(badLeaves, ", ")))
			} else {
				obs = append(obs, good(key, desc, fmt.Sprintf("%s (%d leaves)", name, cnt)))
			}
		}
	}
	// O19.3 SetString: base 10, result unmerged
	ns := 0
	for _, f := range P.ModuleFuncsSorted() {
		if pk := fnPkgShort(f); pk != "variables" && pk != "types" && pk != "goldilocks" && pk != "verifier" {
			continue // constant tables (poseidon) and the CLI are not document decoders
		}
		for _, b := range f.Blocks {
			for _, ins := range b.Instrs {
				c, ok := ins.(*ssa.Call)
				if !ok {
					continue
				}
				callee := c.Common().StaticCallee()
				if callee == nil || callee.String() != "(*math/big.Int).SetString" || len(c.Common().Args) != 3 {
					continue
				}
				ns++
				key := "C19/O19.3/setstring/" + P.FnName(f)
				desc := "hash strings are parsed with constant base 10 and the parse result is used as is (a failed parse stays nil and is refused when the witness is built; it is never replaced by a default)"
				if base, ok := constInt(c.Common().Args[2]); !ok || base != 10 {
					obs = append(obs, bad(key, desc, "base is not the constant 10 (base 0 would accept 0x…/0b…/octal spellings)", P.Pos(c.Pos())))
					continue
				}
				merged := ""
				// the parsed value must be taken from the call's result: on failure the result is nil while the
				// receiver holds an unspecified partial value
				recvV := c.Common().Args[0]
				if refs := recvV.Referrers(); refs != nil {
					for _, ref := range *refs {
						if ref == ssa.Instruction(c) {
							continue
						}
						if _, isDbg := ref.(*ssa.DebugRef); isDbg {
							continue
						}
						merged = "the receiver of SetString is used (" + ref.String() + ") instead of its result: after a failed parse it holds a partial value, not nil"
					}
				}
				usedResult := false
				for _, ref := range *c.Referrers() {
					if ex, ok := ref.(*ssa.Extract); ok && ex.Index == 0 && ex.Referrers() != nil && len(*ex.Referrers()) > 0 {
						usedResult = true
					}
				}
				if !usedResult && merged == "" {
					merged = "the result of SetString is discarded"
				}
				for _, ref := range *c.Referrers() {
					ex, ok := ref.(*ssa.Extract)
					if !ok || ex.Index != 0 {
						continue
					}
					for _, r2 := range *ex.Referrers() {
						if _, isPhi := r2.(*ssa.Phi); isPhi {
							merged = "the parsed value is merged with another value (a default on failure)"
						}
						// the parsed integer becomes the assignment as it is: no arithmetic on it in the decoder (a reduction
						// modulo some field would merge documents that differ in this field — gnark reduces modulo the
						// circuit's own field when the witness is built)
						if c2, isCall := r2.(*ssa.Call); isCall {
							if name, isBig := bigMethod(c2); isBig {
								switch name {
								case "Cmp", "CmpAbs", "Sign", "IsUint64", "IsInt64", "BitLen", "String", "Text", "Uint64", "Int64", "Bit", "ProbablyPrime":
								default:
									merged = "the parsed value is transformed by (*big.Int)." + name + " before it becomes the assignment (documents differing in this field can decode alike)"
								}
							}
						}
					}
				}
				// the ok flag must not select a default
				for _, ref := range *c.Referrers() {
					ex, ok := ref.(*ssa.Extract)
					if !ok || ex.Index != 1 {
						continue
					}
					for _, r2 := range *ex.Referrers() {
						if iff, isIf := r2.(*ssa.If); isIf {
							fi := GetFnInfo(f)
							if !fi.Refuse[iff.Block().Succs[1].Index] {
								merged = "a failed parse continues on a non-refusing path (default value)"
							}
						}
					}
				}
				if merged != "" {
					obs = append(obs, bad(key, desc, merged, P.Pos(c.Pos())))
				} else {
					obs = append(obs, good(key, desc, P.Pos(c.Pos())))
				}
			}
		}
	}
	if ns < 1 {
		obs = append(obs, undecided("C19/O19.3/floor", "the SetString call sites are found", fmt.Sprintf("%d sites", ns)))
	}
	obs = append(obs, ruleCopyMap(cx)...)
	obs = append(obs, ruleConfigCopy(cx)...)
	obs = append(obs, ruleIndexDiscipline(cx)...)
	return obs
}

// O19.4a copy completeness: every leaf of the decoded structures depends on the same-named raw field only.
func ruleCopyMap(cx *Ctx) []Obligation {
	var obs []Obligation
	P := cx.P
	rename := map[string]string{"ConstantSigmasCap": "ConstantsSigmasCap", "Elements": "LeafElements", "OpeningProof.QueryRoundProofs[].InitialTreesProof.EvalsProofs[].MerkleProof.Siblings": "OpeningProof.QueryRoundProofs[].InitialTreesProof.EvalsProofs[].MerkleProof.Hash"}
	type entry struct {
		pkg, fn, retSel, rawPrefix string
		typ                        *types.Named
	}
	entries := []entry{
		{"variables", "DeserializeProofWithPublicInputs", "#0", "raw", P.NamedType("variables", "ProofWithPublicInputs")},
		{"variables", "DeserializeVerifierOnlyCircuitData", "", "raw", P.NamedType("variables", "VerifierOnlyCircuitData")},
	}
	for _, e := range entries {
		r := cx.Entry(e.pkg, e.fn)
		if r == nil || e.typ == nil {
			obs = append(obs, undecided("C19/O19.4/anchor/"+e.fn, "the decoding entry point exists", "not found"))
			continue
		}
		for _, nn := range r.In.Notes {
			if strings.HasPrefix(nn, "fixpoint not reached") {
				obs = append(obs, undecided("C19/engine/"+e.fn, "analysis completes", nn))
			}
		}
		ret := r.Res.Ret
		if e.retSel != "" {
			ret = r.In.Narrow(ret, e.retSel)
		}
		var leaves []string
		leafPaths(e.typ, "", func(t types.Type) bool {
			if _, isIface := t.Underlying().(*types.Interface); isIface {
				return true
			}
			return typeIs(t, "goldilocks.Variable", "goldilocks.QuadraticExtensionVariable")
		}, &leaves, 0)
		sort.Strings(leaves)
		var all []string
		for _, l := range leaves {
			all = append(all, rawNameOf(l, rename))
		}
		for i, leaf := range leaves {
			key := "C19/O19.4/copy/" + e.typ.Obj().Name() + leaf
			desc := "the decoded field is computed from the raw field of the same name and from no other raw field (no field dropped, duplicated or swapped)"
			v := ret
			for _, s := range splitSel(leaf) {
				if s == "[]" {
					s = "[?]"
				}
				v = r.In.Narrow(v, s)
				if v != nil && v.Cell != nil && len(v.Dir) == 0 && len(v.Kids) == 0 {
					// a slice living in a local cell: look through it when the next selector is an index
				}
			}
			want := e.rawPrefix + all[i]
			if v == nil || !r.depsHave(v, want) {
				obs = append(obs, bad(key, desc, "the decoded value does not depend on "+want, P.FnName(r.Entry)))
				continue
			}
			extra := ""
			for j, o := range all {
				if j == i || o == all[i] || strings.HasPrefix(o, all[i]) || strings.HasPrefix(all[i], o) {
					continue
				}
				if r.depsHave(v, e.rawPrefix+o) {
					extra = e.rawPrefix + o
				}
			}
			if extra != "" {
				obs = append(obs, bad(key, desc, "the decoded value also depends on "+extra, P.FnName(r.Entry)))
				continue
			}
			obs = append(obs, good(key, desc, want+" → "+leaf))
		}
	}
	return obs
}

func rawNameOf(leaf string, rename map[string]string) string {
	l := leaf
	// longest renames first
	var keys []string
	for k := range rename {
		keys = append(keys, k)
	}
	sort.Slice(keys, func(i, j int) bool { return len(keys[i]) > len(keys[j]) })
	for _, k := range keys {
		if strings.Contains(l, k) {
			l = strings.Replace(l, k, rename[k], 1)
		}
	}
	return l
}

// O19.4b position: in the decoding functions every loop is a plain full-range loop and every element access
// inside uses the loop's own induction variable or a constant (no offsets, no other index).
func ruleIndexDiscipline(cx *Ctx) []Obligation {
	var obs []Obligation
	P := cx.P
	roots := []*ssa.Function{P.Func("variables", "DeserializeProofWithPublicInputs"), P.Func("variables", "DeserializeVerifierOnlyCircuitData")}
	seen := map[*ssa.Function]bool{}
	var work []*ssa.Function
	for _, f := range roots {
		if f != nil {
			work = append(work, f)
		}
	}
	for len(work) > 0 {
		f := work[len(work)-1]
		work = work[:len(work)-1]
		if seen[f] || !P.InModule(f) {
			continue
		}
		seen[f] = true
		for _, b := range f.Blocks {
			for _, ins := range b.Instrs {
				if c, ok := ins.(ssa.CallInstruction); ok {
					if callee := c.Common().StaticCallee(); callee != nil {
						work = append(work, callee)
					}
				}
				// functions handed on as values (a conversion passed to a generic map helper, a closure)
				for _, op := range ins.Operands(nil) {
					if op == nil || *op == nil {
						continue
					}
					switch fv := (*op).(type) {
					case *ssa.Function:
						work = append(work, fv)
					case *ssa.MakeClosure:
						if cf, ok := fv.Fn.(*ssa.Function); ok {
							work = append(work, cf)
						}
					}
				}
			}
		}
	}
	var fns []*ssa.Function
	for f := range seen {
		fns = append(fns, f)
	}
	sort.Slice(fns, func(i, j int) bool { return fns[i].String() < fns[j].String() })
	nLoops := 0
	for _, f := range fns {
		fi := GetFnInfo(f)
		for li, l := range fi.Loops {
			nLoops++
			key := fmt.Sprintf("C19/O19.4/position/%s/loop%d", P.FnName(f), li+1)
			desc := "element-copy loops of the decoder visit indices 0..len-1 of the source list once each, and read/write elements at the loop's own index (or append in order)"
			where := P.FnName(f) + " " + P.Pos(loopPos(l))
			if !l.Counted || !l.SingleExit || l.Step != 1 || l.StartConst == nil || *l.StartConst != 0 || (l.Op != token.LSS && l.Op != token.NEQ) {
				obs = append(obs, bad(key, desc, "the loop is not a plain 0..n-1 loop (start, step, bound test or early exit)", where))
				continue
			}
			// bound must be len(x) of an unsliced value, or a local that is such a len
			if !boundIsFullLen(l.Bound, 0) {
				obs = append(obs, bad(key, desc, "the loop bound is not the length of a complete list: "+l.Bound.String(), where))
				continue
			}
			badIdx := ""
			boundPath := lenArgPath(l.Bound, 0)
			readsBound := false
			var indexed []string
			for b := range l.Blocks {
				inner := fi.LoopsOf[b.Index]
				if len(inner) == 0 || inner[len(inner)-1] != l {
					continue // belongs to a nested loop: checked there
				}
				for _, ins := range b.Instrs {
					var idx ssa.Value
					var base ssa.Value
					switch x := ins.(type) {
					case *ssa.IndexAddr:
						idx, base = x.Index, x.X
					case *ssa.Index:
						idx, base = x.Index, x.X
					default:
						continue
					}
					if idx == l.IndexVal {
						ap := accessPath(base, 0)
						indexed = append(indexed, ap)
						if ap == boundPath {
							readsBound = true
						}
					}
					if _, isConst := idx.(*ssa.Const); isConst {
						continue
					}
					okIdx := false
					for ll := l; ll != nil; ll = ll.Parent {
						if idx == ll.IndexVal {
							okIdx = true
						}
					}
					if !okIdx {
						badIdx = "element accessed at index " + idx.String() + " (" + idx.Name() + ") which is not the loop's induction variable"
					}
				}
			}
			if badIdx == "" && !readsBound {
				sort.Strings(indexed)
				badIdx = "the loop is bounded by the length of " + boundPath + " but never reads that list at its own index (it indexes " + strings.Join(dedup(indexed), ", ") + "): elements are dropped or the copy panics when the lengths differ"
			}
			if badIdx != "" {
				obs = append(obs, bad(key, desc, badIdx, where))
			} else {
				obs = append(obs, good(key, desc, where))
			}
		}
	}
	// unconditional copy: the decoder has no data-dependent skip — every store, append and call of a decoding
	// function executes on every path, once per iteration of its loops (a `continue` or `if` around part of the copy,
	// taken for some shapes of the document only, would leave the zero value in place of document data)
	for _, f := range fns {
		if len(f.Blocks) == 0 || (fnPkgShort(f) != "variables" && fnPkgShort(f) != "goldilocks") {
			continue
		}
		fi := GetFnInfo(f)
		if efi := fnInfoModuloEmptyInput(f); efi != nil {
			fi = efi
		}
		key := "C19/O19.6/unconditional-copy/" + P.FnName(f)
		desc := "the decoder copies unconditionally: every store, append and call in a decoding function executes on every non-refusing path, once per iteration of its loops (no `continue` / `if` that skips part of the copy for some document shapes)"
		var cond []string
		n := 0
		for _, b := range f.Blocks {
			if fi.Refuse[b.Index] {
				continue
			}
			acts := false
			var at token.Pos
			for _, ins := range b.Instrs {
				switch x := ins.(type) {
				case *ssa.Store:
					acts, at = true, x.Pos()
				case *ssa.Call:
					if bi, ok := x.Common().Value.(*ssa.Builtin); ok && bi.Name() != "append" {
						continue
					}
					acts, at = true, x.Pos()
				case *ssa.MapUpdate:
					acts, at = true, x.Pos()
				}
			}
			if !acts {
				continue
			}
			n++
			if !fi.MustBlock(b) {
				cond = append(cond, P.Pos(at))
			}
		}
		if n == 0 {
			continue
		}
		if len(cond) > 0 {
			sort.Strings(cond)
			obs = append(obs, bad(key, desc, "executed only on some paths / iterations: "+strings.Join(dedup(cond), ", "), P.FnName(f)))
		} else {
			obs = append(obs, good(key, desc, fmt.Sprintf("%s: %d blocks with stores/calls, all unconditional", P.FnName(f), n)))
		}
	}
	// raw 64-bit leaves become variables as they are: the argument of gl.NewVariable in the decoder is the loaded
	// document value itself, not the result of a computation on it (a reduction would merge v and v+p)
	nv := P.Func("goldilocks", "NewVariable")
	nWrap := 0
	for _, f := range fns {
		for _, b := range f.Blocks {
			for _, ins := range b.Instrs {
				c, ok := ins.(*ssa.Call)
				if !ok || nv == nil || c.Common().StaticCallee() != nv || len(c.Common().Args) != 1 {
					continue
				}
				nWrap++
				key := "C19/O19.5/raw-u64-identity/" + P.FnName(f)
				desc := "a 64-bit document value is wrapped into a variable exactly as decoded (loaded from the raw structure and converted to frontend.Variable, nothing else)"
				a := c.Common().Args[0]
				for {
					if mi, ok := a.(*ssa.MakeInterface); ok {
						a = mi.X
						continue
					}
					if ct, ok := a.(*ssa.ChangeType); ok {
						a = ct.X
						continue
					}
					break
				}
				u, isLoad := a.(*ssa.UnOp)
				bt, isU64 := a.Type().Underlying().(*types.Basic)
				switch {
				case isLoad && u.Op == token.MUL && isU64 && bt.Kind() == types.Uint64:
					obs = append(obs, good(key, desc, P.Pos(c.Pos())+" "+accessPath(u.X, 0)))
				case isU64 && bt.Kind() == types.Uint64:
					if _, isParam := a.(*ssa.Parameter); isParam {
						obs = append(obs, good(key, desc, P.Pos(c.Pos())+" parameter "+a.Name()))
					} else {
						obs = append(obs, bad(key, desc, "the wrapped value is computed ("+a.String()+"), not the decoded value itself", P.Pos(c.Pos())))
					}
				default:
					obs = append(obs, bad(key, desc, "the wrapped value is not a decoded 64-bit value: "+a.String(), P.Pos(c.Pos())))
				}
			}
		}
	}
	for _, f := range fns {
		for _, b := range f.Blocks {
			for _, ins := range b.Instrs {
				mi, ok := ins.(*ssa.MakeInterface)
				if !ok {
					continue
				}
				bt, isB := mi.X.Type().Underlying().(*types.Basic)
				if !isB || bt.Info()&types.IsString == 0 || !strings.HasSuffix(mi.Type().String(), "frontend.Variable") {
					continue
				}
				obs = append(obs, bad("C19/O19.3/no-string-variable/"+P.FnName(f), "document strings are parsed explicitly in base 10; none is handed to gnark as a string (gnark parses strings with base auto-detection: \"010\" = 8, \"0x10\" = 16)", "a string becomes a frontend.Variable at "+P.Pos(mi.Pos()), P.Pos(mi.Pos())))
			}
		}
	}
	if nWrap < 1 {
		obs = append(obs, undecided("C19/O19.5/raw-u64-identity/floor", "the decoder's variable constructors are found", fmt.Sprintf("%d calls of gl.NewVariable in the decoder (4 confirmed by hand)", nWrap)))
	}
	if nLoops < 5 {
		obs = append(obs, undecided("C19/O19.4/position/floor", "the decoder's copy loops are found", fmt.Sprintf("%d loops (at least 5 expected; 8 today)", nLoops)))
	}
	return obs
}

// accessPath renders the chain of field / index / load steps a value is read through (index values by SSA name,
// so two separately emitted loads of the same place compare equal)
func accessPath(v ssa.Value, depth int) string {
	if depth > 12 {
		return "…"
	}
	switch x := v.(type) {
	case *ssa.UnOp:
		if x.Op == token.MUL {
			return accessPath(x.X, depth+1)
		}
	case *ssa.FieldAddr:
		return accessPath(x.X, depth+1) + "." + fieldName(x.X.Type(), x.Field)
	case *ssa.Field:
		return accessPath(x.X, depth+1) + "." + fieldName(types.NewPointer(x.X.Type()), x.Field)
	case *ssa.IndexAddr:
		return accessPath(x.X, depth+1) + "[" + x.Index.Name() + "]"
	case *ssa.Index:
		return accessPath(x.X, depth+1) + "[" + x.Index.Name() + "]"
	case *ssa.Alloc:
		// a local copy of a parameter reads as the parameter
		n := 0
		var src ssa.Value
		for _, r := range *x.Referrers() {
			if st, ok := r.(*ssa.Store); ok && st.Addr == ssa.Value(x) {
				n++
				src = st.Val
			}
		}
		if p, ok := src.(*ssa.Parameter); ok && n == 1 {
			return p.Name()
		}
		if x.Comment != "" {
			return x.Comment
		}
	case *ssa.Convert:
		return accessPath(x.X, depth+1)
	case *ssa.ChangeType:
		return accessPath(x.X, depth+1)
	}
	return v.Name()
}

// lenArgPath: the access path of x in a bound len(x)
func lenArgPath(v ssa.Value, depth int) string {
	if depth > 3 {
		return "?"
	}
	switch x := v.(type) {
	case *ssa.Call:
		if b, ok := x.Common().Value.(*ssa.Builtin); ok && b.Name() == "len" {
			return accessPath(x.Common().Args[0], 0)
		}
	case *ssa.Convert:
		return lenArgPath(x.X, depth+1)
	}
	return "?"
}

func boundIsFullLen(v ssa.Value, depth int) bool {
	if depth > 3 {
		return false
	}
	switch x := v.(type) {
	case *ssa.Call:
		if b, ok := x.Common().Value.(*ssa.Builtin); ok && b.Name() == "len" {
			arg := x.Common().Args[0]
			if _, sliced := arg.(*ssa.Slice); sliced {
				return false
			}
			return true
		}
	case *ssa.Phi:
		return false
	case *ssa.Convert:
		return boundIsFullLen(x.X, depth+1)
	}
	return false
}

// O19.4c configuration copy: every field of the decoded CommonCircuitData is loaded from the raw field of the same
// position (markers left by the loads from the raw decoder struct).
func ruleConfigCopy(cx *Ctx) []Obligation {
	var obs []Obligation
	P := cx.P
	r := cx.Entry("types", "ReadCommonCircuitData")
	if r == nil {
		return []Obligation{undecided("C19/O19.4/config/anchor", "types.ReadCommonCircuitData exists", "not found")}
	}
	// the raw decoder struct: a local of type CommonCircuitDataRaw somewhere in package types (its loads carry a
	// type-based marker that survives calls, so the decode and the copy may live in different functions)
	found := false
	for _, f := range P.ModuleFuncsSorted() {
		if fnPkgShort(f) != "types" {
			continue
		}
		for _, b := range f.Blocks {
			for _, ins := range b.Instrs {
				if a, ok := ins.(*ssa.Alloc); ok {
					if pt, ok := a.Type().(*types.Pointer); ok && typeIs(pt.Elem(), "types.CommonCircuitDataRaw") {
						found = true
					}
				}
			}
		}
	}
	if !found {
		return []Obligation{undecided("C19/O19.4/config/anchor", "the raw decoder struct of ReadCommonCircuitData is found", "no local of type CommonCircuitDataRaw")}
	}
	same := func(prefix string, names ...string) map[string]string {
		m := map[string]string{}
		for _, n := range names {
			m[prefix+n] = prefix + n
		}
		return m
	}
	want := map[string]string{}
	for k, v := range same(".Config.", "NumWires", "NumRoutedWires", "NumConstants", "UseBaseArithmeticGate", "SecurityBits", "NumChallenges", "ZeroKnowledge", "MaxQuotientDegreeFactor") {
		want[k] = v
	}
	for k, v := range same(".Config.FriConfig.", "RateBits", "CapHeight", "ProofOfWorkBits", "NumQueryRounds") {
		want[k] = v
	}
	for k, v := range same(".FriParams.Config.", "RateBits", "CapHeight", "ProofOfWorkBits", "NumQueryRounds") {
		want[k] = v
	}
	for k, v := range same(".", "QuotientDegreeFactor", "NumGateConstraints", "NumConstants", "NumPublicInputs", "KIs", "NumPartialProducts") {
		want[k] = v
	}
	want[".FriParams.DegreeBits"] = ".FriParams.DegreeBits"
	want[".DegreeBits"] = ".FriParams.DegreeBits"
	want[".FriParams.ReductionArityBits"] = ".FriParams.ReductionArityBits"
	want[".GateIds"] = ".Gates"
	want[".SelectorsInfo.selectorIndices"] = ".SelectorsInfo.SelectorIndices"
	var keys []string
	for k := range want {
		keys = append(keys, k)
	}
	sort.Strings(keys)
	ret := r.Res.Ret
	for _, tgt := range keys {
		key := "C19/O19.4/config" + tgt
		desc := "the configuration field is copied from the raw document field at the corresponding position and from no other"
		v := ret
		for _, s := range splitSel(tgt) {
			v = r.In.Narrow(v, s)
		}
		if v == nil {
			obs = append(obs, bad(key, desc, "the decoded configuration has no value for this field", P.FnName(r.Entry)))
			continue
		}
		var srcs []string
		const typeTag = "t:types.CommonCircuitDataRaw"
		for _, f := range v.From {
			if strings.HasPrefix(f, typeTag+".") {
				srcs = append(srcs, strings.TrimPrefix(f, typeTag))
			}
		}
		srcs = dedup(srcs)
		// slices stored as local-cell pointers: look at what the pointer was loaded from
		if len(srcs) == 0 && v.Cell != nil {
			for _, f := range r.pointee(v).From {
				if strings.HasPrefix(f, typeTag+".") {
					srcs = append(srcs, strings.TrimPrefix(f, typeTag))
				}
			}
			srcs = dedup(srcs)
		}
		switch {
		case len(srcs) == 1 && srcs[0] == want[tgt]:
			obs = append(obs, good(key, desc, "raw"+want[tgt]+" → "+tgt))
		case len(srcs) == 0:
			obs = append(obs, bad(key, desc, "the value is not loaded from the raw document (expected raw"+want[tgt]+"): "+v.short(1), P.FnName(r.Entry)))
		default:
			obs = append(obs, bad(key, desc, fmt.Sprintf("copied from raw%v, expected raw%s", srcs, want[tgt]), P.FnName(r.Entry)))
		}
	}
	return obs
}

type decodeLeaf struct {
	fn   *ssa.Function
	ok   bool
	why  string
	site string
}

// freshTargets follows the decode target of a json.Unmarshal call: a fresh zero-valued local is fine; a parameter of
// the enclosing function (a decode helper) moves the question to every call site of that function.
func freshTargets(P *Program, f *ssa.Function, at ssa.Instruction, tgt ssa.Value, depth int) []decodeLeaf {
	for {
		if mi, ok := tgt.(*ssa.MakeInterface); ok {
			tgt = mi.X
			continue
		}
		if ct, ok := tgt.(*ssa.ChangeType); ok {
			tgt = ct.X
			continue
		}
		break
	}
	site := P.Pos(at.Pos())
	if f.Name() == "UnmarshalJSON" && f.Signature.Recv() != nil {
		return []decodeLeaf{{fn: f, ok: true, site: site + " (custom UnmarshalJSON decoding into its receiver)"}}
	}
	if al, ok := tgt.(*ssa.Alloc); ok {
		for _, r := range *al.Referrers() {
			if st, ok := r.(*ssa.Store); ok && st.Addr == ssa.Value(al) && (st.Block() != at.Block() || instrBefore(st, at)) {
				return []decodeLeaf{{fn: f, why: "the decode target " + al.Comment + " has been written before the call", site: site}}
			}
		}
		return []decodeLeaf{{fn: f, ok: true, site: site}}
	}
	if p, ok := tgt.(*ssa.Parameter); ok && depth < 3 {
		idx := paramIndex(f, p)
		var out []decodeLeaf
		for _, caller := range P.ModuleFuncsSorted() {
			for _, b := range caller.Blocks {
				for _, ins := range b.Instrs {
					c, ok := ins.(ssa.CallInstruction)
					if !ok || c.Common().StaticCallee() != f || idx >= len(c.Common().Args) {
						continue
					}
					out = append(out, freshTargets(P, caller, ins, c.Common().Args[idx], depth+1)...)
				}
			}
		}
		if len(out) == 0 {
			return []decodeLeaf{{fn: f, why: "the decode helper " + P.FnName(f) + " has no static call site", site: site}}
		}
		return out
	}
	return []decodeLeaf{{fn: f, why: "the decode target is " + tgt.String() + ", not a fresh local", site: site}}
}

// fnInfoModuloEmptyInput: for a conversion helper `func(list) result` whose only early return is
// `if len(list) == 0 { return nil }` on its own list parameter — the list every loop of the function ranges over —
// the must-execute facts are computed with that return treated as a refusal: it skips a copy of zero elements.
func fnInfoModuloEmptyInput(f *ssa.Function) *FnInfo {
	var lists []*ssa.Parameter
	for _, p := range f.Params {
		if _, ok := p.Type().Underlying().(*types.Slice); ok {
			lists = append(lists, p)
		}
	}
	if len(lists) != 1 {
		return nil
	}
	list := lists[0]
	found := false
	for _, b := range f.Blocks {
		if !emptyListReturn(b) {
			continue
		}
		// the tested list is the parameter, and the early return hands back nil / zero values only
		iff := b.Preds[0].Instrs[len(b.Preds[0].Instrs)-1].(*ssa.If)
		cmp := iff.Cond.(*ssa.BinOp)
		okList := false
		for _, side := range []ssa.Value{cmp.X, cmp.Y} {
			if l, ok := lenOfVal(side); ok && l == ssa.Value(list) {
				okList = true
			}
		}
		ret := b.Instrs[len(b.Instrs)-1].(*ssa.Return)
		for _, r := range ret.Results {
			if c, ok := r.(*ssa.Const); !ok || c.Value != nil {
				okList = false
			}
		}
		if !okList {
			return nil
		}
		found = true
	}
	if !found {
		return nil
	}
	// every loop ranges over that list
	base := GetFnInfo(f)
	for _, l := range base.Loops {
		if l.Bound == nil {
			return nil
		}
		if lv, ok := lenOfVal(l.Bound); !ok || lv != ssa.Value(list) {
			return nil
		}
	}
	saved, had := fnInfoCache[f]
	delete(fnInfoCache, f)
	vacuousExitFns[f] = true
	fi := GetFnInfo(f)
	delete(vacuousExitFns, f)
	if had {
		fnInfoCache[f] = saved
	} else {
		delete(fnInfoCache, f)
	}
	return fi
}
