package main

// Window tiling of the sponge inputs (C09, C10, C12): every element of the hashed list is absorbed exactly once and
// in order. The sponges walk their input in windows — `for i := 0; i < len(x); i += W { w := x[i:min(len(x), i+W)] … }`
// possibly nested (BN254: chunks of 9 elements, limbs of 3) — or index it as x[i+j] with j < W (Goldilocks). A loop
// bound, start or stride that does not tile [0, len(x)) (an off-by-one bound, a stride larger than the window, a
// window narrower than the stride, an iteration count computed by a division that is not a ceiling) drops or repeats
// elements for some lengths only: the shipped proof has a handful of leaf widths, so the tests see a few residues.
//
// The rule is decided on the SSA form of the hashing function: for the list parameter x, every use of x must be
//   len(x)                                  (no data)
//   x[lo:hi]   with lo the variable of a loop TILED over x with stride W and hi = lo+W clipped to len(x);
//              the window is then subject to the same rule (recursively)
//   x[iv]      with iv the variable of a loop tiled over x with stride 1 (every index once)
//   x[iv+jv]   with iv tiled over x with stride W and jv running 0 … W−1
//   f(…, x, …) with f a module function: the rule is applied to f's parameter
// and a loop is tiled over x with stride W when it is counted, starts at 0, continues while iv < len(x), advances by
// W and has no other exit. Anything else (an index computed otherwise, x stored or joined with other lists) is
// reported as not established.

import (
	"fmt"
	"go/token"
	"go/types"
	"strings"

	"golang.org/x/tools/go/ssa"
)

type tiler struct {
	P      *Program
	why    []string
	leaves []string
	seen   map[ssa.Value]bool
}

func (t *tiler) fail(format string, a ...interface{}) bool {
	t.why = append(t.why, fmt.Sprintf(format, a...))
	return false
}

// sameList: a and b denote the same slice value (no CSE in go/ssa: only syntactic copies are looked through)
func sameList(a, b ssa.Value) bool {
	return stripCopies(a) == stripCopies(b)
}

func isLenOfList(v, x ssa.Value) bool {
	l, ok := lenOfVal(v)
	return ok && sameList(l, x)
}

// minOperands: v = min(a, b) through a module min function, the builtin, or the explicit clip
// `m := a; if b < m { m = b }`
func minOperands(v ssa.Value) (ssa.Value, ssa.Value, bool) {
	switch x := v.(type) {
	case *ssa.Call:
		args := x.Common().Args
		if b, ok := x.Common().Value.(*ssa.Builtin); ok && b.Name() == "min" && len(args) == 2 {
			return args[0], args[1], true
		}
		if isMinFn(x.Common().StaticCallee()) {
			return args[len(args)-2], args[len(args)-1], true
		}
	case *ssa.Phi:
		if len(x.Edges) != 2 {
			return nil, nil, false
		}
		blk := x.Block()
		for i := 0; i < 2; i++ {
			then, other := blk.Preds[i], blk.Preds[1-i]
			if len(then.Preds) != 1 || then.Preds[0] != other || len(other.Instrs) == 0 {
				continue
			}
			iff, ok := other.Instrs[len(other.Instrs)-1].(*ssa.If)
			if !ok || other.Succs[0] != then {
				continue
			}
			cmp, ok := iff.Cond.(*ssa.BinOp)
			if !ok {
				continue
			}
			T, E := x.Edges[i], x.Edges[1-i]
			same := func(a, b ssa.Value) bool {
				if a == b {
					return true
				}
				la, ok1 := lenOfVal(a)
				lb, ok2 := lenOfVal(b)
				return ok1 && ok2 && sameList(la, lb)
			}
			if ((cmp.Op == token.LSS || cmp.Op == token.LEQ) && same(cmp.X, T) && same(cmp.Y, E)) ||
				((cmp.Op == token.GTR || cmp.Op == token.GEQ) && same(cmp.X, E) && same(cmp.Y, T)) {
				return T, E, true
			}
		}
	}
	return nil, nil, false
}

// plusConst: v = base + c
func plusConst(v, base ssa.Value) (int64, bool) {
	b, ok := v.(*ssa.BinOp)
	if !ok || b.Op != token.ADD {
		return 0, false
	}
	if c, ok := constInt(b.Y); ok && b.X == base {
		return c, true
	}
	if c, ok := constInt(b.X); ok && b.Y == base {
		return c, true
	}
	return 0, false
}

// windowWidth: hi = lo + W, or that clipped to len(x)
func windowWidth(hi, lo, x ssa.Value) (int64, bool) {
	if hi == nil {
		return 0, false
	}
	if w, ok := plusConst(hi, lo); ok {
		return w, true
	}
	if a, b, ok := minOperands(hi); ok {
		if isLenOfList(a, x) {
			if w, ok := plusConst(b, lo); ok {
				return w, true
			}
		}
		if isLenOfList(b, x) {
			if w, ok := plusConst(a, lo); ok {
				return w, true
			}
		}
	}
	return 0, false
}

// ---- tile descriptors
//
// A loop tiles the list x with stride W when a "start" expression S of its body takes the values 0, W, 2W, … while
// S < len(x), with no other exit. S is kept as a polynomial over SSA leaves (ipoly), so that syntactically different
// computations of the same index (no CSE in go/ssa; `3*q` written twice; `i+j` and `j+i`) compare equal. Forms:
//   counted      for i := 0; i < len(x); i += W                S = i
//   range        for i := range x / for i, e := range x        S = i,   W = 1
//   cursor       for s := 0; s < len(x); s = e  with  e = min(len(x), s+W) computed in the body      S = s
//   multiplier   for q := 0; m*q < len(x); q++                 S = m·q, W = m
// A callee that receives (x, S) from such a loop is analysed with its parameter standing for S (ctx).

type tile struct {
	start ipoly
	w     int64
	loop  *SLoop
	fi    *FnInfo
}

func polySub(a, b ipoly) ipoly {
	if a == nil || b == nil {
		return nil
	}
	r := ipoly{}
	for m, c := range a {
		r[m] += c
	}
	for m, c := range b {
		r[m] -= c
		if r[m] == 0 {
			delete(r, m)
		}
	}
	for m, c := range r {
		if c == 0 {
			delete(r, m)
		}
	}
	return r
}

func polyConst(p ipoly) (int64, bool) {
	if p == nil {
		return 0, false
	}
	if len(p) == 0 {
		return 0, true
	}
	if len(p) == 1 {
		if c, ok := p[""]; ok {
			return c, true
		}
	}
	return 0, false
}

func poly(v ssa.Value) ipoly {
	if v == nil {
		return nil
	}
	return ipolyOf(v, map[string]ssa.Value{}, 0)
}

// widthOf: hi = lo + W, or that clipped to len(x) (module min, builtin min, explicit clip)
func widthOf(hi, lo, x ssa.Value) (int64, bool) {
	if hi == nil || lo == nil {
		return 0, false
	}
	lp := poly(lo)
	if w, ok := polyConst(polySub(poly(hi), lp)); ok && w > 0 {
		return w, true
	}
	if a, b, ok := minOperands(hi); ok {
		for _, pr := range [][2]ssa.Value{{a, b}, {b, a}} {
			if isLenOfList(pr[0], x) {
				if w, ok := polyConst(polySub(poly(pr[1]), lp)); ok && w > 0 {
					return w, true
				}
			}
		}
	}
	return 0, false
}

// tileOf: the tile descriptor of loop l over list x, or why it is none
func tileOf(fi *FnInfo, l *SLoop, x ssa.Value) (*tile, string) {
	if l == nil {
		return nil, "not inside a loop over the list"
	}
	if !l.SingleExit {
		return nil, "the loop has another exit"
	}
	h := l.Header
	iff, ok := h.Instrs[len(h.Instrs)-1].(*ssa.If)
	if !ok || len(h.Succs) != 2 {
		return nil, "the loop is not controlled by its header"
	}
	cmp, ok := iff.Cond.(*ssa.BinOp)
	if !ok {
		return nil, "the loop condition is not a comparison"
	}
	inTrue := l.Blocks[h.Succs[0]]
	var A ssa.Value
	switch {
	case cmp.Op == token.LSS && isLenOfList(cmp.Y, x) && inTrue:
		A = cmp.X
	case cmp.Op == token.GTR && isLenOfList(cmp.X, x) && inTrue:
		A = cmp.Y
	case cmp.Op == token.GEQ && isLenOfList(cmp.Y, x) && !inTrue:
		A = cmp.X
	case cmp.Op == token.LEQ && isLenOfList(cmp.X, x) && !inTrue:
		A = cmp.Y
	default:
		return nil, "the loop does not run while its index is below the length of the list it walks (condition: " + cmp.String() + ")"
	}
	pa := poly(A)
	if pa == nil {
		return nil, "the loop index is not an affine expression"
	}
	// A = m·q + c0 over a single header phi q
	var q *ssa.Phi
	m, c0 := int64(0), int64(0)
	for mono, c := range pa {
		if mono == "" {
			c0 = c
			continue
		}
		var found *ssa.Phi
		for _, ins := range h.Instrs {
			phi, ok := ins.(*ssa.Phi)
			if !ok {
				break
			}
			if phi.Name() == mono {
				found = phi
			}
		}
		if found == nil || q != nil {
			return nil, "the loop index is not a multiple of one loop variable"
		}
		q, m = found, c
	}
	if q == nil || m <= 0 {
		return nil, "the loop index does not depend on a loop variable"
	}
	var init, back ssa.Value
	for i, p := range h.Preds {
		if l.Blocks[p] {
			if back != nil && back != q.Edges[i] {
				return nil, "the loop variable is updated in several ways"
			}
			back = q.Edges[i]
		} else {
			if init != nil && init != q.Edges[i] {
				return nil, "the loop variable has several initial values"
			}
			init = q.Edges[i]
		}
	}
	i0, ok := constInt(init)
	if !ok || back == nil {
		return nil, "the loop variable does not start at a constant"
	}
	if m*i0+c0 != 0 {
		return nil, fmt.Sprintf("the first window starts at %d, not at 0", m*i0+c0)
	}
	// constant step
	if s, ok := polyConst(polySub(poly(back), ipoly{q.Name(): 1})); ok {
		if s <= 0 {
			return nil, "the loop does not advance"
		}
		return &tile{start: pa, w: m * s, loop: l, fi: fi}, ""
	}
	// cursor: the next start is this window's clipped end
	if m == 1 && c0 == 0 {
		if w, ok := widthOf(back, q, x); ok {
			if _, _, clipped := minOperands(back); clipped {
				return &tile{start: pa, w: w, loop: l, fi: fi}, ""
			}
		}
	}
	return nil, "the loop variable does not advance by a constant (or to the clipped end of its window)"
}

// outerTile: the context a callee inherits: its parameter `start` takes the window starts of a tiled loop of the caller
type outerTile struct {
	start *ssa.Parameter
	w     int64
}

// everyIteration: the access at block b with index idx into x executes in every iteration of loop l — it dominates
// the latches — or is skipped only by its own bounds guard `idx < len(x)` (the sponge's partial last chunk)
func everyIteration(fi *FnInfo, l *SLoop, b *ssa.BasicBlock, idx, x ssa.Value) bool {
	if l == nil {
		return fi.MustBlock(b) || guardedOnlyByBounds(fi, nil, b, idx, x)
	}
	if mustInLoop(fi, l, b) {
		return true
	}
	return guardedOnlyByBounds(fi, l, b, idx, x)
}

func guardedOnlyByBounds(fi *FnInfo, l *SLoop, b *ssa.BasicBlock, idx, x ssa.Value) bool {
	cur := b
	pi := poly(idx)
	for d := b.Idom(); d != nil && (l == nil || l.Blocks[d]); cur, d = d, d.Idom() {
		if len(d.Succs) != 2 {
			continue
		}
		iff, ok := d.Instrs[len(d.Instrs)-1].(*ssa.If)
		if !ok {
			return false
		}
		if fi.Refuse[d.Succs[0].Index] || fi.Refuse[d.Succs[1].Index] {
			continue // a refusal guard skips nothing
		}
		viaTrue := (d.Succs[0] == cur || d.Succs[0].Dominates(cur)) && len(d.Succs[0].Preds) == 1
		viaFalse := (d.Succs[1] == cur || d.Succs[1].Dominates(cur)) && len(d.Succs[1].Preds) == 1
		cmp, isCmp := iff.Cond.(*ssa.BinOp)
		if !isCmp || viaTrue == viaFalse {
			return false
		}
		same := func(v ssa.Value) bool { return ipolyEq(poly(v), pi) }
		var inBounds bool
		switch {
		case same(cmp.X) && isLenOfList(cmp.Y, x):
			inBounds = (cmp.Op == token.LSS && viaTrue) || (cmp.Op == token.GEQ && viaFalse)
		case same(cmp.Y) && isLenOfList(cmp.X, x):
			inBounds = (cmp.Op == token.GTR && viaTrue) || (cmp.Op == token.LEQ && viaFalse)
		}
		if !inBounds {
			return false
		}
		if l == nil {
			if fi.MustBlock(d) {
				return true
			}
		} else if mustInLoop(fi, l, d) {
			return true
		}
	}
	return false
}

// covers: every element of x is consumed exactly once by the code of fn (see the file comment)
func (t *tiler) covers(fn *ssa.Function, x ssa.Value, what string, depth int, ctx *outerTile) bool {
	if depth > 4 {
		return t.fail("%s: nesting too deep", what)
	}
	if t.seen[x] {
		return true
	}
	t.seen[x] = true
	fi := GetFnInfo(fn)
	refs := x.Referrers()
	if refs == nil {
		return t.fail("%s is not used", what)
	}
	// the tile (loop over x, or inherited from the caller) whose start expression equals v
	tileFor := func(b *ssa.BasicBlock, v ssa.Value) (*tile, string) {
		pv := poly(v)
		why := "not inside a loop over the list"
		loops := fi.LoopsOf[b.Index]
		for i := len(loops) - 1; i >= 0; i-- {
			tl, w := tileOf(fi, loops[i], x)
			if tl == nil {
				why = w
				continue
			}
			if ipolyEq(tl.start, pv) {
				return tl, ""
			}
			why = "the index is not the start of the window of the loop over the list"
		}
		if ctx != nil && ipolyEq(pv, ipoly{ctx.start.Name(): 1}) {
			return &tile{start: pv, w: ctx.w, fi: fi}, ""
		}
		return nil, why
	}
	// base + offset decompositions of an index: idx − start(tile) is the variable of an inner loop 0 … W−1
	consumers := 0
	ok := true
	for _, r := range *refs {
		site := t.P.Pos(r.Pos())
		switch u := r.(type) {
		case *ssa.DebugRef:
		case *ssa.Call:
			if b, isB := u.Common().Value.(*ssa.Builtin); isB {
				switch b.Name() {
				case "len", "cap":
					continue
				}
				ok = t.fail("%s is handed to %s at %s", what, b.Name(), site)
				continue
			}
			callee := u.Common().StaticCallee()
			if callee == nil || callee.Blocks == nil || !t.P.InModule(callee) {
				ok = t.fail("%s is handed to a call that is not resolved at %s", what, site)
				continue
			}
			for ai, a := range u.Common().Args {
				if a != x {
					continue
				}
				if ai >= len(callee.Params) {
					ok = t.fail("%s is passed variadically at %s", what, site)
					continue
				}
				// does the call also hand over the window start of an enclosing tiled loop?
				var sub *outerTile
				loops := fi.LoopsOf[u.Block().Index]
				for li := len(loops) - 1; li >= 0 && sub == nil; li-- {
					tl, _ := tileOf(fi, loops[li], x)
					if tl == nil {
						continue
					}
					for aj, b := range u.Common().Args {
						if aj < len(callee.Params) && b != x && ipolyEq(poly(b), tl.start) {
							if !mustInLoop(fi, loops[li], u.Block()) {
								ok = t.fail("%s: the call at %s is not made in every iteration", what, site)
							}
							sub = &outerTile{start: callee.Params[aj], w: tl.w}
						}
					}
				}
				consumers++
				if !t.covers(callee, callee.Params[ai], what+"→"+callee.Name(), depth+1, sub) {
					ok = false
				}
			}
		case *ssa.ChangeType:
			consumers++
			if !t.covers(fn, u, what, depth, ctx) {
				ok = false
			}
		case *ssa.Slice:
			if u.X != x {
				continue
			}
			if u.Low == nil && u.High == nil {
				consumers++
				if !t.covers(fn, u, what, depth, ctx) {
					ok = false
				}
				continue
			}
			if u.Low == nil {
				ok = t.fail("%s: the window %s at %s does not start at a loop variable", what, u.String(), site)
				continue
			}
			tl, why := tileFor(u.Block(), u.Low)
			if tl == nil {
				ok = t.fail("%s: window at %s: %s", what, site, why)
				continue
			}
			w, wok := widthOf(u.High, u.Low, x)
			if !wok {
				ok = t.fail("%s: the window at %s is not [i, min(len, i+W))", what, site)
				continue
			}
			if w != tl.w {
				ok = t.fail("%s: window at %s: the loop advances by %d but consumes %d element(s) per iteration", what, site, tl.w, w)
				continue
			}
			if tl.loop != nil && !mustInLoop(fi, tl.loop, u.Block()) {
				ok = t.fail("%s: the window at %s is not taken in every iteration", what, site)
				continue
			}
			consumers++
			if !t.covers(fn, u, fmt.Sprintf("%s[i:i+%d]", what, w), depth+1, nil) {
				ok = false
			}
		case *ssa.IndexAddr:
			if u.X != x {
				continue
			}
			// (a) the index is the start of a stride-1 tile
			if tl, _ := tileFor(u.Block(), u.Index); tl != nil {
				if tl.w != 1 {
					ok = t.fail("%s: element access at %s: the loop advances by %d but consumes 1 element per iteration", what, site, tl.w)
					continue
				}
				if !everyIteration(fi, tl.loop, u.Block(), u.Index, x) {
					ok = t.fail("%s: the element access at %s is conditional", what, site)
					continue
				}
				consumers++
				t.leaves = append(t.leaves, fmt.Sprintf("%s[i] %s", what, site))
				continue
			}
			// (b) index = start + j (j = 0 … W−1), or the variable of an inner loop running from start to the window's end
			li := (*SLoop)(nil)
			loops := fi.LoopsOf[u.Block().Index]
			if len(loops) > 0 {
				li = loops[len(loops)-1]
			}
			done := false
			if li != nil && li.Counted && li.Step == 1 && li.Op == token.LSS && li.SingleExit && li.Phi != nil {
				ivp := ipoly{li.Phi.Name(): 1}
				if li.RangeForm {
					ivp = poly(li.IndexVal)
				}
				base := polySub(poly(u.Index), ivp)
				// which tile does `base` (or the inner loop's start) belong to?
				findTile := func(p ipoly) *tile {
					outer := fi.LoopsOf[li.Header.Index]
					for k := len(outer) - 1; k >= 0; k-- {
						if outer[k] == li {
							continue
						}
						if tl, _ := tileOf(fi, outer[k], x); tl != nil && ipolyEq(tl.start, p) {
							return tl
						}
					}
					if ctx != nil && ipolyEq(p, ipoly{ctx.start.Name(): 1}) {
						return &tile{start: p, w: ctx.w, fi: fi}
					}
					return nil
				}
				if li.StartConst != nil && *li.StartConst == 0 {
					if W, isC := constInt(stripCopies(li.Bound)); isC {
						if tl := findTile(base); tl != nil {
							done = true
							switch {
							case W != tl.w:
								ok = t.fail("%s: element access [i+j] at %s: the loop advances by %d but consumes %d element(s) per iteration", what, site, tl.w, W)
							case !everyIteration(fi, li, u.Block(), u.Index, x) || (tl.loop != nil && !mustInLoop(fi, tl.loop, li.Header)):
								ok = t.fail("%s: the element access [i+j] at %s is conditional (other than by its own bounds guard)", what, site)
							default:
								consumers++
								t.leaves = append(t.leaves, fmt.Sprintf("%s[i+j], j<%d %s", what, W, site))
							}
						}
					}
				} else if li.StartVal != nil && len(base) == 0 {
					// for pos := start; pos < end; pos++ { … x[pos] … }
					if tl := findTile(poly(li.StartVal)); tl != nil {
						done = true
						w, wok := widthOf(li.Bound, li.StartVal, x)
						switch {
						case !wok || w != tl.w:
							ok = t.fail("%s: element access at %s: the inner loop does not run over the window [start, min(len, start+%d))", what, site, tl.w)
						case !everyIteration(fi, li, u.Block(), u.Index, x) || (tl.loop != nil && !mustInLoop(fi, tl.loop, li.Header)):
							ok = t.fail("%s: the element access at %s is conditional", what, site)
						default:
							consumers++
							t.leaves = append(t.leaves, fmt.Sprintf("%s[pos], start ≤ pos < start+%d %s", what, w, site))
						}
					}
				}
			}
			if !done {
				_, why := tileFor(u.Block(), u.Index)
				ok = t.fail("%s: element access at %s: %s", what, site, why)
			}
		default:
			ok = t.fail("%s flows into %T at %s", what, r, site)
		}
	}
	if consumers == 0 && ok {
		return t.fail("%s is never read", what)
	}
	return ok
}

// listParam: the first parameter of fn that is a slice of goldilocks.Variable
func listParam(fn *ssa.Function) *ssa.Parameter {
	for _, p := range fn.Params {
		if s, ok := p.Type().Underlying().(*types.Slice); ok && typeIs(s.Elem(), "goldilocks.Variable") {
			return p
		}
	}
	return nil
}

// ruleAbsorbTiling: the obligation for one hashing function
func ruleAbsorbTiling(cx *Ctx, key, pkg, name string) []Obligation {
	P := cx.P
	desc := "every element of the hashed list is absorbed exactly once, in order: the loops over the input tile [0, len): they start at 0, run while index < len(list), advance by exactly the width of the window they consume, and windows are [i, min(len, i+W)) (an off-by-one bound, a wider stride or an iteration count that is not the ceiling would drop or repeat elements for some lengths only)"
	fn := P.Func(pkg, name)
	if fn == nil {
		return []Obligation{undecided(key, desc, pkg+"."+name+" not found")}
	}
	x := listParam(fn)
	if x == nil {
		return []Obligation{undecided(key, desc, "no list-of-Goldilocks parameter in "+P.FnName(fn))}
	}
	t := &tiler{P: P, seen: map[ssa.Value]bool{}}
	if !t.covers(fn, x, x.Name(), 0, nil) {
		return []Obligation{bad(key, desc, strings.Join(t.why, " | "), P.FnName(fn)+" "+P.Pos(fn.Pos()))}
	}
	if len(t.leaves) == 0 {
		return []Obligation{undecided(key, desc, "no element access found under "+P.FnName(fn))}
	}
	return []Obligation{good(key, desc, P.FnName(fn)+": "+strings.Join(t.leaves, "; "))}
}

// ruleSpongeOutput (C10): what the BN254 sponge hands back is, on every path, element 0 of the sponge state — the
// local array the permutation's result is written to. An extra return (a "short input" shortcut handing back the raw
// packing, a cached value, another lane) makes the hash differ from the reference for the inputs that take it and can
// make it invertible, while the lengths the shipped proof hashes never take it.
func ruleSpongeOutput(cx *Ctx) []Obligation {
	P := cx.P
	key := "C10/sponge/output"
	desc := "HashNoPad returns element 0 of the sponge state on every path (no shortcut return for some input lengths, no other lane)"
	fn := P.Func("poseidon", "(*BN254Chip).HashNoPad")
	if fn == nil {
		return []Obligation{undecided(key, desc, "poseidon.BN254Chip.HashNoPad not found")}
	}
	states := map[*ssa.Alloc]bool{}
	for _, b := range fn.Blocks {
		for _, ins := range b.Instrs {
			st, ok := ins.(*ssa.Store)
			if !ok {
				continue
			}
			if c, ok := st.Val.(*ssa.Call); ok && isBN254Perm(c.Common().StaticCallee()) {
				if al, ok := st.Addr.(*ssa.Alloc); ok {
					states[al] = true
				}
			}
		}
	}
	if len(states) == 0 {
		return []Obligation{undecided(key, desc, "no local receiving the permutation's result in "+P.FnName(fn))}
	}
	n := 0
	for _, b := range fn.Blocks {
		ret, ok := b.Instrs[len(b.Instrs)-1].(*ssa.Return)
		if !ok {
			continue
		}
		n++
		okRet := false
		if len(ret.Results) == 1 {
			if u, ok := stripCopies(ret.Results[0]).(*ssa.UnOp); ok && u.Op == token.MUL {
				if ia, ok := u.X.(*ssa.IndexAddr); ok {
					if al, ok := ia.X.(*ssa.Alloc); ok && states[al] {
						if k, ok := constInt(ia.Index); ok && k == 0 {
							okRet = true
						}
					}
				}
			}
		}
		if !okRet {
			return []Obligation{bad(key, desc, "a return hands back something other than state[0]: "+ret.String(), P.Pos(ret.Pos()))}
		}
	}
	if n == 0 {
		return []Obligation{undecided(key, desc, "no return found")}
	}
	return []Obligation{good(key, desc, fmt.Sprintf("%s: %d return(s)", P.FnName(fn), n))}
}

// ruleTwoToOneLanes (C10): two-to-one compression is the permutation of [0, 0, left, right], first element. The
// function has no caller in the module today (the Merkle fold builds the same state in line), so no test pins its lane
// assignment; a helper that fills the rate "from the left" ([0, left, right, 0]) gives a different, equally plausible
// compression function.
func ruleTwoToOneLanes(cx *Ctx) []Obligation {
	P := cx.P
	key := "C10/two-to-one/lanes"
	desc := "TwoToOne(left, right) permutes the state [0, 0, left, right] and returns element 0 (the lane assignment of the reference; the same state the Merkle fold builds in line)"
	fn := P.Func("poseidon", "(*BN254Chip).TwoToOne")
	if fn == nil {
		return []Obligation{{Key: key, Desc: desc, Status: INFO, Detail: "poseidon.BN254Chip.TwoToOne does not exist"}}
	}
	if len(fn.Params) != 3 {
		return []Obligation{undecided(key, desc, "unexpected signature of TwoToOne")}
	}
	var perm *ssa.Call
	for _, b := range fn.Blocks {
		for _, ins := range b.Instrs {
			if c, ok := ins.(*ssa.Call); ok && isBN254Perm(c.Common().StaticCallee()) {
				if perm != nil {
					return []Obligation{undecided(key, desc, "several permutation calls in TwoToOne")}
				}
				perm = c
			}
		}
	}
	if perm == nil || len(perm.Common().Args) != 2 {
		return []Obligation{undecided(key, desc, "no single permutation call in TwoToOne")}
	}
	ld, ok := perm.Common().Args[1].(*ssa.UnOp)
	var al *ssa.Alloc
	if ok && ld.Op == token.MUL {
		al, _ = ld.X.(*ssa.Alloc)
	}
	if al == nil {
		return []Obligation{undecided(key, desc, "the permuted state is not a local array filled in TwoToOne (cannot read its lanes): "+perm.Common().Args[1].String())}
	}
	lanes := map[int64]ssa.Value{}
	for _, st := range storesInto(al) {
		ia, ok := st.Addr.(*ssa.IndexAddr)
		if !ok {
			return []Obligation{undecided(key, desc, "the state is assigned as a whole at "+P.Pos(st.Pos()))}
		}
		k, ok := constInt(ia.Index)
		if !ok {
			return []Obligation{undecided(key, desc, "a lane is written at a computed index at "+P.Pos(st.Pos()))}
		}
		if _, dup := lanes[k]; dup {
			return []Obligation{undecided(key, desc, fmt.Sprintf("lane %d is written twice", k))}
		}
		lanes[k] = stripCopies(st.Val)
	}
	isZero := func(v ssa.Value) bool {
		if v == nil {
			return true // never written: the zero value of the array
		}
		k, ok := constInt(v)
		return ok && k == 0
	}
	site := P.FnName(fn) + " " + P.Pos(perm.Pos())
	switch {
	case !isZero(lanes[0]) || !isZero(lanes[1]):
		return []Obligation{bad(key, desc, "lanes 0 and 1 of the permuted state are not both zero", site)}
	case lanes[2] != ssa.Value(fn.Params[1]) || lanes[3] != ssa.Value(fn.Params[2]):
		return []Obligation{bad(key, desc, "lanes 2 and 3 of the permuted state are not (left, right)", site)}
	}
	for _, b := range fn.Blocks {
		if ret, ok := b.Instrs[len(b.Instrs)-1].(*ssa.Return); ok {
			if len(ret.Results) != 1 {
				return []Obligation{undecided(key, desc, "unexpected results")}
			}
			if c, ok := permOut0(ret.Results[0], 0); !ok || c != perm {
				return []Obligation{bad(key, desc, "TwoToOne does not return element 0 of the permutation's result", P.Pos(ret.Pos()))}
			}
		}
	}
	return []Obligation{good(key, desc, site)}
}
