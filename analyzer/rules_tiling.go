package main

// Window tiling of the sponge inputs (C09, C10, C12): every element of the hashed list is absorbed exactly once and
// in order. The sponges walk their input in windows — `for i := 0; i < len(x); i += W { w := x[i:min(len(x), i+W)] … }`
// possibly nested (BN254: chunks of 9 elements, limbs of 3) — or index it as x[i+j] with j < W (Goldilocks). A loop
// bound, start or stride that does not tile [0, len(x)) (an off-by-one bound, a stride larger than the window, a
// window narrower than the stride, an iteration count computed by a division that is not a ceiling) drops or repeats
// elements for some lengths only: the shipped proof has a handful of leaf widths, so the tests see a few residues.
//
// The rule is decided on the SSA form of the hashing function: for the list parameter x, every use of x must be
//   len(x)                                  (no data)
//   x[lo:hi]   with lo the variable of a loop TILED over x with stride W and hi = lo+W clipped to len(x);
//              the window is then subject to the same rule (recursively)
//   x[iv]      with iv the variable of a loop tiled over x with stride 1 (every index once)
//   x[iv+jv]   with iv tiled over x with stride W and jv running 0 … W−1
//   f(…, x, …) with f a module function: the rule is applied to f's parameter
// and a loop is tiled over x with stride W when it is counted, starts at 0, continues while iv < len(x), advances by
// W and has no other exit. Anything else (an index computed otherwise, x stored or joined with other lists) is
// reported as not established.

import (
	"fmt"
	"go/token"
	"go/types"
	"strings"

	"golang.org/x/tools/go/ssa"
)

type tiler struct {
	P      *Program
	why    []string
	leaves []string
	seen   map[ssa.Value]bool
}

func (t *tiler) fail(format string, a ...interface{}) bool {
	t.why = append(t.why, fmt.Sprintf(format, a...))
	return false
}

// sameList: a and b denote the same slice value (no CSE in go/ssa: only syntactic copies are looked through)
func sameList(a, b ssa.Value) bool {
	return stripCopies(a) == stripCopies(b)
}

func isLenOfList(v, x ssa.Value) bool {
	l, ok := lenOfVal(v)
	return ok && sameList(l, x)
}

// minOperands: v = min(a, b) through a module min function, the builtin, or the explicit clip
// `m := a; if b < m { m = b }`
func minOperands(v ssa.Value) (ssa.Value, ssa.Value, bool) {
	switch x := v.(type) {
	case *ssa.Call:
		args := x.Common().Args
		if b, ok := x.Common().Value.(*ssa.Builtin); ok && b.Name() == "min" && len(args) == 2 {
			return args[0], args[1], true
		}
		if isMinFn(x.Common().StaticCallee()) {
			return args[len(args)-2], args[len(args)-1], true
		}
	case *ssa.Phi:
		if len(x.Edges) != 2 {
			return nil, nil, false
		}
		blk := x.Block()
		for i := 0; i < 2; i++ {
			then, other := blk.Preds[i], blk.Preds[1-i]
			if len(then.Preds) != 1 || then.Preds[0] != other || len(other.Instrs) == 0 {
				continue
			}
			iff, ok := other.Instrs[len(other.Instrs)-1].(*ssa.If)
			if !ok || other.Succs[0] != then {
				continue
			}
			cmp, ok := iff.Cond.(*ssa.BinOp)
			if !ok {
				continue
			}
			T, E := x.Edges[i], x.Edges[1-i]
			same := func(a, b ssa.Value) bool {
				if a == b {
					return true
				}
				la, ok1 := lenOfVal(a)
				lb, ok2 := lenOfVal(b)
				return ok1 && ok2 && sameList(la, lb)
			}
			if ((cmp.Op == token.LSS || cmp.Op == token.LEQ) && same(cmp.X, T) && same(cmp.Y, E)) ||
				((cmp.Op == token.GTR || cmp.Op == token.GEQ) && same(cmp.X, E) && same(cmp.Y, T)) {
				return T, E, true
			}
		}
	}
	return nil, nil, false
}

// plusConst: v = base + c
func plusConst(v, base ssa.Value) (int64, bool) {
	b, ok := v.(*ssa.BinOp)
	if !ok || b.Op != token.ADD {
		return 0, false
	}
	if c, ok := constInt(b.Y); ok && b.X == base {
		return c, true
	}
	if c, ok := constInt(b.X); ok && b.Y == base {
		return c, true
	}
	return 0, false
}

// windowWidth: hi = lo + W, or that clipped to len(x)
func windowWidth(hi, lo, x ssa.Value) (int64, bool) {
	if hi == nil {
		return 0, false
	}
	if w, ok := plusConst(hi, lo); ok {
		return w, true
	}
	if a, b, ok := minOperands(hi); ok {
		if isLenOfList(a, x) {
			if w, ok := plusConst(b, lo); ok {
				return w, true
			}
		}
		if isLenOfList(b, x) {
			if w, ok := plusConst(a, lo); ok {
				return w, true
			}
		}
	}
	return 0, false
}

// tiledOver: l is counted from 0 while iv < len(x) in steps of w, with no other exit
func tiledOver(l *SLoop, x ssa.Value, w int64) (bool, string) {
	switch {
	case l == nil || !l.Counted:
		return false, "the index is not the variable of a counted loop"
	case l.StartConst == nil || *l.StartConst != 0:
		return false, "the loop does not start at 0"
	case l.Op != token.LSS:
		return false, "the loop does not continue while index < length"
	case !isLenOfList(l.Bound, x):
		return false, "the loop is not bounded by the length of the list it walks (bound: " + l.Bound.String() + ")"
	case l.Step != w:
		return false, fmt.Sprintf("the loop advances by %d but consumes %d element(s) per iteration", l.Step, w)
	case !l.SingleExit:
		return false, "the loop has another exit"
	}
	return true, ""
}

// everyIteration: the access at block b with index idx into x executes in every iteration of loop l — it dominates
// the latches — or is skipped only by its own bounds guard `idx < len(x)` (the sponge's partial last chunk)
func everyIteration(fi *FnInfo, l *SLoop, b *ssa.BasicBlock, idx, x ssa.Value) bool {
	if mustInLoop(fi, l, b) {
		return true
	}
	cur := b
	for d := b.Idom(); d != nil && l.Blocks[d]; cur, d = d, d.Idom() {
		if len(d.Succs) != 2 {
			continue
		}
		iff, ok := d.Instrs[len(d.Instrs)-1].(*ssa.If)
		if !ok {
			return false
		}
		viaTrue := (d.Succs[0] == cur || d.Succs[0].Dominates(cur)) && len(d.Succs[0].Preds) == 1
		cmp, isCmp := iff.Cond.(*ssa.BinOp)
		if !viaTrue || !isCmp || cmp.Op != token.LSS || !isLenOfList(cmp.Y, x) || !sameIndexExpr(cmp.X, idx) {
			return false
		}
		if mustInLoop(fi, l, d) {
			return true
		}
	}
	return false
}

// sameIndexExpr: the same SSA value, or two additions of the same operands (no CSE in go/ssa)
func sameIndexExpr(a, b ssa.Value) bool {
	if a == b {
		return true
	}
	x, ok1 := a.(*ssa.BinOp)
	y, ok2 := b.(*ssa.BinOp)
	if !ok1 || !ok2 || x.Op != token.ADD || y.Op != token.ADD {
		return false
	}
	return (x.X == y.X && x.Y == y.Y) || (x.X == y.Y && x.Y == y.X)
}

// covers: every element of x is consumed exactly once by the code of fn (see the file comment)
func (t *tiler) covers(fn *ssa.Function, x ssa.Value, what string, depth int) bool {
	if depth > 4 {
		return t.fail("%s: nesting too deep", what)
	}
	if t.seen[x] {
		return true
	}
	t.seen[x] = true
	fi := GetFnInfo(fn)
	refs := x.Referrers()
	if refs == nil {
		return t.fail("%s is not used", what)
	}
	consumers := 0
	ok := true
	for _, r := range *refs {
		site := t.P.Pos(r.Pos())
		switch u := r.(type) {
		case *ssa.DebugRef:
		case *ssa.Call:
			if b, isB := u.Common().Value.(*ssa.Builtin); isB {
				switch b.Name() {
				case "len", "cap":
					continue
				}
				ok = t.fail("%s is handed to %s at %s", what, b.Name(), site)
				continue
			}
			callee := u.Common().StaticCallee()
			if callee == nil || callee.Blocks == nil || !t.P.InModule(callee) {
				ok = t.fail("%s is handed to a call that is not resolved at %s", what, site)
				continue
			}
			for ai, a := range u.Common().Args {
				if a != x {
					continue
				}
				if ai >= len(callee.Params) {
					ok = t.fail("%s is passed variadically at %s", what, site)
					continue
				}
				consumers++
				if !t.covers(callee, callee.Params[ai], what+"→"+callee.Name(), depth+1) {
					ok = false
				}
			}
		case *ssa.ChangeType:
			consumers++
			if !t.covers(fn, u, what, depth) {
				ok = false
			}
		case *ssa.Slice:
			if u.X != x {
				continue // x used as a bound? not possible for a slice
			}
			if u.Low == nil && u.High == nil {
				consumers++
				if !t.covers(fn, u, what, depth) {
					ok = false
				}
				continue
			}
			if u.Low == nil {
				ok = t.fail("%s: the window %s at %s does not start at a loop variable", what, u.String(), site)
				continue
			}
			l := fi.IvOf[u.Low]
			w, wok := windowWidth(u.High, u.Low, x)
			if !wok {
				ok = t.fail("%s: the window at %s is not [i, min(len, i+W))", what, site)
				continue
			}
			if okk, why := tiledOver(l, x, w); !okk {
				ok = t.fail("%s: window at %s: %s", what, site, why)
				continue
			}
			if !mustInLoop(fi, l, u.Block()) {
				ok = t.fail("%s: the window at %s is not taken in every iteration", what, site)
				continue
			}
			consumers++
			if !t.covers(fn, u, fmt.Sprintf("%s[i:i+%d]", what, w), depth+1) {
				ok = false
			}
		case *ssa.IndexAddr:
			if u.X != x {
				continue
			}
			if l := fi.IvOf[u.Index]; l != nil {
				if okk, why := tiledOver(l, x, 1); !okk {
					ok = t.fail("%s: element access at %s: %s", what, site, why)
					continue
				}
				if !everyIteration(fi, l, u.Block(), u.Index, x) {
					ok = t.fail("%s: the element access at %s is conditional", what, site)
					continue
				}
				consumers++
				t.leaves = append(t.leaves, fmt.Sprintf("%s[i] %s", what, site))
				continue
			}
			if add, isAdd := u.Index.(*ssa.BinOp); isAdd && add.Op == token.ADD {
				lo, li := fi.IvOf[add.X], fi.IvOf[add.Y]
				if lo != nil && li != nil {
					if li.Parent != lo && lo.Parent == li {
						lo, li = li, lo
					}
					W, isC := int64(0), false
					if li.Bound != nil {
						W, isC = constInt(stripCopies(li.Bound))
					}
					if !li.Counted || li.StartConst == nil || *li.StartConst != 0 || li.Step != 1 || li.Op != token.LSS || !isC || !li.SingleExit {
						ok = t.fail("%s: element access at %s: the inner index does not run 0 … W−1 for a constant W", what, site)
						continue
					}
					if okk, why := tiledOver(lo, x, W); !okk {
						ok = t.fail("%s: element access [i+j] at %s: %s", what, site, why)
						continue
					}
					if li.Parent != lo || !everyIteration(fi, li, u.Block(), u.Index, x) || !mustInLoop(fi, lo, li.Header) {
						ok = t.fail("%s: the element access [i+j] at %s is conditional (other than by its own bounds guard)", what, site)
						continue
					}
					consumers++
					t.leaves = append(t.leaves, fmt.Sprintf("%s[i+j], j<%d %s", what, W, site))
					continue
				}
			}
			ok = t.fail("%s: element access at %s with an index that is not a loop variable (or i+j of two)", what, site)
		default:
			ok = t.fail("%s flows into %T at %s", what, r, site)
		}
	}
	if consumers == 0 && ok {
		return t.fail("%s is never read", what)
	}
	return ok
}

// listParam: the first parameter of fn that is a slice of goldilocks.Variable
func listParam(fn *ssa.Function) *ssa.Parameter {
	for _, p := range fn.Params {
		if s, ok := p.Type().Underlying().(*types.Slice); ok && typeIs(s.Elem(), "goldilocks.Variable") {
			return p
		}
	}
	return nil
}

// ruleAbsorbTiling: the obligation for one hashing function
func ruleAbsorbTiling(cx *Ctx, key, pkg, name string) []Obligation {
	P := cx.P
	desc := "every element of the hashed list is absorbed exactly once, in order: the loops over the input tile [0, len): they start at 0, run while index < len(list), advance by exactly the width of the window they consume, and windows are [i, min(len, i+W)) (an off-by-one bound, a wider stride or an iteration count that is not the ceiling would drop or repeat elements for some lengths only)"
	fn := P.Func(pkg, name)
	if fn == nil {
		return []Obligation{undecided(key, desc, pkg+"."+name+" not found")}
	}
	x := listParam(fn)
	if x == nil {
		return []Obligation{undecided(key, desc, "no list-of-Goldilocks parameter in "+P.FnName(fn))}
	}
	t := &tiler{P: P, seen: map[ssa.Value]bool{}}
	if !t.covers(fn, x, x.Name(), 0) {
		return []Obligation{bad(key, desc, strings.Join(t.why, " | "), P.FnName(fn)+" "+P.Pos(fn.Pos()))}
	}
	if len(t.leaves) == 0 {
		return []Obligation{undecided(key, desc, "no element access found under "+P.FnName(fn))}
	}
	return []Obligation{good(key, desc, P.FnName(fn)+": "+strings.Join(t.leaves, "; "))}
}
