package main

// Call handling of the abstract interpreter: module calls (descended, memoised), interface calls into
// the module (CHA), the trusted primitive table of gnark's API (which methods emit constraints and
// which only compute), Go builtins, and constant folding of the few pure library functions used to
// build constants.

import (
	"fmt"
	"go/constant"
	"go/token"
	"go/types"
	"math/big"
	"sort"
	"strings"

	"golang.org/x/tools/go/ssa"
)

const maxExprDepth = 5

var goldilocksP = func() constant.Value {
	p := new(big.Int).Lsh(big.NewInt(1), 64)
	p.Sub(p, new(big.Int).Lsh(big.NewInt(1), 32))
	p.Add(p, big.NewInt(1))
	return constant.Make(p)
}()

func (in *Interp) call(act *activation, b *ssa.BasicBlock, instr ssa.CallInstruction) *Val {
	com := instr.Common()
	site := instr.Pos()
	var args []*Val
	for _, a := range com.Args {
		args = append(args, in.val(act, a))
	}
	_, isDefer := instr.(*ssa.Defer)
	if com.IsInvoke() {
		recv := in.val(act, com.Value)
		return in.invoke(act, b, site, com.Method, recv, args)
	}
	switch f := com.Value.(type) {
	case *ssa.Builtin:
		return in.builtin(act, b, instr, f.Name(), args)
	case *ssa.Function:
		if isDefer && !in.P.InModule(f) {
			return nil
		}
		return in.static(act, b, site, f, args, nil)
	case *ssa.MakeClosure:
		fn, _ := f.Fn.(*ssa.Function)
		var bound []*Val
		for _, bv := range f.Bindings {
			bound = append(bound, in.val(act, bv))
		}
		return in.static(act, b, site, fn, args, bound)
	default:
		fv := in.val(act, com.Value)
		if fv != nil && fv.Fn != nil {
			return in.static(act, b, site, fv.Fn, args, fv.Bound)
		}
		all := args
		if fv != nil {
			all = append([]*Val{fv}, args...)
		}
		return in.blob("dyncall", all)
	}
}

func stripBnd(v *Val, depth int) *Val {
	if v == nil || depth > 8 {
		return v
	}
	need := len(v.bnd) > 0
	if !need {
		for _, k := range v.Kids {
			if k != nil && (len(k.bnd) > 0 || len(k.Kids) > 0) {
				need = true
				break
			}
		}
	}
	if !need {
		return v
	}
	c := *v
	c.fpOK = false
	c.bnd = nil
	if len(v.Kids) > 0 {
		c.Kids = make(map[string]*Val, len(v.Kids))
		for k, kid := range v.Kids {
			c.Kids[k] = stripBnd(kid, depth+1)
		}
	}
	return &c
}

func (in *Interp) static(act *activation, b *ssa.BasicBlock, site token.Pos, fn *ssa.Function, args []*Val, bound []*Val) *Val {
	if fn == nil {
		return in.blob("nilfn", args)
	}
	if !in.P.InModule(fn) {
		return in.external(act, b, site, fn.String(), fn.Signature, nil, args)
	}
	callerLayer := in.Layer[fnPkgShort(act.fn)]
	calleeLayer := in.Layer[fnPkgShort(fn)]
	if fn == in.CanonFn && len(args) >= 2 {
		in.emit(act, b, &Rec{Kind: "canon", Site: site, Args: []*Val{args[1]}, Callee: fn})
	}
	if in.RangePrm[fn] && len(args) >= 3 && act.fn != fn {
		in.emit(act, b, &Rec{Kind: "range", Site: site, Args: []*Val{args[1]}, Width: args[2], Callee: fn})
		return &Val{}
	}
	if in.Opaque[fn] {
		in.emit(act, b, &Rec{Kind: "call", Site: site, Callee: fn, Args: args})
		return in.blob(fn.Name(), args)
	}
	cargs := args
	cross := !callerLayer && calleeLayer
	if calleeLayer && in.OpaquePure && len(bound) == 0 && act.fn != fn && in.isPure(fn) {
		in.emit(act, b, &Rec{Kind: "call", Site: site, Callee: fn, Args: args})
		return in.blob(fn.Name(), args)
	}
	if cross {
		cargs = make([]*Val, len(args))
		for i, a := range args {
			if a == nil {
				continue
			}
			c := *stripBnd(a, 0)
			c.fpOK = false
			c.bnd = []string{fmt.Sprintf("b%d", i)}
			cargs[i] = &c
		}
	}
	in.pathStack = append(in.pathStack, site)
	res := in.callFnB(fn, cargs, bound)
	in.pathStack = in.pathStack[:len(in.pathStack)-1]
	in.emit(act, b, &Rec{Kind: "call", Site: site, Callee: fn, Args: args, sub: res})
	ret := res.Ret
	if cross {
		ret = stripBnd(ret, 0)
	}
	if ret == nil {
		ret = &Val{}
	}
	if tag, ok := in.TagFns[fn]; ok {
		rc := *ret
		rc.fpOK = false
		rc.From = sortedUnion(rc.From, []string{tag + ":" + in.PathKey(site)})
		ret = &rc
	}
	return ret
}

func (in *Interp) callFnB(fn *ssa.Function, args []*Val, bound []*Val) *Result {
	if len(bound) == 0 {
		return in.callFn(fn, args)
	}
	// closures: bind free variables by passing them as extra leading pseudo-parameters
	all := append(append([]*Val{}, bound...), args...)
	key := in.memoKey(fn, all) + "/closure"
	if r, ok := in.memo[key]; ok {
		return r
	}
	if in.stack[fn] > 0 {
		return &Result{Ret: in.blob("rec:"+fn.Name(), all), Fn: fn, Layer: in.Layer[fnPkgShort(fn)]}
	}
	in.stack[fn]++
	defer func() { in.stack[fn]-- }()
	fi := GetFnInfo(fn)
	in.nextAct++
	act := &activation{fn: fn, fi: fi, env: map[ssa.Value]*Val{}, cells: map[ssa.Value]*Cell{}, loops: map[*SLoop]int{}, id: in.nextAct}
	for i, fv := range fn.FreeVars {
		if i < len(bound) {
			act.env[fv] = bound[i]
		}
	}
	for i, p := range fn.Params {
		if i < len(args) {
			act.env[p] = args[i]
		}
	}
	in.runBody(act)
	if len(in.frames) > 0 { // the entry's own result keeps its load markers (rules inspect them)
		act.ret = stripFrom(act.ret, 0)
	}
	res := &Result{Ret: act.ret, Recs: act.recs, Fn: fn, Layer: in.Layer[fnPkgShort(fn)]}
	in.memo[key] = res
	return res
}

// ---------------------------------------------------------------- interface calls

func ifaceShort(m *types.Func) string {
	recv := m.Type().(*types.Signature).Recv()
	if recv == nil {
		return m.Name()
	}
	t := recv.Type()
	if n, ok := t.(*types.Named); ok {
		pk := ""
		if n.Obj().Pkg() != nil {
			pk = n.Obj().Pkg().Name() + "."
		}
		return pk + n.Obj().Name() + "." + m.Name()
	}
	return m.Name()
}

func (in *Interp) implementations(m *types.Func) []*ssa.Function {
	key := m.FullName()
	if r, ok := in.ifaceImp[key]; ok {
		return r
	}
	recv := m.Type().(*types.Signature).Recv().Type()
	iface, _ := recv.Underlying().(*types.Interface)
	var out []*ssa.Function
	if iface != nil {
		for _, sp := range in.P.SPkgs {
			for _, mem := range sp.Members {
				tn, ok := mem.(*ssa.Type)
				if !ok {
					continue
				}
				for _, t := range []types.Type{tn.Type(), types.NewPointer(tn.Type())} {
					if _, isIface := tn.Type().Underlying().(*types.Interface); isIface {
						continue
					}
					if !types.Implements(t, iface) {
						continue
					}
					sel := in.P.Prog.MethodSets.MethodSet(t).Lookup(m.Pkg(), m.Name())
					if sel == nil {
						continue
					}
					if f := in.P.Prog.MethodValue(sel); f != nil {
						out = append(out, f)
					}
					break
				}
			}
		}
	}
	sort.Slice(out, func(i, j int) bool { return out[i].String() < out[j].String() })
	in.ifaceImp[key] = out
	return out
}

func (in *Interp) invoke(act *activation, b *ssa.BasicBlock, site token.Pos, m *types.Func, recv *Val, args []*Val) *Val {
	if m.Pkg() != nil && strings.HasPrefix(m.Pkg().Path(), ModPath) {
		impls := in.implementations(m)
		if len(impls) == 0 {
			return in.blob("iface:"+m.Name(), append([]*Val{recv}, args...))
		}
		var r *Val
		for _, f := range impls {
			if !in.P.InModule(f) {
				continue
			}
			in.pathStack = append(in.pathStack, site)
			res := in.callFn(f, append([]*Val{recv}, args...))
			in.pathStack = in.pathStack[:len(in.pathStack)-1]
			in.emit(act, b, &Rec{Kind: "call", Site: site, Callee: f, Args: args, sub: res, subMay: true})
			r = in.Join(r, res.Ret)
		}
		if r == nil {
			r = &Val{}
		}
		return r
	}
	return in.external(act, b, site, ifaceShort(m), m.Type().(*types.Signature), recv, args)
}

// ---------------------------------------------------------------- externals (trusted primitive table)

func bigOf(v *Val) *big.Int {
	if v == nil || v.K == nil || v.K.Kind() != constant.Int {
		return nil
	}
	s := v.K.ExactString()
	z, ok := new(big.Int).SetString(s, 10)
	if !ok {
		return nil
	}
	return z
}

func kBig(z *big.Int) *Val {
	k := constant.Make(new(big.Int).Set(z))
	return &Val{K: k, Sym: k.ExactString()}
}

// varargs returns the elements of a variadic argument slice built by the compiler.
func (in *Interp) varargs(v *Val) []*Val {
	if v == nil {
		return nil
	}
	if v.SeqOK {
		return v.Seq
	}
	if v.Cell != nil && v.Cell.Content != nil {
		var out []*Val
		for i := 0; ; i++ {
			k, ok := v.Cell.Content.Kids[fmt.Sprintf("[%d]", i)]
			if !ok {
				break
			}
			out = append(out, k)
		}
		if len(out) == len(v.Cell.Content.Kids) {
			return out
		}
		return []*Val{in.Narrow(v, "[?]")}
	}
	if v.K != nil {
		return nil
	}
	return []*Val{in.Narrow(v, "[?]")}
}

func (in *Interp) external(act *activation, b *ssa.BasicBlock, site token.Pos, name string, sig *types.Signature, recv *Val, args []*Val) *Val {
	all := args
	if recv != nil {
		all = append([]*Val{recv}, args...)
	}
	short := name
	if i := strings.LastIndex(short, "/"); i >= 0 {
		short = short[i+1:]
	}
	short = strings.TrimPrefix(short, "(")
	short = strings.Replace(short, ").", ".", 1)
	short = strings.Replace(short, "*", "", 1)
	mk := func(op string, xs []*Val) *Val {
		r := &Val{Mixed: true}
		d := 0
		ys := make([]*Val, len(xs))
		for i, a := range xs {
			r.Deps = r.Deps.Or(in.AllDeps(a))
			ys[i] = a
			if a != nil && a.Ex != nil {
				if a.exd >= maxExprDepth {
					c := *a
					c.fpOK = false
					c.Ex = nil
					c.exd = 0
					ys[i] = &c
					d = maxExprDepth - 1 // saturate: the result is stripped again wherever it is used
				} else if a.exd > d {
					d = a.exd
				}
			}
		}
		r.Ex = &Expr{Op: op, Args: ys, Site: site}
		r.exd = d + 1
		return r
	}
	switch short {
	// ---- constraint-emitting API methods
	case "frontend.API.AssertIsEqual":
		for _, e := range eqSplit(args, 0) {
			in.emit(act, b, &Rec{Kind: "eq", Site: site, Args: eqNormalise(e)})
		}
		return &Val{}
	case "frontend.API.AssertIsDifferent":
		in.emit(act, b, &Rec{Kind: "neq", Site: site, Args: args})
		return &Val{}
	case "frontend.API.AssertIsBoolean":
		in.emit(act, b, &Rec{Kind: "bool", Site: site, Args: args})
		return &Val{}
	case "frontend.API.AssertIsLessOrEqual":
		in.emit(act, b, &Rec{Kind: "leq", Site: site, Args: args})
		return &Val{}
	case "frontend.Rangechecker.Check":
		r := &Rec{Kind: "rcheck", Site: site, Args: []*Val{args[0]}}
		if len(args) > 1 {
			r.Width = args[1]
		}
		in.emit(act, b, r)
		return &Val{}
	case "frontend.API.ToBinary":
		r := &Rec{Kind: "tobin", Site: site, Args: []*Val{args[0]}}
		if len(args) > 1 {
			if va := in.varargs(args[1]); len(va) > 0 {
				r.Width = va[0]
			}
		}
		in.emit(act, b, r)
		res := mk("ToBinary", []*Val{args[0]})
		res.Dir = []string{"X:ToBinary@" + in.P.Pos(site)}
		res.Mixed = false
		return res
	case "bits.ToBinary":
		// bits.ToBinary(api, v, opts...) constrains v = Σ b_i 2^i with boolean b_i — unless an option removes the
		// booleanity constraints (WithUnconstrainedOutputs) or is not understood: only WithNbDigits keeps it a sink.
		r := &Rec{Kind: "tobin", Site: site}
		if len(args) > 1 {
			r.Args = []*Val{args[1]}
		}
		if len(args) > 2 {
			for _, o := range in.varargs(args[2]) {
				if o != nil && o.Ex != nil && o.Ex.Op == "bits.WithNbDigits" && len(o.Ex.Args) > 0 {
					r.Width = o.Ex.Args[0]
				} else {
					r.Kind = "tobin-unconstrained"
				}
			}
		}
		in.emit(act, b, r)
		res := mk("ToBinary", r.Args)
		res.Dir = []string{"X:ToBinary@" + in.P.Pos(site)}
		res.Mixed = false
		return res
	case "bits.WithNbDigits":
		return mk("bits.WithNbDigits", args)
	case "frontend.Compiler.NewHint":
		return in.newHint(act, b, site, args)
	case "frontend.Compiler.Defer":
		r := &Rec{Kind: "defer", Site: site, Args: args}
		if len(args) > 0 && args[0] != nil {
			r.Callee = args[0].Fn
		}
		in.emit(act, b, r)
		return &Val{}
	// ---- selection primitives: the result is one of the operands
	case "frontend.API.Select":
		r := mk("Select", args)
		if len(args) == 3 && args[1] != nil && args[2] != nil {
			r.Dir = sortedUnion(args[1].Dir, args[2].Dir)
			r.Mixed = args[1].Mixed || args[2].Mixed || (len(args[1].Dir) == 0) != (len(args[2].Dir) == 0)
			if len(args[1].bnd) > 0 && len(args[2].bnd) > 0 {
				r.bnd = sortedUnion(args[1].bnd, args[2].bnd)
			}
		}
		return r
	case "frontend.API.Lookup2":
		r := mk("Lookup2", args)
		if len(args) == 6 {
			r.Mixed = false
			allB := true
			for _, a := range args[2:] {
				if a == nil {
					r.Mixed = true
					allB = false
					continue
				}
				r.Dir = sortedUnion(r.Dir, a.Dir)
				if a.Mixed || len(a.Dir) == 0 {
					r.Mixed = true
				}
				if len(a.bnd) == 0 {
					allB = false
				}
			}
			if allB {
				for _, a := range args[2:] {
					r.bnd = sortedUnion(r.bnd, a.bnd)
				}
			}
		}
		return r
	// ---- pure constant builders
	case "big.NewInt":
		if z := bigOf(args[0]); z != nil {
			return kBig(z)
		}
		if args[0] != nil && args[0].Sym != "" {
			return &Val{Sym: args[0].Sym, Deps: args[0].Deps}
		}
	case "big.Int.SetUint64", "big.Int.SetInt64", "big.Int.Set":
		if len(args) > 0 {
			if z := bigOf(args[len(args)-1]); z != nil {
				return kBig(z)
			}
		}
	case "big.Int.Mul", "big.Int.Add", "big.Int.Sub", "big.Int.Lsh", "big.Int.Exp":
		// receiver is the destination; operands follow
		var xs []*big.Int
		for _, a := range args {
			xs = append(xs, bigOf(a))
		}
		if recv == nil && len(xs) >= 3 && xs[1] != nil && xs[2] != nil {
			switch short {
			case "big.Int.Mul":
				return kBig(new(big.Int).Mul(xs[1], xs[2]))
			case "big.Int.Add":
				return kBig(new(big.Int).Add(xs[1], xs[2]))
			case "big.Int.Sub":
				return kBig(new(big.Int).Sub(xs[1], xs[2]))
			case "big.Int.Lsh":
				if xs[2].IsUint64() && xs[2].Uint64() < 4096 {
					return kBig(new(big.Int).Lsh(xs[1], uint(xs[2].Uint64())))
				}
			case "big.Int.Exp":
				if len(args) >= 4 && args[3] != nil && args[3].Sym == "nil" && xs[2].IsUint64() && xs[2].Uint64() < 64 {
					return kBig(new(big.Int).Exp(xs[1], xs[2], nil))
				}
			}
		}
		if short == "big.Int.Exp" && recv == nil && len(xs) >= 3 && xs[1] != nil && args[2] != nil && args[2].Sym != "" && len(args) >= 4 && args[3] != nil && args[3].Sym == "nil" {
			// constant base, symbolic exponent: keep the shape (used by the limb-packing rules)
			return &Val{Sym: "exp(" + xs[1].String() + "," + args[2].Sym + ")", Deps: args[2].Deps}
		}
	case "math.Pow":
		if len(args) == 2 && args[0] != nil && args[1] != nil && args[0].K != nil && args[1].K != nil {
			x, _ := constant.Float64Val(constant.ToFloat(args[0].K))
			y, _ := constant.Float64Val(constant.ToFloat(args[1].K))
			if x == 2 && y >= 0 && y < 1000 && y == float64(int(y)) {
				k := constant.Shift(constant.MakeInt64(1), token.SHL, uint(y))
				return &Val{K: constant.ToFloat(k)}
			}
		}
	case "big.Int.Uint64":
		if len(args) > 0 {
			if z := bigOf(args[0]); z != nil && z.IsUint64() {
				return kBig(z)
			}
		}
	case "emulated.Goldilocks.Modulus", "emparams.Goldilocks.Modulus":
		return &Val{K: goldilocksP, Sym: goldilocksP.ExactString()}
	}
	// ---- everything else computes: API arithmetic keeps an expression shape
	if strings.HasPrefix(short, "frontend.API.") {
		return mk(strings.TrimPrefix(short, "frontend.API."), args)
	}
	if short == "rangecheck.New" || strings.HasPrefix(short, "frontend.Compiler.") {
		return mk(short, args)
	}
	res := in.blob(short, all)
	// an unmodelled callee may write through the pointers it is given: weak update of the pointed local cells
	for _, a := range all {
		if a != nil && a.Cell != nil && !strings.HasPrefix(short, "fmt.") && !strings.HasPrefix(short, "sync.") {
			in.cellWrite(a.Cell, a.CSel, &Val{Mixed: true, Deps: res.Deps})
		}
	}
	return res
}

func (in *Interp) newHint(act *activation, b *ssa.BasicBlock, site token.Pos, args []*Val) *Val {
	// NewHint(f, nbOutputs, inputs...)
	var hf *ssa.Function
	if len(args) > 0 && args[0] != nil {
		hf = args[0].Fn
	}
	n := 0
	if len(args) > 1 && args[1] != nil && args[1].K != nil {
		if v, ok := constant.Int64Val(args[1].K); ok {
			n = int(v)
		}
	}
	var inputs []*Val
	if len(args) > 2 {
		inputs = in.varargs(args[2])
	}
	name := "?"
	if hf != nil {
		name = hf.Name()
	}
	root := fmt.Sprintf("H:%s@%s", name, in.P.Pos(site))
	in.emit(act, b, &Rec{Kind: "hint", Site: site, Args: inputs, HintFn: hf, HintN: n})
	var deps Bits
	for _, a := range inputs {
		deps = deps.Or(in.AllDeps(a))
	}
	outs := &Val{Kids: map[string]*Val{}}
	for k := 0; k < n; k++ {
		outs.Kids[fmt.Sprintf("[%d]", k)] = &Val{Dir: []string{fmt.Sprintf("%s#%d", root, k)}, Deps: deps, Ex: &Expr{Op: "hint:" + name, Args: inputs, Site: site}}
	}
	if n == 0 {
		outs.Mixed = true
		outs.Deps = deps
	}
	return &Val{Kids: map[string]*Val{"#0": outs, "#1": {K: constant.MakeBool(false), Sym: "nil"}}}
}

// ---------------------------------------------------------------- builtins

// constLenIs: the cell is a make([]T, n) with the constant n given (every element written at a constant index)
func constLenIs(c *Cell, n int) bool {
	c = c.find()
	if c.LenVal == nil || c.LenVal.K == nil {
		return false
	}
	k, exact := constant.Int64Val(c.LenVal.K)
	return exact && int(k) == n && n > 0
}

func (in *Interp) seqOf(v *Val) ([]*Val, bool) {
	if v == nil {
		return nil, false
	}
	if v.SeqOK && (len(v.Seq) > 0 || len(v.Dir) == 0) {
		return v.Seq, true
	}
	if v.K != nil && v.Sym == "nil" {
		return nil, true
	}
	if p, ok := v.Definite(); ok && v.Cell == nil {
		return []*Val{{Dir: []string{p}, SeqOK: true}}, true
	}
	if v.Cell != nil && len(v.Dir) == 0 && v.CSel == "" && v.Cell.Content != nil && (v.Cell.Name != "makeslice" || constLenIs(v.Cell, len(v.Cell.Content.Kids))) {
		var out []*Val
		for i := 0; ; i++ {
			k, ok := v.Cell.Content.Kids[fmt.Sprintf("[%d]", i)]
			if !ok {
				break
			}
			out = append(out, k)
		}
		if len(out) > 0 && len(out) == len(v.Cell.Content.Kids) {
			return out, true
		}
	}
	if v.Cell != nil && v.Cell.Content == nil && v.Cell.LenVal != nil && v.Cell.LenVal.K != nil && constant.Sign(v.Cell.LenVal.K) == 0 {
		return nil, true // make([]T, 0, …)
	}
	return nil, false
}

func (in *Interp) builtin(act *activation, b *ssa.BasicBlock, instr ssa.CallInstruction, name string, args []*Val) *Val {
	switch name {
	case "len", "cap":
		a := args[0]
		if a == nil {
			return nil
		}
		r := &Val{Deps: a.Deps, Aux: a}
		if a.K != nil && a.K.Kind() == constant.String {
			r.K = constant.MakeInt64(int64(len(constant.StringVal(a.K))))
		}
		r.LenOf = append(r.LenOf, a.Dir...)
		if a.Cell != nil {
			r.LenOf = sortedUnion(r.LenOf, []string{a.Cell.Tag + a.CSel})
			if a.Cell.LenVal != nil && len(a.Dir) == 0 && a.CSel == "" {
				r.Sym = symOrLen(a.Cell.LenVal)
				if a.Cell.LenVal.K != nil {
					r.K = a.Cell.LenVal.K
				}
				r.Deps = r.Deps.Or(in.AllDeps(a.Cell.LenVal))
			}
		}
		if a.SeqOK && len(a.Dir) == 0 {
			single := true
			for _, s := range a.Seq {
				if s.SeqOK {
					single = false
				}
			}
			if single {
				r.K = constant.MakeInt64(int64(len(a.Seq)))
			}
		}
		if r.Sym == "" && len(r.LenOf) == 1 {
			r.Sym = "len(" + r.LenOf[0] + ")"
		}
		return r
	case "append":
		v, _ := instr.(ssa.Value)
		s, t := args[0], (*Val)(nil)
		var c *Cell
		if s != nil && s.Cell != nil && baseSel(s.CSel) == "" {
			c = s.Cell.find() // weak in-place update: the result may share the first operand's backing array
			c.LenVal = nil    // …whose length is no longer the one it was made with
		} else {
			c = in.newCell(act, v, "append", instr.Pos())
		}
		if len(args) > 1 {
			t = args[1]
		}
		r := &Val{Cell: c}
		for _, x := range []*Val{s, t} {
			if x == nil {
				continue
			}
			if e := in.Narrow(x, "[?]"); e != nil && !(x.K != nil && x.Sym == "nil") {
				// drop the "loaded from" marker of the source cell: the element now lives in the new slice
				if len(x.Dir) == 0 || x.Cell != nil {
					ec := *e
					ec.fpOK = false
					ec.From = resultTags(e.From)
					// elements that come from a param-rooted slice keep their own paths through r.Dir below
					if x.Cell != nil && x.Cell.find() == c && baseSel(x.CSel) == "" {
						// appending to itself: nothing new
					} else if x.Cell != nil {
						cc := in.cellRead(x.Cell, x.CSel+"[?]")
						c2 := *cc
						c2.From = resultTags(cc.From)
						c2.fpOK = false
						in.cellWrite(c, "[*]", &c2)
					} else {
						ec.Dir = nil
						if len(ec.Kids) > 0 || !ec.Deps.Empty() || ec.Ex != nil {
							in.cellWrite(c, "[*]", &ec)
						}
					}
				}
			}
			r.Dir = sortedUnion(r.Dir, x.Dir)
			r.Deps = r.Deps.Or(x.Deps)
		}
		ss, ok1 := in.seqOf(s)
		ts, ok2 := in.seqOf(t)
		if ok1 && ok2 && len(ss)+len(ts) < 64 {
			r.Seq = append(append([]*Val{}, ss...), ts...)
			r.SeqOK = true
		}
		return r
	case "copy":
		if args[0] != nil && args[0].Cell != nil && args[1] != nil {
			in.cellWrite(args[0].Cell, args[0].CSel+"[*]", in.Narrow(args[1], "[?]"))
		}
		return &Val{}
	case "panic", "print", "println", "delete", "close":
		return &Val{}
	}
	return in.blob("builtin:"+name, args)
}

// resultTags keeps the result tags of a value (which squeeze produced it) and drops the markers of the
// local cell it was loaded from ("c:…"): an element appended to a slice is still the same squeeze result.
func resultTags(from []string) []string {
	var out []string
	for _, f := range from {
		if !strings.HasPrefix(f, "c:") {
			out = append(out, f)
		}
	}
	return out
}

// ---------------------------------------------------------------- purity of gadget-layer functions

func (in *Interp) hasBnd(v *Val, depth int) bool {
	if v == nil || depth > 8 {
		return false
	}
	if len(v.bnd) > 0 {
		return true
	}
	for _, k := range v.Kids {
		if in.hasBnd(k, depth+1) {
			return true
		}
	}
	for _, s := range v.Seq {
		if in.hasBnd(s, depth+1) {
			return true
		}
	}
	if v.Cell != nil && v.Cell.Content != nil && in.hasBnd(v.Cell.Content, depth+1) {
		return true
	}
	return false
}

// isPure decides, by evaluating fn once on symbolic arguments with full descent, whether a gadget-layer
// function is pure arithmetic from its caller's point of view.
func (in *Interp) isPure(fn *ssa.Function) bool {
	if v, ok := in.pureCache[fn]; ok {
		return v == 1
	}
	in.pureCache[fn] = 0 // in case of re-entrance: not pure
	g := in
	if !in.pureMode {
		if in.gadget == nil {
			in.gadget = NewInterp(in.P)
			in.gadget.OpaquePure = true
			in.gadget.pureMode = true
			in.gadget.pureCache = in.pureCache
		}
		g = in.gadget
	}
	var args []*Val
	for i := range fn.Params {
		args = append(args, &Val{Dir: []string{fmt.Sprintf("q%d", i)}, bnd: []string{fmt.Sprintf("b%d", i)}})
	}
	res := g.callFn(fn, args)
	pure := !g.hasBnd(res.Ret, 0)
	if pure {
		for _, r := range g.Flatten(res) {
			if keepAcrossLayer(r) {
				pure = false
				break
			}
			if r.Kind == "store" && len(r.Args) > 0 && r.Args[0] != nil {
				for _, p := range r.Args[0].Dir {
					if strings.HasPrefix(p, "q") && !strings.HasPrefix(p, "q0.") {
						pure = false
					}
				}
			}
			if r.Kind == "defer" {
				pure = false
			}
		}
	}
	if pure {
		in.pureCache[fn] = 1
	}
	return pure
}

func stripFrom(v *Val, depth int) *Val {
	if v == nil || depth > 8 {
		return v
	}
	need := len(v.From) > 0
	if !need {
		for _, k := range v.Kids {
			if k != nil && (len(k.From) > 0 || len(k.Kids) > 0) {
				need = true
				break
			}
		}
	}
	if !need {
		return v
	}
	c := *v
	c.fpOK = false
	c.From = nil
	for _, f := range v.From {
		if !strings.HasPrefix(f, "c:") {
			c.From = append(c.From, f) // result tags (not local-cell markers) survive the return
		}
	}
	if len(v.Kids) > 0 {
		c.Kids = make(map[string]*Val, len(v.Kids))
		for k, kid := range v.Kids {
			c.Kids[k] = stripFrom(kid, depth+1)
		}
	}
	return &c
}

// PathKey: the static call path from the entry to a call site, as used in result tags.
func (in *Interp) PathKey(site token.Pos) string {
	var sb strings.Builder
	for _, p := range in.pathStack {
		fmt.Fprintf(&sb, "%d/", p)
	}
	fmt.Fprintf(&sb, "%d", site)
	return sb.String()
}

// eqNormalise rewrites the flag idioms of an equality into the equality itself:
//
//	AssertIsEqual(IsZero(Sub(x, y)), 1)          ≡  x == y
//	AssertIsEqual(Sub(1, IsZero(Sub(x, y))), 0)  ≡  x == y
//	AssertIsEqual(Sub(x, y), 0)                  ≡  x == y
//
// so that a gadget split into "compute a mismatch flag" + "assert the flag" is seen like the direct assertion.
func eqNormalise(args []*Val) []*Val {
	if len(args) != 2 {
		return args
	}
	isK := func(v *Val, k int64) bool {
		if v == nil || v.K == nil {
			return false
		}
		c := constOf(v)
		return c != nil && c.IsInt64() && c.Int64() == k
	}
	opArgs := func(v *Val, op string, n int) []*Val {
		if v == nil || v.Ex == nil || v.Ex.Op != op || len(v.Ex.Args) < n {
			return nil
		}
		return v.Ex.Args
	}
	diff := func(v *Val) []*Val {
		if a := opArgs(v, "Sub", 2); a != nil && len(a) >= 2 {
			// Sub carries a trailing variadic marker in some shapes: take the first two operands
			return []*Val{a[0], a[1]}
		}
		return nil
	}
	for _, pair := range [][2]*Val{{args[0], args[1]}, {args[1], args[0]}} {
		a, k := pair[0], pair[1]
		if isK(k, 1) {
			if z := opArgs(a, "IsZero", 1); z != nil {
				if d := diff(z[0]); d != nil {
					return d
				}
			}
		}
		if isK(k, 0) {
			if sa := opArgs(a, "Sub", 2); sa != nil && isK(sa[0], 1) {
				if z := opArgs(sa[1], "IsZero", 1); z != nil {
					if d := diff(z[0]); d != nil {
						return d
					}
				}
			}
		}
	}
	return args
}

// eqSplit: an asserted conjunction is several assertions — AssertIsEqual(Or(a, b), 0) ≡ a == 0 ∧ b == 0 and
// AssertIsEqual(And(a, b), 1) ≡ a == 1 ∧ b == 1 (straight-line trees only; a flag accumulated across a loop is left
// as it is)
func eqSplit(args []*Val, depth int) [][]*Val {
	if len(args) != 2 || depth > 4 {
		return [][]*Val{args}
	}
	isK := func(v *Val, k int64) bool {
		if v == nil || v.K == nil {
			return false
		}
		c := constOf(v)
		return c != nil && c.IsInt64() && c.Int64() == k
	}
	for _, pair := range [][2]*Val{{args[0], args[1]}, {args[1], args[0]}} {
		a, k := pair[0], pair[1]
		if a == nil || a.Ex == nil || len(a.Ex.Args) < 2 {
			continue
		}
		if (a.Ex.Op == "Or" && isK(k, 0)) || (a.Ex.Op == "And" && isK(k, 1)) {
			var out [][]*Val
			out = append(out, eqSplit([]*Val{a.Ex.Args[0], k}, depth+1)...)
			out = append(out, eqSplit([]*Val{a.Ex.Args[1], k}, depth+1)...)
			return out
		}
	}
	return [][]*Val{args}
}
