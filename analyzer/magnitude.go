package main

// W2 — magnitude analysis ("honest fit"): an abstract interpreter over the SSA of the gadget layer
// (packages goldilocks and poseidon) with
//
//	field values    → an upper bound on the integer the honest prover computes (nil = unknown)
//	Go integers     → a constant or unknown (constant propagation: loop counters, table indices, slice lengths)
//	arrays/structs  → one abstract value per element / field (strong updates)
//	slices          → a summary of the elements and the length when it is known
//
// Loops whose counter is concrete at entry are unrolled by plain execution; every other loop is solved by Kleene
// iteration at its header (join = max, widening to unknown after three rounds). A branch on an unknown condition
// is executed on both sides up to its immediate post-dominator and joined there. Calls into the gadget layer are
// followed with the actual abstract arguments (context-sensitive); a call between functions of the upper layers
// (fri, plonk, gates, verifier, challenger) is not followed: every upper-layer function is a root of its own, its
// field-typed inputs assumed canonical (< p), and whatever it hands to another upper-layer function, stores or
// returns must be canonical again (the interface invariant, itself an obligation).
//
// Obligations produced (per primitive call site, worst case over all contexts that reach it):
//
//	fit/reduce      ReduceWithMaxBits(x, n): x < p·2^n          (the honest quotient fits its range check)
//	fit/canonical   MulAdd(a, b, c) / Inverse(x) operands < p    (the hints refuse larger operands)
//	fit/no-wrap     every intermediate value < r (BN254)         (integer reasoning is valid)
//	fit/interface   values crossing between upper-layer functions are canonical
//
// The analysis never executes repository code; it interprets the SSA with the abstract values above.

import (
	"fmt"
	"go/constant"
	"go/token"
	"go/types"
	"math/big"
	"os"
	"sort"
	"strings"

	"golang.org/x/tools/go/ssa"
)

type mkind int

const (
	mOther mkind = iota
	mInt
	mField
	mAgg   // array or struct: Elems
	mSlice // Cell = backing summary, N = length (-1 unknown)
	mPtr   // Cell + Path
	mTuple
	mFunc
)

type mv struct {
	kind  mkind
	K     *int64   // mInt: constant
	Lo    *int64   // mInt: known lower bound when the value is one of several constants
	Mag   *big.Int // mField: upper bound (nil = unknown)
	Elems []*mv    // mAgg / mTuple; mSlice with known content (len == N)
	Sum   *mv      // mSlice: join of all elements (always maintained)
	N     int      // mSlice: length, -1 unknown
	Cell  int      // mPtr: heap cell id (0 = unknown memory)
	Path  []int    // mPtr: element path inside the cell (-1 = unknown index)
	T     types.Type
	Fn    *ssa.Function
	Str   *string // string constant
}

var bigPm1 = new(big.Int).Sub(bigP, big.NewInt(1))

func mfield(b *big.Int) *mv { return &mv{kind: mField, Mag: b} }
func mint(k int64) *mv      { return &mv{kind: mInt, K: &k} }
func munkInt() *mv          { return &mv{kind: mInt} }

func (v *mv) String() string { return v.str(0) }
func (v *mv) str(d int) string {
	if v == nil {
		return "⊥"
	}
	if d > 3 {
		return "…"
	}
	switch v.kind {
	case mInt:
		if v.K != nil {
			return fmt.Sprint(*v.K)
		}
		return "int?"
	case mField:
		if v.Mag == nil {
			return "F?"
		}
		return fmt.Sprintf("F<2^%d", v.Mag.BitLen())
	case mAgg, mTuple:
		var p []string
		for _, e := range v.Elems {
			p = append(p, e.str(d+1))
		}
		return "{" + strings.Join(p, ",") + "}"
	case mSlice:
		return fmt.Sprintf("[]%s#%d", v.Sum.str(d+1), v.N)
	case mPtr:
		return fmt.Sprintf("&c%d%v", v.Cell, v.Path)
	case mFunc:
		return "fn"
	}
	return "?"
}

func (v *mv) fp(sb *strings.Builder, d int) {
	if v == nil {
		sb.WriteString("_")
		return
	}
	if d > 6 {
		sb.WriteString("…")
		return
	}
	switch v.kind {
	case mInt:
		if v.K != nil {
			fmt.Fprintf(sb, "i%d", *v.K)
		} else if v.Lo != nil {
			fmt.Fprintf(sb, "i>=%d", *v.Lo)
		} else {
			sb.WriteString("i?")
		}
	case mField:
		if v.Mag == nil {
			sb.WriteString("f?")
		} else {
			sb.WriteString("f" + v.Mag.Text(62))
		}
	case mAgg, mTuple:
		sb.WriteString("{")
		for _, e := range v.Elems {
			e.fp(sb, d+1)
			sb.WriteString(",")
		}
		sb.WriteString("}")
	case mSlice:
		fmt.Fprintf(sb, "s%d[", v.N)
		v.Sum.fp(sb, d+1)
		sb.WriteString("|")
		for _, e := range v.Elems {
			e.fp(sb, d+1)
			sb.WriteString(",")
		}
		sb.WriteString("]")
	case mPtr:
		fmt.Fprintf(sb, "p%d%v", v.Cell, v.Path)
	case mFunc:
		fmt.Fprintf(sb, "fn%p", v.Fn)
	default:
		sb.WriteString("o")
	}
}

func maxBig(a, b *big.Int) *big.Int {
	if a == nil || b == nil {
		return nil
	}
	if a.Cmp(b) >= 0 {
		return a
	}
	return b
}

// mjoin: least upper bound
func mjoin(a, b *mv) *mv {
	if a == nil {
		return b
	}
	if b == nil {
		return a
	}
	if a == b {
		return a
	}
	if a.kind != b.kind {
		return &mv{kind: mOther}
	}
	switch a.kind {
	case mInt:
		if a.K != nil && b.K != nil && *a.K == *b.K {
			return a
		}
		lo := func(x *mv) *int64 {
			if x.K != nil {
				return x.K
			}
			return x.Lo
		}
		if la, lb := lo(a), lo(b); la != nil && lb != nil {
			l := *la
			if *lb < l {
				l = *lb
			}
			return &mv{kind: mInt, Lo: &l}
		}
		return munkInt()
	case mField:
		return &mv{kind: mField, Mag: maxBig(a.Mag, b.Mag)}
	case mAgg, mTuple:
		if len(a.Elems) != len(b.Elems) {
			return &mv{kind: mOther}
		}
		r := &mv{kind: a.kind, T: a.T, Elems: make([]*mv, len(a.Elems))}
		same := true
		for i := range a.Elems {
			r.Elems[i] = mjoin(a.Elems[i], b.Elems[i])
			if r.Elems[i] != a.Elems[i] {
				same = false
			}
		}
		if same {
			return a
		}
		return r
	case mSlice:
		r := &mv{kind: mSlice, T: a.T, Sum: mjoin(a.Sum, b.Sum), N: a.N}
		if a.N != b.N {
			r.N = -1
		}
		if r.N >= 0 && len(a.Elems) == r.N && len(b.Elems) == r.N {
			r.Elems = make([]*mv, r.N)
			for i := range r.Elems {
				r.Elems[i] = mjoin(a.Elems[i], b.Elems[i])
			}
		}
		return r
	case mPtr:
		if a.Cell == b.Cell && fmt.Sprint(a.Path) == fmt.Sprint(b.Path) {
			return a
		}
		return &mv{kind: mPtr, Cell: 0, T: a.T}
	case mFunc:
		if a.Fn == b.Fn {
			return a
		}
	}
	return &mv{kind: mOther}
}

func mequal(a, b *mv) bool {
	var x, y strings.Builder
	a.fp(&x, 0)
	b.fp(&y, 0)
	return x.String() == y.String()
}

// mwiden: anything that still grows becomes unknown
func mwiden(old, nw *mv) *mv {
	if old == nil || nw == nil {
		return nw
	}
	if old.kind != nw.kind {
		return nw
	}
	switch nw.kind {
	case mField:
		if old.Mag != nil && nw.Mag != nil && nw.Mag.Cmp(old.Mag) > 0 {
			return &mv{kind: mField}
		}
	case mAgg, mTuple:
		if len(old.Elems) == len(nw.Elems) {
			r := &mv{kind: nw.kind, T: nw.T, Elems: make([]*mv, len(nw.Elems))}
			for i := range nw.Elems {
				r.Elems[i] = mwiden(old.Elems[i], nw.Elems[i])
			}
			return r
		}
	case mSlice:
		r := &mv{kind: mSlice, T: nw.T, Sum: mwiden(old.Sum, nw.Sum), N: nw.N}
		if old.N != nw.N {
			r.N = -1
		}
		return r
	}
	return nw
}

// ---- state

type mstate struct {
	heap map[int]*mv
	dead bool
}

func (s *mstate) clone() *mstate {
	h := make(map[int]*mv, len(s.heap))
	for k, v := range s.heap {
		h[k] = v
	}
	return &mstate{heap: h}
}

type mframe struct {
	fn    *ssa.Function
	env   map[ssa.Value]*mv
	ret   *mv
	path  string // call path id (for cell ids)
	depth int
	root  bool
}

func (f *mframe) cloneEnv() map[ssa.Value]*mv {
	e := make(map[ssa.Value]*mv, len(f.env))
	for k, v := range f.env {
		e[k] = v
	}
	return e
}

type mObl struct {
	Kind  string // reduce, canonical, no-wrap, interface
	Site  token.Pos
	Fn    *ssa.Function // function containing the site
	OK    bool
	Und   bool
	Bits  int
	Limit int
	Ctx   string
	Why   string
}

type magAnalyzer struct {
	P                  *Program
	gadget             map[string]bool
	fuel               int
	obls               map[string]*mObl // by kind + site: worst case
	cellIDs            map[string]int
	memo               map[string]*memoRes
	prims              map[*ssa.Function]string
	pdom               map[*ssa.Function][]int
	ctx                []string
	rootName           string
	steps              int
	notes              map[string]bool
	widthG             *big.Int
	mute               bool
	nRoots, totalSteps int
}

type memoRes struct {
	ret *mv
}

func newMagAnalyzer(P *Program) *magAnalyzer {
	m := &magAnalyzer{P: P, gadget: map[string]bool{"goldilocks": true, "poseidon": true}, obls: map[string]*mObl{}, cellIDs: map[string]int{}, memo: map[string]*memoRes{}, prims: map[*ssa.Function]string{}, pdom: map[*ssa.Function][]int{}, notes: map[string]bool{}}
	for name, kind := range map[string]string{"(*Chip).MulAdd": "muladd", "(*Chip).ReduceWithMaxBits": "reduce", "(*Chip).Inverse": "inverse", "(*Chip).RangeCheck": "sink", "(*Chip).RangeCheckWithMaxBits": "sink", "(*Chip).rangeCheckerCheck": "sink", "(*Chip).AssertIsEqual": "sink"} {
		if f := P.Func("goldilocks", name); f != nil {
			m.prims[f] = kind
		}
	}
	return m
}

func (m *magAnalyzer) cellID(key string) int {
	if id, ok := m.cellIDs[key]; ok {
		return id
	}
	id := len(m.cellIDs) + 1
	m.cellIDs[key] = id
	return id
}

func (m *magAnalyzer) note(s string) { m.notes[s] = true }

func (m *magAnalyzer) record(kind string, fn *ssa.Function, site token.Pos, ok, und bool, bits, limit int, why string) {
	if m.mute {
		return
	}
	key := fmt.Sprintf("%s@%d", kind, site)
	o := m.obls[key]
	ctx := m.rootName
	if len(m.ctx) > 0 {
		ctx += " → " + strings.Join(m.ctx, " → ")
	}
	n := &mObl{Kind: kind, Site: site, Fn: fn, OK: ok, Und: und, Bits: bits, Limit: limit, Ctx: ctx, Why: why}
	if o == nil {
		m.obls[key] = n
		return
	}
	// keep the worst: violation > undecided > ok; among ok the largest
	rank := func(x *mObl) int {
		if !x.OK && !x.Und {
			return 2
		}
		if x.Und {
			return 1
		}
		return 0
	}
	if rank(n) > rank(o) || (rank(n) == rank(o) && n.Bits > o.Bits) {
		m.obls[key] = n
	}
}

// ---- types → default abstract values

func isFieldType(t types.Type) bool {
	if n, ok := t.(*types.Named); ok {
		if n.Obj().Pkg() != nil && n.Obj().Pkg().Path() == gnarkFrontend && n.Obj().Name() == "Variable" {
			return true
		}
	}
	return false
}

// unknownOf: the abstract value of data of type t about which only the interface invariant is known
// (field elements are canonical; integers unknown)
func (m *magAnalyzer) unknownOf(t types.Type, depth int) *mv {
	if depth > 20 {
		return &mv{kind: mOther}
	}
	if isFieldType(t) {
		return mfield(bigPm1)
	}
	switch u := t.Underlying().(type) {
	case *types.Basic:
		if u.Info()&types.IsInteger != 0 {
			return munkInt()
		}
		if u.Info()&types.IsBoolean != 0 {
			return munkInt()
		}
		return &mv{kind: mOther}
	case *types.Struct:
		r := &mv{kind: mAgg, T: t, Elems: make([]*mv, u.NumFields())}
		for i := 0; i < u.NumFields(); i++ {
			r.Elems[i] = m.unknownOf(u.Field(i).Type(), depth+1)
		}
		return r
	case *types.Array:
		n := int(u.Len())
		if n > 64 {
			return &mv{kind: mOther}
		}
		r := &mv{kind: mAgg, T: t, Elems: make([]*mv, n)}
		e := m.unknownOf(u.Elem(), depth+1)
		for i := range r.Elems {
			r.Elems[i] = e
		}
		return r
	case *types.Slice:
		return &mv{kind: mSlice, T: t, Sum: m.unknownOf(u.Elem(), depth+1), N: -1}
	case *types.Pointer:
		return &mv{kind: mPtr, Cell: 0, T: t}
	case *types.Tuple:
		r := &mv{kind: mTuple, Elems: make([]*mv, u.Len())}
		for i := 0; i < u.Len(); i++ {
			r.Elems[i] = m.unknownOf(u.At(i).Type(), depth+1)
		}
		return r
	}
	return &mv{kind: mOther}
}

func (m *magAnalyzer) zeroOf(t types.Type, depth int) *mv {
	if depth > 20 {
		return &mv{kind: mOther}
	}
	if isFieldType(t) {
		return &mv{kind: mField, Mag: big.NewInt(0)} // nil interface: never used as a value before assignment
	}
	switch u := t.Underlying().(type) {
	case *types.Basic:
		if u.Info()&(types.IsInteger|types.IsBoolean) != 0 {
			return mint(0)
		}
	case *types.Struct:
		r := &mv{kind: mAgg, T: t, Elems: make([]*mv, u.NumFields())}
		for i := 0; i < u.NumFields(); i++ {
			r.Elems[i] = m.zeroOf(u.Field(i).Type(), depth+1)
		}
		return r
	case *types.Array:
		n := int(u.Len())
		if n > 64 {
			return &mv{kind: mOther}
		}
		r := &mv{kind: mAgg, T: t, Elems: make([]*mv, n)}
		for i := range r.Elems {
			r.Elems[i] = m.zeroOf(u.Elem(), depth+1)
		}
		return r
	case *types.Slice:
		return &mv{kind: mSlice, T: t, Sum: nil, N: 0, Elems: []*mv{}}
	case *types.Pointer:
		return &mv{kind: mPtr, Cell: 0, T: t}
	}
	return &mv{kind: mOther}
}

// ---- path get / set on immutable trees

func (m *magAnalyzer) getPath(v *mv, path []int, t types.Type) *mv {
	for _, i := range path {
		if v == nil {
			return nil
		}
		switch v.kind {
		case mAgg:
			if i >= 0 && i < len(v.Elems) {
				v = v.Elems[i]
			} else {
				var j *mv
				for _, e := range v.Elems {
					j = mjoin(j, e)
				}
				v = j
			}
		case mSlice:
			if i >= 0 && v.N >= 0 && len(v.Elems) == v.N && i < v.N {
				v = v.Elems[i]
			} else {
				v = v.Sum
			}
		default:
			return nil
		}
	}
	return v
}

func setPath(v *mv, path []int, nv *mv, weak bool) *mv {
	if len(path) == 0 {
		if weak {
			return mjoin(v, nv)
		}
		return nv
	}
	if v == nil {
		return nil
	}
	i := path[0]
	switch v.kind {
	case mAgg:
		r := &mv{kind: mAgg, T: v.T, Elems: append([]*mv(nil), v.Elems...)}
		if i >= 0 && i < len(r.Elems) {
			r.Elems[i] = setPath(r.Elems[i], path[1:], nv, weak)
		} else {
			for k := range r.Elems {
				r.Elems[k] = setPath(r.Elems[k], path[1:], nv, true)
			}
		}
		return r
	case mSlice:
		r := &mv{kind: mSlice, T: v.T, N: v.N, Sum: v.Sum}
		if v.N >= 0 && len(v.Elems) == v.N {
			r.Elems = append([]*mv(nil), v.Elems...)
		}
		if i >= 0 && r.Elems != nil && i < len(r.Elems) {
			r.Elems[i] = setPath(r.Elems[i], path[1:], nv, weak)
		} else {
			for k := range r.Elems {
				r.Elems[k] = setPath(r.Elems[k], path[1:], nv, true)
			}
		}
		r.Sum = setPath(v.Sum, path[1:], nv, true)
		if v.Sum == nil && len(path) == 1 {
			r.Sum = nv
		}
		return r
	}
	return v
}

// ---- post-dominators

func (m *magAnalyzer) ipdom(fn *ssa.Function) []int {
	if r, ok := m.pdom[fn]; ok {
		return r
	}
	n := len(fn.Blocks)
	exit := n
	succs := make([][]int, n+1)
	preds := make([][]int, n+1)
	for _, b := range fn.Blocks {
		if len(b.Succs) == 0 {
			succs[b.Index] = append(succs[b.Index], exit)
			preds[exit] = append(preds[exit], b.Index)
		}
		for _, s := range b.Succs {
			succs[b.Index] = append(succs[b.Index], s.Index)
			preds[s.Index] = append(preds[s.Index], b.Index)
		}
	}
	// reverse post-order on the reversed graph from exit
	order := []int{}
	seen := make([]bool, n+1)
	var dfs func(int)
	dfs = func(u int) {
		seen[u] = true
		for _, p := range preds[u] {
			if !seen[p] {
				dfs(p)
			}
		}
		order = append(order, u)
	}
	dfs(exit)
	rpo := make([]int, n+1)
	for i := range rpo {
		rpo[i] = -1
	}
	for i, u := range order {
		rpo[u] = len(order) - 1 - i
	}
	idom := make([]int, n+1)
	for i := range idom {
		idom[i] = -1
	}
	idom[exit] = exit
	intersect := func(a, b int) int {
		for a != b {
			for rpo[a] > rpo[b] {
				a = idom[a]
			}
			for rpo[b] > rpo[a] {
				b = idom[b]
			}
		}
		return a
	}
	changed := true
	for changed {
		changed = false
		for i := len(order) - 1; i >= 0; i-- {
			u := order[i]
			if u == exit {
				continue
			}
			nw := -1
			for _, s := range succs[u] {
				if idom[s] == -1 {
					continue
				}
				if nw == -1 {
					nw = s
				} else {
					nw = intersect(nw, s)
				}
			}
			if nw != -1 && idom[u] != nw {
				idom[u] = nw
				changed = true
			}
		}
	}
	m.pdom[fn] = idom
	return idom
}

// ---- the interpreter

type mctx struct {
	stop   *ssa.BasicBlock
	loop   *SLoop // innermost loop solved by iteration
	backs  *[]*mpath
	exits  *[]*mpath
	parent *mctx
}

type mpath struct {
	st   *mstate
	env  map[ssa.Value]*mv
	to   *ssa.BasicBlock
	from *ssa.BasicBlock
}

const magFuel = 6000000

var magTrace = os.Getenv("GLMAG_TRACE")

func (m *magAnalyzer) val(f *mframe, v ssa.Value) *mv {
	if x, ok := f.env[v]; ok {
		return x
	}
	switch c := v.(type) {
	case *ssa.Const:
		return m.constVal(c)
	case *ssa.Function:
		return &mv{kind: mFunc, Fn: c}
	case *ssa.Global:
		return &mv{kind: mPtr, Cell: -1, T: c.Type(), Fn: nil, Str: strPtr(c.Pkg.Pkg.Path() + "." + c.Name())}
	case *ssa.Builtin:
		return &mv{kind: mOther}
	}
	return m.unknownOf(v.Type(), 0)
}

func strPtr(s string) *string { return &s }

func (m *magAnalyzer) constVal(c *ssa.Const) *mv {
	if c.Value == nil {
		return m.zeroOf(c.Type(), 0)
	}
	switch c.Value.Kind() {
	case constant.Int:
		if b, ok := c.Type().Underlying().(*types.Basic); ok && b.Info()&types.IsInteger != 0 {
			if i, ok := constant.Int64Val(c.Value); ok {
				return mint(i)
			}
			if u, ok := constant.Uint64Val(c.Value); ok {
				// does not fit int64: keep as a big constant usable as a field value
				return &mv{kind: mInt, Mag: new(big.Int).SetUint64(u)}
			}
		}
		return munkInt()
	case constant.Bool:
		if constant.BoolVal(c.Value) {
			return mint(1)
		}
		return mint(0)
	case constant.String:
		s := constant.StringVal(c.Value)
		return &mv{kind: mOther, Str: &s}
	}
	return &mv{kind: mOther}
}

// toField: the abstract field value obtained by converting v (an integer, *big.Int, …) to a frontend.Variable
func (m *magAnalyzer) toField(v *mv, t types.Type) *mv {
	if v == nil {
		return mfield(nil)
	}
	switch v.kind {
	case mField:
		return v
	case mInt:
		if v.K != nil {
			if *v.K < 0 {
				return mfield(nil)
			}
			return mfield(big.NewInt(*v.K))
		}
		if v.Mag != nil {
			return mfield(v.Mag)
		}
		// an unknown unsigned machine integer turned into a variable: table constants and configuration values
		// are canonical field elements (tables: C09/O9.3); recorded as an assumption
		if b, ok := t.Underlying().(*types.Basic); ok {
			switch b.Kind() {
			case types.Uint64, types.Uint, types.Uintptr:
				m.note("unsigned 64-bit constants converted to variables are canonical field elements")
				return mfield(bigPm1)
			case types.Uint32, types.Int32:
				return mfield(new(big.Int).Lsh(big.NewInt(1), 32))
			case types.Int, types.Int64:
				m.note("signed integers converted to variables are non-negative")
				return mfield(new(big.Int).Lsh(big.NewInt(1), 63))
			case types.Uint8, types.Int8, types.Uint16, types.Int16, types.Bool:
				return mfield(big.NewInt(1 << 16))
			}
		}
		return mfield(nil)
	}
	// *big.Int, goldilocks.Element, … : a canonical constant unless it is the modulus itself
	if v.Mag != nil {
		return mfield(v.Mag)
	}
	m.note("big-integer / field-element constants converted to variables are canonical (< p)")
	return mfield(bigPm1)
}

func (m *magAnalyzer) checkWrap(f *mframe, ins ssa.Instruction, r *big.Int) {
	if r == nil || !m.inGadget(f.fn) {
		return
	}
	if r.Cmp(bigR) >= 0 {
		m.record("no-wrap", f.fn, ins.Pos(), false, false, r.BitLen(), bigR.BitLen(), "the bound reaches the BN254 scalar field: integer reasoning no longer holds")
	}
}

func mulBig(a, b *big.Int) *big.Int {
	if a == nil || b == nil {
		if (a != nil && a.Sign() == 0) || (b != nil && b.Sign() == 0) {
			return big.NewInt(0)
		}
		return nil
	}
	return new(big.Int).Mul(a, b)
}
func addBig(a, b *big.Int) *big.Int {
	if a == nil || b == nil {
		return nil
	}
	return new(big.Int).Add(a, b)
}

func (m *magAnalyzer) fieldArg(f *mframe, v ssa.Value) *mv {
	x := m.val(f, v)
	if x != nil && x.kind == mField {
		return x
	}
	return m.toField(x, v.Type())
}

// apiCall: transfer function of a frontend.API method
func (m *magAnalyzer) apiCall(f *mframe, st *mstate, c ssa.CallInstruction, name string) *mv {
	com := c.Common()
	args := func() []*mv {
		var out []*mv
		for _, a := range com.Args {
			x := m.val(f, a)
			if x != nil && x.kind == mSlice { // variadic
				if x.N >= 0 && len(x.Elems) == x.N {
					for _, e := range x.Elems {
						out = append(out, m.toField(e, nil))
					}
				} else if x.N != 0 {
					out = append(out, &mv{kind: mField, Mag: nil, N: -7}) // unknown count marker
					if x.Sum != nil {
						out[len(out)-1].Mag = nil
					}
				}
				continue
			}
			out = append(out, m.fieldArg(f, a))
		}
		return out
	}
	ins := c.(ssa.Instruction)
	switch name {
	case "Add":
		var s *big.Int = big.NewInt(0)
		for _, a := range args() {
			if a.N == -7 {
				s = nil
				break
			}
			s = addBig(s, a.Mag)
		}
		m.checkWrap(f, ins, s)
		return mfield(s)
	case "Mul":
		var s *big.Int = big.NewInt(1)
		for _, a := range args() {
			if a.N == -7 {
				s = nil
				break
			}
			s = mulBig(s, a.Mag)
		}
		m.checkWrap(f, ins, s)
		return mfield(s)
	case "MulAcc":
		a := args()
		if len(a) != 3 {
			return mfield(nil)
		}
		s := addBig(a[0].Mag, mulBig(a[1].Mag, a[2].Mag))
		m.checkWrap(f, ins, s)
		return mfield(s)
	case "Sub":
		a := args()
		if len(a) >= 1 && a[0].Mag != nil {
			m.note("API.Sub results are assumed not to wrap (minuend ≥ subtrahend)")
			return mfield(a[0].Mag)
		}
		return mfield(nil)
	case "Select":
		a := args()
		if len(a) == 3 {
			return mfield(maxBig(a[1].Mag, a[2].Mag))
		}
	case "Lookup2":
		a := args()
		if len(a) == 6 {
			return mfield(maxBig(maxBig(a[2].Mag, a[3].Mag), maxBig(a[4].Mag, a[5].Mag)))
		}
	case "IsZero", "And", "Or", "Xor", "Cmp":
		return mfield(big.NewInt(1))
	case "ToBinary":
		n := -1
		if len(com.Args) >= 2 {
			if x := m.val(f, com.Args[1]); x != nil && x.kind == mSlice && x.N == 1 && len(x.Elems) == 1 && x.Elems[0].K != nil {
				n = int(*x.Elems[0].K)
			}
		}
		r := &mv{kind: mSlice, Sum: mfield(big.NewInt(1)), N: n}
		if n >= 0 && n <= 256 {
			r.Elems = make([]*mv, n)
			for i := range r.Elems {
				r.Elems[i] = mfield(big.NewInt(1))
			}
		}
		return r
	case "FromBinary":
		a := args()
		for _, x := range a {
			if x.N == -7 {
				return mfield(nil)
			}
		}
		if len(a) <= 253 {
			return mfield(new(big.Int).Sub(new(big.Int).Lsh(big.NewInt(1), uint(len(a))), big.NewInt(1)))
		}
		return mfield(nil)
	case "Inverse", "Div", "DivUnchecked", "Neg":
		return mfield(nil)
	}
	return m.unknownOf(callResultType(com), 0)
}

func callResultType(com *ssa.CallCommon) types.Type {
	sig := com.Signature()
	if sig == nil || sig.Results().Len() == 0 {
		return types.Typ[types.Invalid]
	}
	if sig.Results().Len() == 1 {
		return sig.Results().At(0).Type()
	}
	return sig.Results()
}

func (m *magAnalyzer) inGadget(fn *ssa.Function) bool {
	if fn == nil || !m.gadget[fnPkgShort(fn)] {
		return false
	}
	// the BN254 Poseidon works in the native field (values wrap modulo r by design): not part of the Goldilocks
	// magnitude domain; its methods are treated like upper-layer functions (canonical Goldilocks inputs and outputs)
	if sig := fn.Signature; sig != nil && sig.Recv() != nil {
		t := sig.Recv().Type()
		if pt, ok := t.(*types.Pointer); ok {
			t = pt.Elem()
		}
		if n, ok := t.(*types.Named); ok && n.Obj().Name() == "BN254Chip" {
			return false
		}
	}
	return true
}

// canonicalOrReport: every field component of v is < p
func (m *magAnalyzer) worstMag(v *mv, depth int) (*big.Int, bool) {
	if v == nil || depth > 24 {
		return big.NewInt(0), true
	}
	switch v.kind {
	case mField:
		return big.NewInt(0), true // a raw variable outside a goldilocks.Variable (bit, BN254 hash, …): not Goldilocks data
	case mAgg, mTuple:
		if isGlVariable(v.T) && len(v.Elems) == 1 {
			e := v.Elems[0]
			if e == nil || e.kind != mField || e.Mag == nil {
				return nil, false
			}
			return e.Mag, true
		}
		w := big.NewInt(0)
		for _, e := range v.Elems {
			x, ok := m.worstMag(e, depth+1)
			if !ok {
				return nil, false
			}
			w = maxBig(w, x)
		}
		return w, true
	case mSlice:
		return m.worstMag(v.Sum, depth+1)
	}
	return big.NewInt(0), true
}

func isGlVariable(t types.Type) bool {
	n, ok := t.(*types.Named)
	return ok && n.Obj().Name() == "Variable" && n.Obj().Pkg() != nil && strings.HasSuffix(n.Obj().Pkg().Path(), "/goldilocks")
}

func (m *magAnalyzer) requireCanonical(f *mframe, ins ssa.Instruction, v *mv, what string) {
	w, ok := m.worstMag(v, 0)
	if !ok {
		m.record("interface", f.fn, ins.Pos(), false, true, 0, 64, what+": a value of unknown magnitude")
		return
	}
	if w.Cmp(bigP) > 0 { // ≤ p tolerated for big constants
		m.record("interface", f.fn, ins.Pos(), false, false, w.BitLen(), 64, what+": an unreduced value leaves the function")
		return
	}
	m.record("interface", f.fn, ins.Pos(), true, false, w.BitLen(), 64, what)
}

// call: a static call
func (m *magAnalyzer) call(f *mframe, st *mstate, c ssa.CallInstruction) *mv {
	com := c.Common()
	ins := c.(ssa.Instruction)
	if com.IsInvoke() {
		if com.Method.Pkg() != nil && com.Method.Pkg().Path() == gnarkFrontend {
			return m.apiCall(f, st, c, com.Method.Name())
		}
		return m.unknownOf(callResultType(com), 0)
	}
	if b, ok := com.Value.(*ssa.Builtin); ok {
		return m.builtin(f, st, c, b.Name())
	}
	g := com.StaticCallee()
	var bound []*mv
	if g == nil {
		// a function value whose target is known (a method value or closure handed down as an argument)
		if fv := m.val(f, com.Value); fv != nil && fv.kind == mFunc && fv.Fn != nil && len(fv.Fn.Blocks) > 0 {
			g, bound = fv.Fn, fv.Elems
		}
	}
	if g == nil {
		for _, a := range com.Args {
			m.requireCanonical(f, ins, m.val(f, a), "argument of a dynamic call")
		}
		return m.unknownOf(callResultType(com), 0)
	}
	if kind, ok := m.prims[g]; ok {
		return m.prim(f, st, c, g, kind)
	}
	if len(g.Blocks) == 0 || !m.inGadget(g) {
		if g.Pkg != nil && strings.HasPrefix(g.Pkg.Pkg.Path(), ModPath) {
			// another upper-layer function: the interface invariant
			for _, a := range com.Args {
				m.requireCanonical(f, ins, m.val(f, a), "argument of "+m.P.FnName(g))
			}
			return m.unknownOf(callResultType(com), 0)
		}
		return m.extern(f, c, g)
	}
	// gadget layer: follow the call
	args := make([]*mv, len(com.Args))
	for i, a := range com.Args {
		args[i] = m.val(f, a)
	}
	return m.invokeBound(f, st, g, args, bound, ins)
}

// extern: a function outside the module (math/big, math/bits, fmt, gnark-crypto …)
func (m *magAnalyzer) extern(f *mframe, c ssa.CallInstruction, g *ssa.Function) *mv {
	com := c.Common()
	name := g.String()
	switch name {
	case "(*math/big.Int).Uint64":
		if len(com.Args) == 1 {
			if x := m.val(f, com.Args[0]); x != nil && x.Mag != nil && x.kind == mOther {
				if x.Mag.IsInt64() {
					return mint(x.Mag.Int64())
				}
				return &mv{kind: mInt, Mag: x.Mag}
			}
		}
	case "math/bits.Len64", "math/bits.Len":
		if len(com.Args) == 1 {
			if x := m.val(f, com.Args[0]); x != nil && x.kind == mInt && x.K != nil {
				return mint(int64(big.NewInt(*x.K).BitLen()))
			}
		}
	}
	return m.unknownOf(callResultType(com), 0)
}

func (m *magAnalyzer) hasPtrArg(g *ssa.Function) bool {
	for i, p := range g.Params {
		if i == 0 && g.Signature.Recv() != nil {
			continue
		}
		if _, ok := p.Type().Underlying().(*types.Pointer); ok {
			return true
		}
	}
	return false
}

func (m *magAnalyzer) invoke(f *mframe, st *mstate, g *ssa.Function, args []*mv, site ssa.Instruction) *mv {
	return m.invokeBound(f, st, g, args, nil, site)
}

func (m *magAnalyzer) invokeBound(f *mframe, st *mstate, g *ssa.Function, args []*mv, bound []*mv, site ssa.Instruction) *mv {
	if f.depth > 40 {
		m.note("call depth limit reached")
		return m.unknownOf(g.Signature.Results(), 0)
	}
	var key string
	memoable := !m.hasPtrArg(g) && len(bound) == 0
	if memoable {
		var sb strings.Builder
		fmt.Fprintf(&sb, "%p|", g)
		for _, a := range args {
			a.fp(&sb, 0)
			sb.WriteString(";")
			if a != nil && a.kind == mPtr && a.Cell > 0 {
				st.heap[a.Cell].fp(&sb, 0)
			}
		}
		key = sb.String()
		if r, ok := m.memo[key]; ok {
			return r.ret
		}
	}
	nf := &mframe{fn: g, env: map[ssa.Value]*mv{}, depth: f.depth + 1}
	nf.path = f.path + "/" + fmt.Sprint(site.Pos())
	for i, p := range g.Params {
		if i < len(args) {
			nf.env[p] = args[i]
		}
	}
	for i, fv := range g.FreeVars {
		if i < len(bound) {
			nf.env[fv] = bound[i]
		}
	}
	m.ctx = append(m.ctx, m.P.FnName(g))
	m.runFunc(nf, st)
	m.ctx = m.ctx[:len(m.ctx)-1]
	ret := nf.ret
	if ret == nil {
		ret = m.unknownOf(callResultTypeOfSig(g.Signature), 0)
	}
	if memoable {
		m.memo[key] = &memoRes{ret: ret}
	}
	return ret
}

func callResultTypeOfSig(sig *types.Signature) types.Type {
	if sig.Results().Len() == 1 {
		return sig.Results().At(0).Type()
	}
	return sig.Results()
}

// prim: the four hint hosts and the sinks, modelled by their contract for honest inputs
func (m *magAnalyzer) prim(f *mframe, st *mstate, c ssa.CallInstruction, g *ssa.Function, kind string) *mv {
	com := c.Common()
	ins := c.(ssa.Instruction)
	limb := func(i int) *big.Int {
		if i >= len(com.Args) {
			return nil
		}
		v := m.val(f, com.Args[i])
		if v != nil && v.kind == mAgg && len(v.Elems) == 1 {
			v = v.Elems[0]
		}
		if v != nil && v.kind == mField {
			return v.Mag
		}
		return nil
	}
	canonVar := func() *mv {
		return &mv{kind: mAgg, T: g.Signature.Results().At(0).Type(), Elems: []*mv{mfield(bigPm1)}}
	}
	switch kind {
	case "sink":
		return nil
	case "muladd":
		okk, und, worst := true, false, 0
		for i := 1; i <= 3; i++ {
			b := limb(i)
			if b == nil {
				und = true
				continue
			}
			if b.BitLen() > worst {
				worst = b.BitLen()
			}
			if b.Cmp(bigP) >= 0 {
				okk = false
			}
		}
		m.record("canonical", f.fn, ins.Pos(), okk && !und, und && okk, worst, 64, "operands of MulAdd must be < p (MulAddHint refuses larger operands)")
		return canonVar()
	case "inverse":
		b := limb(1)
		if b == nil {
			m.record("canonical", f.fn, ins.Pos(), false, true, 0, 64, "operand of Inverse of unknown magnitude")
		} else {
			m.record("canonical", f.fn, ins.Pos(), b.Cmp(bigP) < 0, false, b.BitLen(), 64, "operand of Inverse must be < p (InverseHint refuses larger operands)")
		}
		return &mv{kind: mTuple, Elems: []*mv{canonVar(), mfield(big.NewInt(1))}}
	case "reduce":
		x := limb(1)
		var n *int64
		if len(com.Args) > 2 {
			if w := m.val(f, com.Args[2]); w != nil && w.kind == mInt {
				n = w.K
				if n == nil {
					n = w.Lo // one of several constants: the smallest width is the binding one
				}
			}
		}
		switch {
		case n == nil:
			m.record("reduce", f.fn, ins.Pos(), false, true, 0, 0, "quotient width is not a constant in this context")
		case x == nil:
			m.record("reduce", f.fn, ins.Pos(), false, true, 0, int(*n)+64, "the value reduced has unknown magnitude in this context")
		default:
			limit := new(big.Int).Lsh(bigP, uint(*n))
			m.record("reduce", f.fn, ins.Pos(), x.Cmp(limit) < 0, false, x.BitLen(), limit.BitLen(), fmt.Sprintf("value < 2^%d reduced with a %d-bit quotient", x.BitLen(), *n))
		}
		return canonVar()
	}
	return nil
}

func (m *magAnalyzer) builtin(f *mframe, st *mstate, c ssa.CallInstruction, name string) *mv {
	com := c.Common()
	switch name {
	case "len", "cap":
		x := m.val(f, com.Args[0])
		if x != nil {
			switch x.kind {
			case mSlice:
				if x.N >= 0 && name == "len" {
					return mint(int64(x.N))
				}
			case mAgg:
				return mint(int64(len(x.Elems)))
			case mOther:
				if x.Str != nil {
					return mint(int64(len(*x.Str)))
				}
			}
		}
		if a, ok := com.Args[0].Type().Underlying().(*types.Array); ok {
			return mint(a.Len())
		}
		if p, ok := com.Args[0].Type().Underlying().(*types.Pointer); ok {
			if a, ok := p.Elem().Underlying().(*types.Array); ok {
				return mint(a.Len())
			}
		}
		return munkInt()
	case "append":
		s := m.val(f, com.Args[0])
		r := &mv{kind: mSlice, T: com.Args[0].Type(), N: -1}
		if s != nil && s.kind == mSlice {
			r.Sum, r.N = s.Sum, s.N
			if s.N >= 0 && len(s.Elems) == s.N {
				r.Elems = append([]*mv(nil), s.Elems...)
			}
		} else {
			r.Sum = m.unknownOf(com.Args[0].Type(), 0).Sum
		}
		if len(com.Args) > 1 {
			t := m.val(f, com.Args[1])
			if t != nil && t.kind == mSlice {
				r.Sum = mjoin(r.Sum, t.Sum)
				if r.N >= 0 && t.N >= 0 {
					r.N += t.N
					if r.Elems != nil && len(t.Elems) == t.N {
						r.Elems = append(r.Elems, t.Elems...)
					} else {
						r.Elems = nil
					}
				} else {
					r.N = -1
					r.Elems = nil
				}
			} else {
				r.N = -1
				r.Elems = nil
				r.Sum = mjoin(r.Sum, m.unknownOf(com.Args[0].Type(), 0).Sum)
			}
		}
		return r
	case "copy":
		return munkInt()
	case "min", "max":
		return munkInt()
	}
	return &mv{kind: mOther}
}

// slice values are immutable here; a store through &s[i] updates the slice held in the cell the slice was loaded
// from only when that is a local variable. To stay sound without tracking every alias, stores into slice elements
// are weak on every slice value reachable … simplified: a slice value carries its own content; IndexAddr on a slice
// yields a pointer into a per-site cell holding that slice value, and the store also re-binds the SSA value.

func (m *magAnalyzer) runFunc(f *mframe, st *mstate) {
	if len(f.fn.Blocks) == 0 {
		return
	}
	m.run(f, st, f.fn.Blocks[0], nil, &mctx{})
}

func (m *magAnalyzer) isTrue(v *mv) (bool, bool) {
	if v != nil && v.kind == mInt && v.K != nil {
		return *v.K != 0, true
	}
	return false, false
}

// enter: evaluate the φ-nodes of block to for the edge from→to
func (m *magAnalyzer) enter(f *mframe, to, from *ssa.BasicBlock) {
	if from == nil {
		return
	}
	idx := -1
	for i, p := range to.Preds {
		if p == from {
			idx = i
		}
	}
	if idx < 0 {
		return
	}
	var vals []*mv
	var phis []*ssa.Phi
	for _, ins := range to.Instrs {
		phi, ok := ins.(*ssa.Phi)
		if !ok {
			break
		}
		phis = append(phis, phi)
		vals = append(vals, m.val(f, phi.Edges[idx]))
	}
	for i, phi := range phis {
		f.env[phi] = vals[i]
	}
}

func (m *magAnalyzer) loopOf(fn *ssa.Function, b *ssa.BasicBlock) *SLoop {
	return GetFnInfo(fn).HeaderOf[b]
}

// concreteLoop: the loop's continuation test is decidable at entry. The header (whose φ have been evaluated for the
// entry edge) is evaluated on a scratch copy up to its terminator; a constant condition means plain execution
// unrolls the loop.
func (m *magAnalyzer) concreteLoop(f *mframe, st *mstate, l *SLoop) bool {
	if l == nil {
		return false
	}
	h := l.Header
	iff, ok := h.Instrs[len(h.Instrs)-1].(*ssa.If)
	if !ok {
		return false
	}
	saveEnv := f.env
	f.env = f.cloneEnv()
	scratch := st.clone()
	saveObl := m.mute
	m.mute = true
	for _, ins := range h.Instrs {
		switch ins.(type) {
		case *ssa.Phi, *ssa.If:
			continue
		}
		m.instr(f, scratch, ins)
	}
	m.mute = saveObl
	c := m.val(f, iff.Cond)
	f.env = saveEnv
	_, known := m.isTrue(c)
	return known
}

func (m *magAnalyzer) exec(f *mframe, st *mstate, b *ssa.BasicBlock, prev *ssa.BasicBlock, cx *mctx) *mstate {
	m.enter(f, b, prev)
	return m.run(f, st, b, prev, cx)
}

// run continues at block b whose φ-nodes have been evaluated already
func (m *magAnalyzer) run(f *mframe, st *mstate, b *ssa.BasicBlock, prev *ssa.BasicBlock, cx *mctx) *mstate {
	for {
		if st == nil || st.dead {
			return &mstate{dead: true}
		}
		m.steps++
		if m.steps > magFuel {
			m.note("step limit reached: analysis incomplete")
			return &mstate{dead: true}
		}
		if cx.loop != nil {
			if b == cx.loop.Header && prev != nil && cx.loop.Blocks[prev] {
				*cx.backs = append(*cx.backs, &mpath{st: st, env: f.cloneEnv(), to: b, from: prev})
				return &mstate{dead: true}
			}
			if !cx.loop.Blocks[b] {
				*cx.exits = append(*cx.exits, &mpath{st: st, env: f.cloneEnv(), to: b, from: prev})
				return &mstate{dead: true}
			}
		}
		if b == cx.stop {
			return st
		}
		// a loop header reached from outside whose test is not decidable: solve by iteration
		if l := m.loopOf(f.fn, b); l != nil && (prev == nil || !l.Blocks[prev]) && cx.loop != l && !m.concreteLoop(f, st, l) {
			st2, nb, np, done := m.solveLoop(f, st, l, cx)
			if done {
				return st2
			}
			if st2 == nil || st2.dead || nb == nil {
				return &mstate{dead: true}
			}
			st, b, prev = st2, nb, np
			continue // arrival checks for nb; its φ were evaluated when the exits were collected
		}
		r, nb, np, entered := m.block(f, st, b, cx)
		if nb == nil {
			return r
		}
		st, b, prev = r, nb, np
		if !entered {
			m.enter(f, b, prev)
		}
	}
}

// solveLoop: Kleene iteration at the header of l (whose φ have been evaluated for the entry edge). Returns the
// joined state positioned at the exit target (φ evaluated), or done=true with the state at the caller's stop.
func (m *magAnalyzer) solveLoop(f *mframe, st *mstate, l *SLoop, outer *mctx) (*mstate, *ssa.BasicBlock, *ssa.BasicBlock, bool) {
	in := st
	inEnv := f.cloneEnv()
	var exits []*mpath
	for round := 0; ; round++ {
		var backs []*mpath
		exits = nil
		f.env = make(map[ssa.Value]*mv, len(inEnv))
		for k, v := range inEnv {
			f.env[k] = v
		}
		cx := &mctx{stop: nil, loop: l, backs: &backs, exits: &exits, parent: outer}
		work := in.clone()
		r, nb, np, entered := m.block(f, work, l.Header, cx)
		if nb != nil {
			if !entered {
				m.enter(f, nb, np)
			}
			m.run(f, r, nb, np, cx)
		}
		newIn, newEnv := in, inEnv
		changed := false
		for _, p := range backs {
			js, je, ch := m.joinInto(newIn, newEnv, p.st, p.env, l, round >= 3)
			newIn, newEnv = js, je
			changed = changed || ch
		}
		if !changed {
			break
		}
		in, inEnv = newIn, newEnv
		if round > 12 {
			m.note("a loop did not stabilise")
			break
		}
		if m.steps > magFuel {
			break
		}
	}
	if len(exits) == 0 {
		return &mstate{dead: true}, nil, nil, false
	}
	byT := map[*ssa.BasicBlock][]*mpath{}
	var order []*ssa.BasicBlock
	for _, p := range exits {
		if _, ok := byT[p.to]; !ok {
			order = append(order, p.to)
		}
		byT[p.to] = append(byT[p.to], p)
	}
	sort.Slice(order, func(i, j int) bool { return order[i].Index < order[j].Index })
	if len(order) == 1 {
		js, je := m.joinPaths(byT[order[0]])
		f.env = je
		return js, order[0], byT[order[0]][0].from, false
	}
	// several exit targets (break / return inside the loop): continue from each to the caller's stop and join there
	var res *mstate
	var resEnv map[ssa.Value]*mv
	for _, t := range order {
		js, je := m.joinPaths(byT[t])
		f.env = je
		r := m.run(f, js, t, byT[t][0].from, outer)
		if r != nil && !r.dead {
			if res == nil {
				res, resEnv = r, f.cloneEnv()
			} else {
				res, resEnv, _ = m.joinInto(res, resEnv, r, f.env, nil, false)
			}
		}
	}
	if res == nil {
		return &mstate{dead: true}, nil, nil, true
	}
	f.env = resEnv
	return res, nil, nil, true
}

func (m *magAnalyzer) joinPaths(ps []*mpath) (*mstate, map[ssa.Value]*mv) {
	st, env := ps[0].st, ps[0].env
	for _, p := range ps[1:] {
		st, env, _ = m.joinInto(st, env, p.st, p.env, nil, false)
	}
	return st, env
}

// joinInto joins (s2, e2) into (s1, e1); reports whether (s1, e1) grew. With l given only the header φ and the heap
// are compared (everything else is recomputed from them).
func (m *magAnalyzer) joinInto(s1 *mstate, e1 map[ssa.Value]*mv, s2 *mstate, e2 map[ssa.Value]*mv, l *SLoop, widen bool) (*mstate, map[ssa.Value]*mv, bool) {
	changed := false
	ns := &mstate{heap: make(map[int]*mv, len(s1.heap))}
	for k, v := range s1.heap {
		ns.heap[k] = v
	}
	for k, v := range s2.heap {
		old, ok := ns.heap[k]
		if !ok {
			ns.heap[k] = v
			changed = true
			continue
		}
		j := mjoin(old, v)
		if !mequal(j, old) {
			if widen {
				j = mwiden(old, j)
			}
			ns.heap[k] = j
			changed = true
		}
	}
	ne := make(map[ssa.Value]*mv, len(e1))
	for k, v := range e1 {
		ne[k] = v
	}
	for k, v := range e2 {
		old, ok := ne[k]
		if !ok {
			ne[k] = v
			continue
		}
		j := mjoin(old, v)
		if j != old && !mequal(j, old) {
			if widen {
				j = mwiden(old, j)
			}
			ne[k] = j
			if l == nil {
				changed = true
			} else if phi, ok := k.(*ssa.Phi); ok && phi.Block() == l.Header {
				changed = true
			}
		}
	}
	return ns, ne, changed
}

// block executes the instructions of b (after its φ) and returns the next block (nil: path ended)
func (m *magAnalyzer) block(f *mframe, st *mstate, b *ssa.BasicBlock, cx *mctx) (*mstate, *ssa.BasicBlock, *ssa.BasicBlock, bool) {
	for _, ins := range b.Instrs {
		switch x := ins.(type) {
		case *ssa.Phi:
			continue
		case *ssa.Jump:
			return st, b.Succs[0], b, false
		case *ssa.Return:
			var rv *mv
			if len(x.Results) == 1 {
				rv = m.val(f, x.Results[0])
			} else if len(x.Results) > 1 {
				rv = &mv{kind: mTuple}
				for _, r := range x.Results {
					rv.Elems = append(rv.Elems, m.val(f, r))
				}
			}
			if f.root && rv != nil {
				m.requireCanonical(f, x, rv, "value returned by "+m.P.FnName(f.fn))
			}
			f.ret = mjoin(f.ret, rv)
			return &mstate{dead: true}, nil, nil, false
		case *ssa.Panic:
			return &mstate{dead: true}, nil, nil, false
		case *ssa.If:
			c := m.val(f, x.Cond)
			if t, ok := m.isTrue(c); ok {
				if t {
					return st, b.Succs[0], b, false
				}
				return st, b.Succs[1], b, false
			}
			// unknown condition: both sides up to the immediate post-dominator
			ip := m.ipdom(f.fn)[b.Index]
			var merge *ssa.BasicBlock
			if ip >= 0 && ip < len(f.fn.Blocks) {
				merge = f.fn.Blocks[ip]
			}
			if cx.loop != nil && merge != nil && !cx.loop.Blocks[merge] {
				merge = nil // the merge point lies outside the loop being solved: the sides end at back edges / exits
			}
			sub := &mctx{stop: merge, loop: cx.loop, backs: cx.backs, exits: cx.exits, parent: cx}
			if merge == nil {
				sub.stop = cx.stop
			}
			envSave := f.cloneEnv()
			s0 := m.exec(f, st.clone(), b.Succs[0], b, sub)
			e0 := f.env
			f.env = envSave
			s1 := m.exec(f, st.clone(), b.Succs[1], b, sub)
			e1 := f.env
			var js *mstate
			switch {
			case (s0 == nil || s0.dead) && (s1 == nil || s1.dead):
				return &mstate{dead: true}, nil, nil, false
			case s0 == nil || s0.dead:
				js, f.env = s1, e1
			case s1 == nil || s1.dead:
				js, f.env = s0, e0
			default:
				js, f.env, _ = m.joinInto(s0, e0, s1, e1, nil, false)
			}
			if merge == nil {
				// both sides ran to the outer stop (or ended)
				if sub.stop == nil {
					return &mstate{dead: true}, nil, nil, false
				}
				return js, nil, nil, false
			}
			// continue at the merge block: its φ were evaluated on arrival
			return js, merge, b, true
		default:
			m.instr(f, st, ins)
		}
	}
	return &mstate{dead: true}, nil, nil, false
}

func (m *magAnalyzer) instr(f *mframe, st *mstate, ins ssa.Instruction) {
	if magTrace != "" && strings.Contains(f.fn.String(), magTrace) {
		defer func() {
			if v, ok := ins.(ssa.Value); ok {
				fmt.Printf("  [%s] %s = %s  → %s\n", f.fn.Name(), v.Name(), ins.String(), f.env[v].String())
			} else {
				fmt.Printf("  [%s] %s\n", f.fn.Name(), ins.String())
			}
		}()
	}
	switch x := ins.(type) {
	case *ssa.Alloc:
		id := m.cellID(fmt.Sprintf("%s|%p", f.path, x))
		st.heap[id] = m.zeroOf(x.Type().Underlying().(*types.Pointer).Elem(), 0)
		f.env[x] = &mv{kind: mPtr, Cell: id, T: x.Type()}
	case *ssa.Store:
		p := m.val(f, x.Addr)
		v := m.val(f, x.Val)
		if isFieldType(x.Val.Type()) && (v == nil || v.kind != mField) {
			v = m.toField(v, x.Val.Type())
		}
		if p != nil && p.kind == mPtr && p.Cell > 0 {
			weak := false
			for _, i := range p.Path {
				if i < 0 {
					weak = true
				}
			}
			st.heap[p.Cell] = setPath(st.heap[p.Cell], p.Path, v, weak)
		} else {
			m.requireCanonical(f, ins, v, "value stored to memory outside the function")
		}
	case *ssa.UnOp:
		switch x.Op {
		case token.MUL:
			p := m.val(f, x.X)
			if p != nil && p.kind == mPtr && p.Cell > 0 {
				v := m.getPath(st.heap[p.Cell], p.Path, x.Type())
				if v == nil {
					v = m.unknownOf(x.Type(), 0)
				}
				f.env[x] = v
			} else if p != nil && p.kind == mPtr && p.Cell == -1 && p.Str != nil {
				f.env[x] = m.globalVal(*p.Str, x.Type(), x.X)
			} else {
				f.env[x] = m.unknownOf(x.Type(), 0)
			}
		case token.NOT:
			if t, ok := m.isTrue(m.val(f, x.X)); ok {
				if t {
					f.env[x] = mint(0)
				} else {
					f.env[x] = mint(1)
				}
			} else {
				f.env[x] = munkInt()
			}
		case token.SUB:
			if v := m.val(f, x.X); v != nil && v.kind == mInt && v.K != nil {
				f.env[x] = mint(-*v.K)
			} else {
				f.env[x] = m.unknownOf(x.Type(), 0)
			}
		default:
			f.env[x] = m.unknownOf(x.Type(), 0)
		}
	case *ssa.BinOp:
		f.env[x] = m.binop(f, x)
	case *ssa.FieldAddr:
		p := m.val(f, x.X)
		if p != nil && p.kind == mPtr && p.Cell > 0 {
			f.env[x] = &mv{kind: mPtr, Cell: p.Cell, Path: append(append([]int(nil), p.Path...), x.Field), T: x.Type()}
		} else {
			f.env[x] = &mv{kind: mPtr, Cell: 0, T: x.Type()}
		}
	case *ssa.Field:
		v := m.val(f, x.X)
		if v != nil && v.kind == mAgg && x.Field < len(v.Elems) {
			f.env[x] = v.Elems[x.Field]
		} else {
			f.env[x] = m.unknownOf(x.Type(), 0)
		}
	case *ssa.IndexAddr:
		p := m.val(f, x.X)
		idx := -1
		if i := m.val(f, x.Index); i != nil && i.kind == mInt && i.K != nil {
			idx = int(*i.K)
		}
		switch {
		case p != nil && p.kind == mPtr && p.Cell > 0:
			f.env[x] = &mv{kind: mPtr, Cell: p.Cell, Path: append(append([]int(nil), p.Path...), idx), T: x.Type()}
		case p != nil && p.kind == mSlice:
			// element of a slice value: materialise the slice in a cell of its own (per site) so that the store is
			// visible to later loads through the same SSA slice value
			id := m.cellID(fmt.Sprintf("%s|slice|%p", f.path, x.X))
			st.heap[id] = p
			f.env[x] = &mv{kind: mPtr, Cell: id, Path: []int{idx}, T: x.Type(), N: 1}
		default:
			f.env[x] = &mv{kind: mPtr, Cell: 0, T: x.Type()}
		}
	case *ssa.Index:
		v := m.val(f, x.X)
		idx := -1
		if i := m.val(f, x.Index); i != nil && i.kind == mInt && i.K != nil {
			idx = int(*i.K)
		}
		r := m.getPath(v, []int{idx}, x.Type())
		if r == nil {
			r = m.unknownOf(x.Type(), 0)
		}
		f.env[x] = r
	case *ssa.Slice:
		v := m.val(f, x.X)
		lo, hi := 0, -1
		loK, hiK := x.Low == nil, false
		if x.Low != nil {
			if i := m.val(f, x.Low); i != nil && i.kind == mInt && i.K != nil {
				lo, loK = int(*i.K), true
			}
		}
		if v != nil && v.kind == mPtr && v.Cell > 0 { // slicing an array variable
			v = m.getPath(st.heap[v.Cell], v.Path, nil)
			if v != nil && v.kind == mAgg {
				v = &mv{kind: mSlice, N: len(v.Elems), Elems: v.Elems, Sum: func() *mv {
					var j *mv
					for _, e := range v.Elems {
						j = mjoin(j, e)
					}
					return j
				}()}
			}
		}
		if v == nil || v.kind != mSlice {
			f.env[x] = m.unknownOf(x.Type(), 0)
			break
		}
		if x.High != nil {
			if i := m.val(f, x.High); i != nil && i.kind == mInt && i.K != nil {
				hi, hiK = int(*i.K), true
			}
		} else if v.N >= 0 {
			hi, hiK = v.N, true
		}
		r := &mv{kind: mSlice, T: x.Type(), Sum: v.Sum, N: -1}
		if loK && hiK && hi >= lo {
			r.N = hi - lo
			if v.N >= 0 && len(v.Elems) == v.N && hi <= v.N {
				r.Elems = append([]*mv(nil), v.Elems[lo:hi]...)
			}
		}
		f.env[x] = r
	case *ssa.MakeSlice:
		n := -1
		if i := m.val(f, x.Len); i != nil && i.kind == mInt && i.K != nil && *i.K >= 0 && *i.K <= 4096 {
			n = int(*i.K)
		}
		el := x.Type().Underlying().(*types.Slice).Elem()
		r := &mv{kind: mSlice, T: x.Type(), N: n, Sum: m.zeroOf(el, 0)}
		if n >= 0 && n <= 256 {
			r.Elems = make([]*mv, n)
			for i := range r.Elems {
				r.Elems[i] = m.zeroOf(el, 0)
			}
		}
		f.env[x] = r
	case *ssa.Convert:
		v := m.val(f, x.X)
		if v != nil && v.kind == mInt {
			f.env[x] = v
		} else {
			f.env[x] = m.unknownOf(x.Type(), 0)
		}
	case *ssa.ChangeType:
		f.env[x] = m.val(f, x.X)
	case *ssa.ChangeInterface:
		f.env[x] = m.val(f, x.X)
	case *ssa.MakeInterface:
		v := m.val(f, x.X)
		if isFieldType(x.Type()) {
			f.env[x] = m.toField(v, x.X.Type())
		} else {
			f.env[x] = v
		}
	case *ssa.TypeAssert:
		v := m.val(f, x.X)
		if x.CommaOk {
			f.env[x] = &mv{kind: mTuple, Elems: []*mv{v, munkInt()}}
		} else {
			f.env[x] = v
		}
	case *ssa.Extract:
		t := m.val(f, x.Tuple)
		if t != nil && t.kind == mTuple && x.Index < len(t.Elems) {
			f.env[x] = t.Elems[x.Index]
		} else {
			f.env[x] = m.unknownOf(x.Type(), 0)
		}
	case *ssa.Call:
		r := m.call(f, st, x)
		if r == nil {
			r = m.unknownOf(x.Type(), 0)
		}
		f.env[x] = r
	case *ssa.Defer, *ssa.Go, *ssa.RunDefers, *ssa.DebugRef, *ssa.Send, *ssa.MapUpdate:
	case *ssa.MakeClosure:
		fv := &mv{kind: mFunc, Fn: x.Fn.(*ssa.Function)}
		for _, b := range x.Bindings {
			fv.Elems = append(fv.Elems, m.val(f, b))
		}
		f.env[x] = fv
	default:
		if v, ok := ins.(ssa.Value); ok {
			f.env[v] = m.unknownOf(v.Type(), 0)
		}
	}
	// stores through a pointer into a per-site slice cell also re-bind the SSA slice value
	if st2, ok := ins.(*ssa.Store); ok {
		if ia, ok := st2.Addr.(*ssa.IndexAddr); ok {
			if p := f.env[ia]; p != nil && p.kind == mPtr && p.N == 1 && p.Cell > 0 {
				f.env[ia.X] = st.heap[p.Cell]
				// and the variable the slice was loaded from, if any
				if u, ok := ia.X.(*ssa.UnOp); ok && u.Op == token.MUL {
					if pp := m.val(f, u.X); pp != nil && pp.kind == mPtr && pp.Cell > 0 {
						st.heap[pp.Cell] = setPath(st.heap[pp.Cell], pp.Path, st.heap[p.Cell], false)
					}
				}
			}
		}
	}
}

func (m *magAnalyzer) globalVal(name string, t types.Type, g ssa.Value) *mv {
	if gl, ok := g.(*ssa.Global); ok {
		if init, ok := m.P.GlobalInit(gl); ok {
			if c, ok := init.(*ssa.Const); ok {
				return m.constVal(c)
			}
		}
		if gl.Name() == "MODULUS" && strings.HasSuffix(gl.Pkg.Pkg.Path(), "/goldilocks") {
			return &mv{kind: mOther, Mag: bigP}
		}
	}
	return m.unknownOf(t, 0)
}

func (m *magAnalyzer) binop(f *mframe, x *ssa.BinOp) *mv {
	a, b := m.val(f, x.X), m.val(f, x.Y)
	// an exact constant that does not fit int64 (the modulus): only ± a small constant is followed
	if a != nil && b != nil && a.kind == mInt && a.K == nil && a.Mag != nil && b.kind == mInt && b.K != nil {
		switch x.Op {
		case token.SUB:
			return &mv{kind: mInt, Mag: new(big.Int).Sub(a.Mag, big.NewInt(*b.K))}
		case token.ADD:
			return &mv{kind: mInt, Mag: new(big.Int).Add(a.Mag, big.NewInt(*b.K))}
		}
	}
	if a == nil || b == nil || a.kind != mInt || b.kind != mInt || a.K == nil || b.K == nil {
		// comparisons of a slice length etc. stay unknown
		return m.unknownOf(x.Type(), 0)
	}
	p, q := *a.K, *b.K
	bo := func(v bool) *mv {
		if v {
			return mint(1)
		}
		return mint(0)
	}
	unsigned := false
	if bt, ok := x.X.Type().Underlying().(*types.Basic); ok && bt.Info()&types.IsUnsigned != 0 {
		unsigned = true
	}
	switch x.Op {
	case token.ADD:
		return mint(p + q)
	case token.SUB:
		if unsigned && p < q {
			return munkInt()
		}
		return mint(p - q)
	case token.MUL:
		return mint(p * q)
	case token.QUO:
		if q != 0 {
			return mint(p / q)
		}
	case token.REM:
		if q != 0 {
			return mint(p % q)
		}
	case token.SHL:
		if q >= 0 && q < 62 && p >= 0 && p < (1<<(62-uint(q))) {
			return mint(p << uint(q))
		}
		return munkInt()
	case token.SHR:
		if q >= 0 && q < 64 && p >= 0 {
			return mint(p >> uint(q))
		}
		return munkInt()
	case token.AND:
		return mint(p & q)
	case token.OR:
		return mint(p | q)
	case token.XOR:
		return mint(p ^ q)
	case token.EQL:
		return bo(p == q)
	case token.NEQ:
		return bo(p != q)
	case token.LSS:
		return bo(p < q)
	case token.LEQ:
		return bo(p <= q)
	case token.GTR:
		return bo(p > q)
	case token.GEQ:
		return bo(p >= q)
	case token.LAND:
		return bo(p != 0 && q != 0)
	case token.LOR:
		return bo(p != 0 || q != 0)
	}
	return munkInt()
}

// analyzeRoot: one upper-layer function with canonical inputs
func (m *magAnalyzer) analyzeRoot(fn *ssa.Function) {
	if len(fn.Blocks) == 0 {
		return
	}
	m.rootName = m.P.FnName(fn)
	m.ctx = nil
	m.steps = 0
	f := &mframe{fn: fn, env: map[ssa.Value]*mv{}, root: true, path: m.rootName}
	for _, p := range fn.Params {
		f.env[p] = m.unknownOf(p.Type(), 0)
	}
	for _, fv := range fn.FreeVars {
		f.env[fv] = m.unknownOf(fv.Type(), 0)
	}
	st := &mstate{heap: map[int]*mv{}}
	m.runFunc(f, st)
}

// magRoots: the upper-layer functions (everything in the module outside the gadget layer and outside test support)
func (m *magAnalyzer) magRoots() []*ssa.Function {
	var out []*ssa.Function
	for _, fn := range m.P.ModuleFuncsSorted() {
		if fn.Pkg == nil || len(fn.Blocks) == 0 || m.gadget[fnPkgShort(fn)] || fn.Synthetic != "" {
			continue // gadget-layer functions are analysed in the contexts that call them; the BN254 hash is native arithmetic
		}
		out = append(out, fn)
	}
	return out
}

func debugMag(P *Program, filter string) {
	m := newMagAnalyzer(P)
	n := 0
	for _, fn := range m.magRoots() {
		if filter != "" && !strings.Contains(P.FnName(fn), filter) {
			continue
		}
		n++
		m.analyzeRoot(fn)
		fmt.Printf("root %-60s steps %d\n", P.FnName(fn), m.steps)
	}
	keys := make([]string, 0, len(m.obls))
	for k := range m.obls {
		keys = append(keys, k)
	}
	sort.Slice(keys, func(i, j int) bool {
		a, b := m.obls[keys[i]], m.obls[keys[j]]
		if a.Site != b.Site {
			return a.Site < b.Site
		}
		return a.Kind < b.Kind
	})
	for _, k := range keys {
		o := m.obls[k]
		st := "ok"
		if o.Und {
			st = "UNDECIDED"
		} else if !o.OK {
			st = "VIOLATED"
		}
		fmt.Printf("%-9s %-10s %-28s bits=%d limit=%d  %s  [%s]\n", st, o.Kind, P.Pos(o.Site), o.Bits, o.Limit, o.Why, o.Ctx)
	}
	for k := range m.notes {
		fmt.Println("note:", k)
	}
	fmt.Printf("%d roots, %d obligations\n", n, len(m.obls))
}

// rulesW2 turns the analysis into obligations of property prop
func rulesMagnitude(cx *Ctx, prop string) []Obligation {
	P := cx.P
	m := cx.mag
	if m == nil {
		m = newMagAnalyzer(P)
		roots := m.magRoots()
		total := 0
		for _, fn := range roots {
			m.analyzeRoot(fn)
			total += m.steps
		}
		cx.mag = m
		m.nRoots, m.totalSteps = len(roots), total
	}
	cx.Stats["w2_roots_analysed"] = m.nRoots
	cx.Stats["w2_abstract_steps"] = m.totalSteps
	cx.Stats["w2_sites_evaluated"] = len(m.obls)
	cx.Stats["w2_contexts_memoised"] = len(m.memo)
	var obs []Obligation
	keys := make([]string, 0, len(m.obls))
	for k := range m.obls {
		keys = append(keys, k)
	}
	sort.Slice(keys, func(i, j int) bool {
		a, b := m.obls[keys[i]], m.obls[keys[j]]
		if a.Site != b.Site {
			return a.Site < b.Site
		}
		return a.Kind < b.Kind
	})
	descOf := map[string]string{
		"reduce":    "honest fit: in every context reaching this reduction the value reduced is below p·2^n for the quotient width n in force, so the honest quotient passes its range check (worst case over all calling contexts; inputs of upper-layer functions canonical)",
		"canonical": "honest fit: every operand that reaches MulAdd / Inverse is below p in every context (the hint functions refuse larger operands, so an unreduced operand makes honest proving fail)",
		"no-wrap":   "no intermediate value of the Goldilocks gadgets reaches the BN254 scalar field in any context (the integer reasoning behind the quotient bounds holds)",
	}
	type agg struct {
		n    int
		bad  []string
		und  []string
		site string
	}
	iface := map[string]*agg{}
	nPrim := 0
	for _, k := range keys {
		o := m.obls[k]
		if o.Kind == "interface" {
			pk := fnPkgShort(o.Fn)
			a := iface[pk]
			if a == nil {
				a = &agg{}
				iface[pk] = a
			}
			a.n++
			if o.Und {
				a.und = append(a.und, P.Pos(o.Site)+" "+o.Why)
			} else if !o.OK {
				a.bad = append(a.bad, P.Pos(o.Site)+" "+o.Why)
			}
			continue
		}
		nPrim++
		key := fmt.Sprintf("%s/W2/%s/%s", prop, o.Kind, P.FnName(o.Fn))
		site := fmt.Sprintf("%s worst case 2^%d of 2^%d via %s", P.Pos(o.Site), o.Bits, o.Limit, o.Ctx)
		switch {
		case o.Und:
			obs = append(obs, Obligation{Key: key, Desc: descOf[o.Kind], Status: UNDECIDED, Detail: o.Why + " (context: " + o.Ctx + ")", Sites: []string{P.Pos(o.Site)}})
		case !o.OK:
			obs = append(obs, bad(key, descOf[o.Kind], fmt.Sprintf("%s: bound 2^%d exceeds the limit 2^%d in context %s", o.Why, o.Bits, o.Limit, o.Ctx), P.Pos(o.Site)))
		default:
			obs = append(obs, good(key, descOf[o.Kind], site))
		}
	}
	pkgs := make([]string, 0, len(iface))
	for p := range iface {
		pkgs = append(pkgs, p)
	}
	sort.Strings(pkgs)
	for _, pk := range pkgs {
		a := iface[pk]
		key := prop + "/W2/interface/" + pk
		desc := "interface invariant of the magnitude analysis: every Goldilocks value an upper-layer function of this package returns, stores outside itself or passes to another upper-layer function is canonical (only the gadget layer handles unreduced values)"
		switch {
		case len(a.bad) > 0:
			obs = append(obs, bad(key, desc, strings.Join(a.bad, "; ")))
		case len(a.und) > 0:
			obs = append(obs, Obligation{Key: key, Desc: desc, Status: UNDECIDED, Detail: strings.Join(a.und, "; ")})
		default:
			obs = append(obs, good(key, desc, fmt.Sprintf("%d crossings in package %s", a.n, pk)))
		}
	}
	notes := make([]string, 0, len(m.notes))
	for n := range m.notes {
		notes = append(notes, n)
	}
	sort.Strings(notes)
	for _, n := range notes {
		if strings.Contains(n, "limit reached") || strings.Contains(n, "did not stabilise") {
			obs = append(obs, undecided(prop+"/W2/engine", "the magnitude analysis completes", n))
		} else {
			obs = append(obs, Obligation{Key: prop + "/W2/assumption", Desc: "assumption of the magnitude analysis", Status: INFO, Detail: n})
		}
	}
	if nPrim < 7 {
		obs = append(obs, undecided(prop+"/W2/floor", "the reduction sites of the gadget layer are reached by the analysis", fmt.Sprintf("%d primitive sites evaluated, 7 confirmed by hand", nPrim)))
	}
	return obs
}
