package main

import (
	"fmt"
	"os"
	"runtime/pprof"
	"sort"

	"golang.org/x/tools/go/ssa"
	"strings"
	"time"
)

func usage() {
	fmt.Fprintln(os.Stderr, `usage:
  glcheck check <Cxx> quick|thorough      decide one property on /repo's current tree
  glcheck all quick|thorough              decide every claimed property (one load)
  glcheck replay <file>                   re-evaluate the rule named in a replay file
  glcheck dump <pkg> <func>               debug: print the records reachable from an entry`)
	os.Exit(2)
}

func main() {
	if len(os.Args) < 2 {
		usage()
	}
	switch os.Args[1] {
	case "dump":
		if len(os.Args) < 4 {
			usage()
		}
		cmdDump(os.Args[2], os.Args[3], len(os.Args) > 4 && os.Args[4] == "-v")
	case "check":
		if len(os.Args) < 4 {
			usage()
		}
		os.Exit(cmdCheck(strings.Split(os.Args[2], ","), os.Args[3]))
	case "all":
		tier := "quick"
		if len(os.Args) > 2 {
			tier = os.Args[2]
		}
		os.Exit(cmdCheck(nil, tier))
	case "guards":
		P, err := Load(repoDir())
		if err != nil {
			panic(err)
		}
		debugGuards(NewCtx(P, "quick"), os.Args[2], os.Args[3])
	case "mag":
		P, err := Load(repoDir())
		if err != nil {
			panic(err)
		}
		filter := ""
		if len(os.Args) > 2 {
			filter = os.Args[2]
		}
		debugMag(P, filter)
	case "replay":
		if len(os.Args) < 3 {
			usage()
		}
		os.Exit(cmdReplay(os.Args[2]))
	default:
		usage()
	}
}

func cmdDump(pkg, fn string, verbose bool) {
	t0 := time.Now()
	P, err := Load(repoDir())
	if err != nil {
		fmt.Println("load error:", err)
		os.Exit(3)
	}
	fmt.Printf("loaded %d module functions, %d blocks in %v\n", P.NFuncs, P.NBlock, time.Since(t0))
	f := P.Func(pkg, fn)
	if f == nil {
		fmt.Println("no such function")
		os.Exit(3)
	}
	t1 := time.Now()
	in := NewInterp(P)
	in.OpaquePure = !in.Layer[fnPkgShort(f)]
	in.FnCalls, in.FnEvals = map[*ssa.Function]int{}, map[*ssa.Function]int{}
	if pf := os.Getenv("GLCHECK_PROF"); pf != "" {
		fh, _ := os.Create(pf)
		pprof.StartCPUProfile(fh)
		defer pprof.StopCPUProfile()
	}
	res := in.Run(f)
	{
		type kv struct {
			f *ssa.Function
			n int
		}
		var l []kv
		for f, n := range in.FnEvals {
			l = append(l, kv{f, n})
		}
		sort.Slice(l, func(i, j int) bool { return l[i].n > l[j].n })
		for i, e := range l {
			if i > 25 {
				break
			}
			fmt.Printf("evals %6d calls %6d %s\n", e.n, in.FnCalls[e.f], P.FnName(e.f))
		}
	}
	recs := in.Flatten(res)
	if in.gadget != nil {
		fmt.Printf("gadget interp: %d calls, %d steps, %d memo\n", in.gadget.Calls, in.gadget.Steps, len(in.gadget.memo))
	}
	fmt.Printf("interp: %d calls, %d steps, %d memo, %d atoms, %d recs in %v\n", in.Calls, in.Steps, len(in.memo), len(in.Atoms.names), len(recs), time.Since(t1))
	for _, n := range in.Notes {
		fmt.Println("NOTE:", n)
	}
	for _, r := range recs {
		if !verbose && (r.Kind == "call" || r.Kind == "store") {
			continue
		}
		fmt.Println(in.RecString(r))
	}
	fmt.Print("ret:\n", in.Dump(res.Ret, "  ", 4))
}

func (in *Interp) RecString(r *Rec) string {
	var sb strings.Builder
	m := "may "
	if r.Must {
		m = "MUST"
	}
	fmt.Fprintf(&sb, "%s %-6s %s", m, r.Kind, in.P.Pos(r.Site))
	if r.Callee != nil {
		fmt.Fprintf(&sb, " → %s", in.P.FnName(r.Callee))
	}
	for i, a := range r.Args {
		fmt.Fprintf(&sb, "\n      arg%d: %s", i, a.short(3))
		if a != nil {
			if d := in.Atoms.Names(in.AllDeps(a)); len(d) > 0 && len(d) <= 12 {
				fmt.Fprintf(&sb, "  deps=%v", d)
			} else if len(d) > 12 {
				fmt.Fprintf(&sb, "  deps=%d atoms", len(d))
			}
			if len(a.bnd) > 0 {
				fmt.Fprintf(&sb, " bnd=%v", a.bnd)
			}
		}
	}
	if r.Width != nil {
		fmt.Fprintf(&sb, "\n      width: %s", r.Width.short(2))
	}
	if r.Kind == "guard" {
		fmt.Fprintf(&sb, " neg=%v", r.Neg)
	}
	if len(r.Loops) > 0 {
		sb.WriteString("\n      loops:")
		for _, id := range r.Loops {
			sb.WriteString(" " + in.LoopString(id))
		}
	}
	if len(r.Chain) > 0 {
		sb.WriteString("\n      via:")
		for _, c := range r.Chain {
			fmt.Fprintf(&sb, " %s→%s", in.P.Pos(c.Site), c.Callee.Name())
		}
	}
	return sb.String()
}

func (in *Interp) LoopString(id int) string {
	ld := in.Loops[id]
	if ld == nil {
		return fmt.Sprintf("iv%d?", id)
	}
	s := fmt.Sprintf("iv%d{", id)
	sl := ld.S
	if !sl.Counted {
		s += "uncounted"
	} else {
		if sl.StartConst != nil {
			s += fmt.Sprintf("from %d ", *sl.StartConst)
		} else if ld.Start != nil {
			s += "from " + symOrLen(ld.Start) + " "
		}
		s += fmt.Sprintf("step %d while %s ", sl.Step, sl.Op)
		if ld.Bound != nil {
			if len(ld.Bound.LenOf) > 0 {
				s += "len" + fmt.Sprint(ld.Bound.LenOf)
			} else {
				s += ld.Bound.short(1)
			}
		}
	}
	if !sl.SingleExit {
		s += " multi-exit"
	}
	return s + "}"
}
