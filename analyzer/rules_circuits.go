package main

// Circuit-level rules: C03 (public-input packing of the fixed wrapper), C04 (verifier key is not a prover input),
// C01 (wiring of the entry points and liveness of every input leaf).

import (
	"fmt"
	"go/token"
	"go/types"
	"math/big"
	"reflect"
	"regexp"
	"sort"
	"strings"

	"golang.org/x/tools/go/ssa"
)

// circuits: named struct types of the module (non-test) whose pointer type has Define(frontend.API) error.
func circuits(P *Program) []*ssa.Function {
	var out []*ssa.Function
	for _, f := range P.ModuleFuncsSorted() {
		if f.Name() != "Define" || f.Signature.Recv() == nil || f.Signature.Params().Len() != 1 || f.Synthetic != "" {
			continue
		}
		if !strings.HasSuffix(f.Signature.Params().At(0).Type().String(), "frontend.API") {
			continue
		}
		out = append(out, f)
	}
	return out
}

func recvStruct(f *ssa.Function) (*types.Named, *types.Struct) {
	t := f.Signature.Recv().Type()
	if p, ok := t.(*types.Pointer); ok {
		t = p.Elem()
	}
	n, _ := t.(*types.Named)
	if n == nil {
		return nil, nil
	}
	s, _ := n.Underlying().(*types.Struct)
	return n, s
}

// gnarkVisibility parses a struct tag the way gnark's schema walker does.
func gnarkVisibility(tag string) string {
	g, ok := reflect.StructTag(tag).Lookup("gnark")
	if !ok {
		return "secret"
	}
	parts := strings.Split(g, ",")
	if strings.TrimSpace(parts[0]) == "-" {
		return "-"
	}
	for _, o := range parts[1:] {
		switch strings.TrimSpace(o) {
		case "public":
			return "public"
		case "secret":
			return "secret"
		}
	}
	return "secret"
}

func fieldTag(s *types.Struct, name string) (string, bool) {
	for i := 0; i < s.NumFields(); i++ {
		if s.Field(i).Name() == name {
			return s.Tag(i), true
		}
	}
	return "", false
}

// fieldEmbedded: gnark v0.9.1's schema walker (frontend/schema/internal/reflectwalk, walkStruct) descends into an
// anonymous (embedded) field WITHOUT consulting its tag — a `gnark:"-"` on an embedded field has no effect.
func fieldEmbedded(s *types.Struct, name string) bool {
	for i := 0; i < s.NumFields(); i++ {
		if s.Field(i).Name() == name {
			return s.Field(i).Embedded()
		}
	}
	return false
}

func verifyFn(P *Program) *ssa.Function { return P.Func("verifier", "(*VerifierChip).Verify") }

// ---------------------------------------------------------------- C04

func rulesC04(cx *Ctx) []Obligation {
	var obs []Obligation
	P := cx.P
	vf := verifyFn(P)
	if vf == nil {
		return []Obligation{undecided("C04/anchor", "VerifierChip.Verify exists", "not found")}
	}
	n := 0
	for _, def := range circuits(P) {
		r := cx.EntryFn(def)
		named, st := recvStruct(def)
		if named == nil || st == nil {
			continue
		}
		for _, rec := range r.Recs {
			if rec.Kind != "call" || rec.Callee != vf || len(rec.Args) < 4 {
				continue
			}
			n++
			cname := named.Obj().Name()
			key := "C04/key/" + shortPkg(named.Obj().Pkg()) + "." + cname
			desc := "the verifier key checked against (argument verifierData of VerifierChip.Verify) originates from a field of the circuit that is not a prover input: gnark tag '-' (build-time constant) or ',public'"
			p, okk := rec.Args[3].Definite()
			if !okk || !strings.HasPrefix(p, "R.") {
				obs = append(obs, bad(key, desc, "the verifier data passed to Verify is not (definitely) a field of the circuit: "+rec.Args[3].short(1), r.site(rec)))
				continue
			}
			field := splitSel(strings.TrimPrefix(p, "R"))[0][1:]
			tag, has := fieldTag(st, field)
			if !has {
				obs = append(obs, undecided(key, desc, "field "+field+" not found in "+cname))
				continue
			}
			if fieldEmbedded(st, field) {
				obs = append(obs, bad(key, desc, fmt.Sprintf("field %s.%s is embedded: gnark's schema walker descends into anonymous fields without reading their tag, so `%s` has no effect and every leaf of the key is a secret prover input", cname, field, tag), r.site(rec)))
				continue
			}
			switch vis := gnarkVisibility(tag); vis {
			case "-", "public":
				obs = append(obs, good(key, desc, fmt.Sprintf("%s.%s `%s` (%s) at %s", cname, field, tag, vis, r.site(rec))))
			default:
				obs = append(obs, bad(key, desc, fmt.Sprintf("field %s.%s is a secret circuit input (tag `%s`): the prover chooses the verifier key, so the wrapper accepts proofs of any inner circuit, and cap entries no query selects are unconstrained", cname, field, tag), r.site(rec)))
			}
		}
	}
	if n < 2 {
		obs = append(obs, undecided("C04/floor", "the circuits whose Define reaches VerifierChip.Verify are found", fmt.Sprintf("%d call sites found, 2 circuits confirmed by hand", n)))
	}
	return obs
}

// ---------------------------------------------------------------- C03

var sliceSel = regexp.MustCompile(`^(.*)\[s:([^\]]*):([^\]]*)\]\[iv(\d+)\]\.Limb$`)

func rulesC03(cx *Ctx) []Obligation {
	var obs []Obligation
	P := cx.P
	r := cx.Entry("verifier", "(*CircuitFixed).Define")
	if r == nil {
		return []Obligation{undecided("C03/anchor", "verifier.CircuitFixed.Define exists", "not found")}
	}
	for _, n := range r.In.Notes {
		if strings.HasPrefix(n, "fixpoint not reached") {
			obs = append(obs, undecided("C03/engine", "analysis completes", n))
		}
	}
	// O3.1
	for _, o := range rulePis16(cx) {
		o.Key = strings.Replace(o.Key, "C20/guard/pis=16", "C03/O3.1/pis=16", 1)
		obs = append(obs, o)
	}
	_, st := recvStruct(r.Entry)
	// the public values: an array field tagged public
	pubField, pubLen := "", int64(0)
	if st != nil {
		for i := 0; i < st.NumFields(); i++ {
			if a, ok := st.Field(i).Type().Underlying().(*types.Array); ok && gnarkVisibility(st.Tag(i)) == "public" {
				pubField, pubLen = st.Field(i).Name(), a.Len()
			}
		}
	}
	if pubField == "" {
		return append(obs, undecided("C03/anchor/public-values", "CircuitFixed has a public array of on-chain values", "no array field tagged ,public"))
	}
	key33 := "C03/O3.3/all-values-asserted"
	d33 := fmt.Sprintf("each of the %d public values is asserted equal to its packed limbs on every path (loop over the whole array)", pubLen)
	var eq *Rec
	for _, rec := range r.Recs {
		if rec.Kind != "eq" || len(rec.Chain) != 0 || len(rec.Args) != 2 {
			continue
		}
		for i, a := range rec.Args {
			if p, ok := a.Definite(); ok && patRe("R."+pubField+"[]").MatchString(p) {
				if i == 1 {
					rec = &Rec{Kind: rec.Kind, Site: rec.Site, Fn: rec.Fn, Args: []*Val{rec.Args[1], rec.Args[0]}, Must: rec.Must, Loops: rec.Loops, Chain: rec.Chain}
				}
				eq = rec
			}
		}
	}
	if eq == nil {
		return append(obs, bad(key33, d33, "no equality on an element of "+pubField+" in Define", P.FnName(r.Entry)))
	}
	pubPath, _ := eq.Args[0].Definite()
	m := ivRe.FindStringSubmatch(pubPath)
	if m == nil {
		m = regexp.MustCompile(`\[e:/\(iv(\d+),\d+\)\]$`).FindStringSubmatch(pubPath) // value[s/T] of the stride form
	}
	jOK := false
	var jID int
	strideT := int64(0)
	if m != nil && eq.Must {
		jID = atoi(m[1])
		ld := r.In.Loops[jID]
		if ld != nil && hasInt(eq.Loops, jID) && ld.S.Counted && ld.S.SingleExit && ld.S.Step == 1 && ld.S.StartConst != nil && *ld.S.StartConst == 0 && ld.S.Op == token.LSS {
			if b := constOf(ld.Bound); b != nil && b.Int64() == pubLen {
				jOK = true
			}
		}
		// stride form: for s := 0; s < len(inner public inputs); s += T { … value[s/T] … } — 16/T values (the length is
		// pinned to 16 by the refusal of O3.1)
		if ld != nil && !jOK && hasInt(eq.Loops, jID) && ld.S.Counted && ld.S.SingleExit && ld.S.Step > 1 && ld.S.StartConst != nil && *ld.S.StartConst == 0 && ld.S.Op == token.LSS &&
			ld.Bound != nil && len(ld.Bound.LenOf) == 1 && strings.HasSuffix(ld.Bound.LenOf[0], ".PublicInputs") {
			T := ld.S.Step
			want := fmt.Sprintf("R.%s[e:/(iv%d,%d)]", pubField, jID, T)
			if pubPath == want && 16%T == 0 && 16/T == pubLen {
				jOK = true
				strideT = T
			}
		}
	}
	if jOK {
		obs = append(obs, good(key33, d33, r.site(eq)))
	} else {
		obs = append(obs, bad(key33, d33, "the assertion does not cover every element of "+pubField+" on every path (loop bounds, conditional, early exit)", r.site(eq)))
	}
	// O3.2 / O3.4: the packed side is a loop accumulator acc' = limb + M·acc starting at 0
	key32 := "C03/O3.2/limbs-width-checked"
	d32 := "every limb packed into a public value is, as the same slice element, range-checked on every path to a width w with 2^w ≤ the packing multiplier (the inner proof fixes limbs only modulo p), and the limbs of all values partition the public inputs"
	key34 := "C03/O3.4/below-2^128"
	d34 := "the packed value is bounded by multiplier^limbs ≤ 2^128 (the contract stores uint128 per value)"
	acc := eq.Args[1]
	if acc.Ex == nil || acc.Ex.Op != "loopphi" || len(acc.Ex.Args) != 1 {
		return append(obs, undecided(key32, d32, "the packed value is not recognised as a loop accumulator: "+acc.short(2)))
	}
	if z := constOf(acc.Ex.Args[0]); z == nil || z.Sign() != 0 {
		return append(obs, bad(key32, d32, "the accumulator does not start at 0", r.site(eq)))
	}
	step := r.In.Recur[acc.Ex.Site]
	if step == nil || step.Ex == nil {
		return append(obs, undecided(key32, d32, "the accumulator's step expression is not available"))
	}
	// step = Add(limb, Mul(M, acc)) in any operand order (or MulAcc(limb, M, acc))
	var limb *Val
	var mult *big.Int
	isAcc := func(v *Val) bool {
		return v != nil && v.Ex != nil && v.Ex.Op == "loopphi" && v.Ex.Site == acc.Ex.Site
	}
	parseMul := func(v *Val) *big.Int {
		if v == nil || v.Ex == nil || v.Ex.Op != "Mul" {
			return nil
		}
		var c *big.Int
		seenAcc := false
		for _, a := range v.Ex.Args {
			switch {
			case isNilArg(a) && constOf(a) == nil:
			case isAcc(a):
				seenAcc = true
			case constOf(a) != nil:
				c = constOf(a)
			default:
				return nil
			}
		}
		if seenAcc {
			return c
		}
		return nil
	}
	switch step.Ex.Op {
	case "Add":
		for _, a := range step.Ex.Args {
			if isNilArg(a) && constOf(a) == nil {
				continue
			}
			if mm := parseMul(a); mm != nil {
				mult = mm
			} else if _, ok := a.Definite(); ok && a.Ex == nil {
				limb = a
			} else {
				limb, mult = nil, nil
				break
			}
		}
	case "MulAcc":
		if len(step.Ex.Args) == 3 {
			a, b, c := step.Ex.Args[0], step.Ex.Args[1], step.Ex.Args[2]
			if _, ok := a.Definite(); ok {
				limb = a
				if isAcc(b) {
					mult = constOf(c)
				} else if isAcc(c) {
					mult = constOf(b)
				}
			}
		}
	}
	if limb == nil || mult == nil {
		return append(obs, bad(key32, d32, "the packing step is not of the form limb + multiplier·accumulator: "+step.short(3), r.site(eq)))
	}
	lp, _ := limb.Definite()
	sm := sliceSel.FindStringSubmatch(lp)
	if sm == nil {
		// flat-index form: publicInputs[j*T+i] — the same windows [j·T, (j+1)·T) written as index arithmetic
		jv0 := fmt.Sprintf("iv%d", jID)
		for ri, re := range []*regexp.Regexp{
			regexp.MustCompile(`^(.*)\[e:\+\(\*\(` + jv0 + `,(\d+)\),iv(\d+)\)\]\.Limb$`),
			regexp.MustCompile(`^(.*)\[e:\+\(\*\((\d+),` + jv0 + `\),iv(\d+)\)\]\.Limb$`),
			regexp.MustCompile(`^(.*)\[e:\+\(iv(\d+),\*\(` + jv0 + `,(\d+)\)\)\]\.Limb$`),
		} {
			if m := re.FindStringSubmatch(lp); m != nil {
				t, iv := m[2], m[3]
				if ri == 2 {
					t, iv = m[3], m[2]
				}
				// rewrite into the window form the rest of the rule speaks: base[s:j*T:(j+1)*T][ivI]
				sm = []string{lp, m[1], fmt.Sprintf("*(%s,%s)", jv0, t), fmt.Sprintf("*(+(%s,1),%s)", jv0, t), iv}
				break
			}
		}
	}
	if sm == nil || !strings.HasSuffix(sm[1], ".PublicInputs") {
		return append(obs, bad(key32, d32, "the packed limb is not an element of a sub-slice of the inner proof's public inputs: "+lp, r.site(eq)))
	}
	iID := atoi(sm[4])
	ild := r.In.Loops[iID]
	var T int64
	if ild != nil && ild.S.Counted && ild.S.SingleExit && ild.S.Step == 1 && ild.S.StartConst != nil && *ild.S.StartConst == 0 && ild.S.Op == token.LSS {
		if b := constOf(ild.Bound); b != nil {
			T = b.Int64()
		}
	}
	jv := fmt.Sprintf("iv%d", jID)
	if T == 0 && ild != nil && ild.S.Counted && ild.S.SingleExit && ild.S.Step == 1 && ild.S.StartConst != nil && *ild.S.StartConst == 0 && ild.S.Op == token.LSS && ild.Bound != nil && len(ild.Bound.LenOf) == 1 {
		// the inner loop ranges over the sub-slice itself (a packing helper taking the slice): its trip count is the
		// width of the window, read off the slice bounds j·T … (j+1)·T
		want := sm[1] + "[s:" + sm[2] + ":" + sm[3] + "]"
		if ild.Bound.LenOf[0] == want {
			for _, re := range []*regexp.Regexp{regexp.MustCompile(`^\*\(` + jv + `,(\d+)\)$`), regexp.MustCompile(`^\*\((\d+),` + jv + `\)$`)} {
				if m := re.FindStringSubmatch(sm[2]); m != nil {
					T = int64(atoi(m[1]))
				}
			}
		}
	}
	loOK := sm[2] == fmt.Sprintf("*(%s,%d)", jv, T) || sm[2] == fmt.Sprintf("*(%d,%s)", T, jv)
	hiOK := sm[3] == fmt.Sprintf("*(+(%s,1),%d)", jv, T) || sm[3] == fmt.Sprintf("+(*(%s,%d),%d)", jv, T, T) || sm[3] == fmt.Sprintf("*(%d,+(%s,1))", T, jv)
	if strideT > 0 {
		// stride form: the window of the value starting at s is [s, s+T), s advancing by T
		T = strideT
		loOK = sm[2] == jv
		hiOK = sm[3] == fmt.Sprintf("+(%s,%d)", jv, T)
		if ild != nil && !(ild.Bound != nil && len(ild.Bound.LenOf) == 1 && ild.Bound.LenOf[0] == sm[1]+"[s:"+sm[2]+":"+sm[3]+"]") && !(constOf(ild.Bound) != nil && constOf(ild.Bound).Int64() == T) {
			loOK = false // the inner loop does not run over exactly the window
		}
	}
	if T == 0 || !loOK || !hiOK || T*pubLen != 16 {
		return append(obs, bad(key32, d32, fmt.Sprintf("the limbs of value j are not public inputs [j·T, (j+1)·T) with T·%d = 16 (slice [%s:%s], inner trip count %d)", pubLen, sm[2], sm[3], T), r.site(eq)))
	}
	// the width check on the same element
	var wsite string
	why := "no n-bit range check is applied to the packed limb " + genIv(lp)
	for _, rec := range r.Recs {
		if rec.Kind != "range" || len(rec.Args) == 0 {
			continue
		}
		p, ok := rec.Args[0].Definite()
		if !ok {
			continue
		}
		if p != lp {
			// a separate sweep over the whole list of inner public inputs covers every limb as well
			if m := regexp.MustCompile(`^` + regexp.QuoteMeta(sm[1]) + `\[iv\d+\]\.Limb$`).FindString(p); m == "" {
				continue
			}
			if c, w := r.covered(rec, p); !c || !rec.Must {
				why = "the width check does not cover every inner public input: " + w
				continue
			}
		} else if !rec.Must || !hasInt(rec.Loops, jID) || !hasInt(rec.Loops, iID) {
			why = "the width check of the limb is conditional or outside the packing loops"
			continue
		}
		w := constOf(rec.Width)
		if w == nil || !w.IsInt64() {
			why = "the width of the limb check is not constant"
			continue
		}
		if pow2(uint(w.Int64())).Cmp(mult) > 0 {
			why = fmt.Sprintf("limbs are checked to %d bits but packed with multiplier %s: limbs up to 2^%d-1 overlap, the packing is not injective", w.Int64(), mult, w.Int64())
			continue
		}
		wsite = r.site(rec) + fmt.Sprintf(" width %d, multiplier %s", w.Int64(), mult)
	}
	if wsite == "" {
		obs = append(obs, bad(key32, d32, why, r.site(eq)))
	} else {
		obs = append(obs, good(key32, d32, wsite))
	}
	bound := new(big.Int).Exp(mult, big.NewInt(T), nil)
	if bound.Cmp(pow2(128)) <= 0 {
		obs = append(obs, good(key34, d34, fmt.Sprintf("%s: %s^%d = 2^%d", r.site(eq), mult, T, bound.BitLen()-1)))
	} else {
		obs = append(obs, bad(key34, d34, fmt.Sprintf("%s^%d exceeds 2^128", mult, T), r.site(eq)))
	}
	return obs
}

// ---------------------------------------------------------------- C01 (own obligations; the rest is the union of other properties)

func rulesC01Own(cx *Ctx) []Obligation {
	var obs []Obligation
	P := cx.P
	vf := verifyFn(P)
	if vf == nil {
		return []Obligation{undecided("C01/anchor", "VerifierChip.Verify exists", "not found")}
	}
	// O1.1
	n := 0
	for _, def := range circuits(P) {
		r := cx.EntryFn(def)
		named, _ := recvStruct(def)
		if named == nil {
			continue
		}
		for _, rec := range r.Recs {
			if rec.Kind != "call" || rec.Callee != vf || len(rec.Args) < 4 {
				continue
			}
			n++
			key := "C01/O1.1/" + named.Obj().Name()
			desc := "the circuit's Define calls VerifierChip.Verify on every path that returns nil, with the proof, public inputs and verifier data of the circuit's own fields"
			var bads []string
			if !rec.Must {
				bads = append(bads, "the call is conditional")
			}
			for i, want := range []string{"", `^R\.([A-Za-z]+\.)?Proof$`, `^R\.([A-Za-z]+\.)?PublicInputs$`, `^R\.VerifierData$`} {
				if i == 0 {
					continue
				}
				p, okk := rec.Args[i].Definite()
				if !okk || !regexp.MustCompile(want).MatchString(p) {
					bads = append(bads, fmt.Sprintf("argument %d is %s", i, rec.Args[i].short(1)))
				}
			}
			if len(bads) == 0 {
				obs = append(obs, good(key, desc, r.site(rec)))
			} else {
				obs = append(obs, bad(key, desc, strings.Join(bads, "; "), r.site(rec)))
			}
		}
	}
	if n < 2 {
		obs = append(obs, undecided("C01/O1.1/floor", "both circuits call VerifierChip.Verify", fmt.Sprintf("%d call sites found", n)))
	}
	// O1.2
	r := cx.verify()
	proof := r.ParamRoot("variables.Proof")
	vd := r.ParamRoot("variables.VerifierOnlyCircuitData")
	pis := r.Entry.Params[2].Name()
	transcript := []string{proof + ".WiresCap", proof + ".QuotientPolysCap", proof + ".Openings.Wires", vd + ".CircuitDigest", pis}
	{
		key := "C01/O1.2/plonk"
		desc := "Verify calls the PLONK check on every path with the challenges derived from (proof, public-input hash, circuit digest), the proof's openings, and the hash of the public inputs"
		found := false
		var diag []string
		for _, rec := range r.Recs {
			if rec.Kind != "call" || rec.Callee == nil || rec.Callee.Name() != "Verify" || fnPkgShort(rec.Callee) != "plonk" || len(rec.Chain) != 0 || len(rec.Args) < 4 {
				continue
			}
			site := r.site(rec)
			if !rec.Must {
				diag = append(diag, site+": conditional")
				continue
			}
			if p, okk := rec.Args[2].Definite(); !okk || p != proof+".Openings" {
				diag = append(diag, site+": the openings argument is "+rec.Args[2].short(1))
				continue
			}
			if !r.depsHave(rec.Args[3], pis) || !r.hasTag(rec.Args[3], "HashNoPad") || r.depsHave(rec.Args[3], proof) {
				diag = append(diag, site+": the public-input hash argument is not HashNoPad(publicInputs): "+rec.Args[3].short(1))
				continue
			}
			if okk, miss := r.depsHaveAll(rec.Args[1], transcript...); !okk {
				diag = append(diag, site+": the challenges do not depend on "+miss)
				continue
			}
			hashedAll := false
			for _, h := range r.Recs {
				if h.Kind == "call" && h.Must && h.Callee != nil && h.Callee.Name() == "HashNoPad" && fnPkgShort(h.Callee) == "poseidon" && len(h.Args) > 1 {
					if p, okk := h.Args[1].Definite(); okk && p == pis {
						hashedAll = true
					}
				}
			}
			if !hashedAll {
				diag = append(diag, site+": the public-input hash is not HashNoPad of the complete public-input slice")
				continue
			}
			found = true
			obs = append(obs, good(key, desc, site))
		}
		if !found {
			obs = append(obs, bad(key, desc, strings.Join(append(diag, "no suitable call to plonk.PlonkChip.Verify"), " | ")))
		}
	}
	{
		key := "C01/O1.2/fri"
		desc := "Verify calls FRI verification on every path with an instance built from ζ, the openings of the proof, the FRI challenges of the same derivation, and the proof's opening proof"
		found := false
		var diag []string
		for _, rec := range r.Recs {
			if rec.Kind != "call" || rec.Callee == nil || rec.Callee.Name() != "VerifyFriProof" || len(rec.Chain) != 0 || len(rec.Args) < 6 {
				continue
			}
			site := r.site(rec)
			if !rec.Must {
				diag = append(diag, site+": conditional")
				continue
			}
			if p, okk := r.pointee(rec.Args[5]).Definite(); !okk || p != proof+".OpeningProof" {
				diag = append(diag, site+": the FRI proof argument is "+rec.Args[5].short(1))
				continue
			}
			if okk, miss := r.depsHaveAll(rec.Args[1], proof+".WiresCap", proof+".QuotientPolysCap", vd+".CircuitDigest", pis); !okk {
				diag = append(diag, site+": the instance (ζ) does not depend on "+miss)
				continue
			}
			if okk, miss := r.depsHaveAll(rec.Args[2], proof+".Openings.Wires", proof+".Openings.PlonkZsNext", proof+".Openings.QuotientPolys"); !okk {
				diag = append(diag, site+": the openings handed to FRI do not contain "+miss)
				continue
			}
			fc := false
			for _, f := range rec.Args[3].From {
				if strings.HasSuffix(f, ".FriChallenges") {
					fc = true
				}
			}
			if !fc && rec.Args[3].Cell != nil {
				fc = strings.HasSuffix(rec.Args[3].CSel, ".FriChallenges")
			}
			if !fc {
				diag = append(diag, site+": the challenges argument is not the FriChallenges of the derived challenges: "+rec.Args[3].short(1))
				continue
			}
			found = true
			obs = append(obs, good(key, desc, site))
		}
		if !found {
			obs = append(obs, bad(key, desc, strings.Join(append(diag, "no suitable call to fri.Chip.VerifyFriProof"), " | ")))
		}
	}
	// O1.3 leaf liveness
	sinkKinds := map[string]bool{"eq": true, "range": true, "canon": true, "tobin": true, "neq": true, "bool": true, "leq": true}
	var live Bits
	for _, rec := range r.Recs {
		if !sinkKinds[rec.Kind] || !rec.Must {
			continue
		}
		for _, a := range rec.Args {
			live = live.Or(r.In.AllDeps(a))
		}
	}
	liveNames := r.In.Atoms.Names(live)
	roots := []struct {
		root string
		t    types.Type
	}{{proof, P.NamedType("variables", "Proof")}, {vd, P.NamedType("variables", "VerifierOnlyCircuitData")}}
	var leaves []string
	for _, rt := range roots {
		if rt.t == nil {
			continue
		}
		var ls []string
		leafPaths(rt.t, "", func(t types.Type) bool {
			if _, isIface := t.Underlying().(*types.Interface); isIface {
				return strings.HasSuffix(types.Unalias(t).String(), "frontend.Variable")
			}
			return typeIs(t, "goldilocks.Variable", "goldilocks.QuadraticExtensionVariable")
		}, &ls, 0)
		for _, l := range ls {
			leaves = append(leaves, rt.root+l)
		}
	}
	leaves = append(leaves, pis+"[]")
	sort.Strings(leaves)
	for _, leaf := range leaves {
		key := "C01/O1.3/live/" + leaf
		desc := "the input leaf influences at least one constraint that is emitted on every path (an input that reaches no constraint can be changed freely)"
		g := genPath(strings.ReplaceAll(leaf, "[]", "[*]"))
		hit := false
		for _, nme := range liveNames {
			if nme == g || strings.HasPrefix(nme, g+".") || strings.HasPrefix(nme, g+"[") || strings.HasPrefix(g, nme+".") || strings.HasPrefix(g, nme+"[") {
				hit = true
				break
			}
		}
		if hit {
			obs = append(obs, good(key, desc, leaf))
		} else {
			obs = append(obs, bad(key, desc, "no must-executed constraint depends on "+leaf))
		}
	}
	if len(leaves) < 18 {
		obs = append(obs, undecided("C01/O1.3/floor", "input leaves are enumerated from the types", fmt.Sprintf("%d leaves", len(leaves))))
	}
	return obs
}

// pointee: what a pointer into a local cell points to (parameters passed by value are spilled to cells).
func (r *Run) pointee(v *Val) *Val {
	if v != nil && v.Cell != nil && len(v.Dir) == 0 {
		c := r.In.cellRead(v.Cell, v.CSel)
		cc := *c
		cc.From = nil
		return &cc
	}
	return v
}

// rulesConfigCoverage: list-valued constants of the circuit description are consumed for every index 0..n-1
// (a coset shift or gate that is skipped can be changed in the description without affecting the verdict).
func rulesConfigCoverage(cx *Ctx, prop string) []Obligation {
	r := cx.verify()
	if r == nil {
		return nil
	}
	var obs []Obligation
	type want struct {
		key, desc, pat, boundSuffix string
	}
	for _, w := range []want{
		{prop + "/config-coverage/coset-shifts", "every coset shift k_i of the circuit description (i = 0 … NumRoutedWires−1) is consumed on every path: the loop that multiplies ζ by k_i starts at 0, steps by 1, has no other exit and is bounded by Config.NumRoutedWires", `R\.[A-Za-z]+\.commonDataKIs\[iv(\d+)\]`, ".Config.NumRoutedWires"},
		{prop + "/config-coverage/gates", "every gate of the circuit description is evaluated (full-range loop over the gate list), together with its own selector index", `R\.[A-Za-z.]+\.gates\[iv(\d+)\]`, ""},
	} {
		re := regexp.MustCompile("^" + w.pat + "$")
		found := false
		why := "no use of the list inside a loop found on the paths from Verify"
		for _, rec := range r.Recs {
			if rec.Kind != "call" {
				continue
			}
			for _, a := range rec.Args {
				p, okk := a.Definite()
				if !okk {
					continue
				}
				m := re.FindStringSubmatch(p)
				if m == nil {
					continue
				}
				id := atoi(m[1])
				ld := r.In.Loops[id]
				site := r.site(rec)
				switch {
				case !rec.Must || !hasInt(rec.Loops, id):
					why = site + ": the use is conditional or outside its loop"
				case !ld.S.Counted || !ld.S.SingleExit || ld.S.Step != 1 || ld.S.StartConst == nil || *ld.S.StartConst != 0 || ld.S.Op != token.LSS:
					why = site + ": the loop at " + ld.FnPos + " does not visit indices 0,1,…,n−1 (start, step, bound test or early exit)"
				case w.boundSuffix != "" && !strings.HasSuffix(symOrLen(ld.Bound), w.boundSuffix):
					why = site + ": the loop is bounded by " + boundStr(ld.Bound) + ", not by " + w.boundSuffix
				case w.boundSuffix == "" && !(len(ld.Bound.LenOf) == 1 && ld.Bound.LenOf[0] == p[:strings.LastIndex(p, "[iv")]):
					why = site + ": the loop is not bounded by the length of the list itself"
				default:
					if !found {
						obs = append(obs, good(w.key, w.desc, site))
					}
					found = true
				}
			}
		}
		if !found {
			obs = append(obs, bad(w.key, w.desc, why))
		}
	}
	return obs
}
