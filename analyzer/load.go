package main

// E0 — loader: the resolved, type-checked program of /repo/gnark-plonky2-verifier in SSA form.

import (
	"fmt"
	"go/token"
	"go/types"
	"os"
	"path/filepath"
	"sort"
	"strings"

	"golang.org/x/tools/go/packages"
	"golang.org/x/tools/go/ssa"
	"golang.org/x/tools/go/ssa/ssautil"
)

const ModPath = "github.com/wormhole-foundation/example-near-light-client"

type Program struct {
	Dir    string
	Fset   *token.FileSet
	Pkgs   []*packages.Package
	Prog   *ssa.Program
	SPkgs  map[string]*ssa.Package // by short path relative to module ("goldilocks", "plonk/gates", ...)
	AllFns map[*ssa.Function]bool
	NFuncs int
	NBlock int
}

func repoDir() string {
	if d := os.Getenv("GLCHECK_REPO"); d != "" {
		return d
	}
	return "/repo/gnark-plonky2-verifier"
}

func Load(dir string) (*Program, error) {
	env := []string{}
	for _, e := range os.Environ() {
		if strings.HasPrefix(e, "GOWORK=") || strings.HasPrefix(e, "GOFLAGS=") || strings.HasPrefix(e, "GOPROXY=") {
			continue
		}
		env = append(env, e)
	}
	env = append(env, "GOFLAGS=-mod=mod", "GOPROXY=off", "GOWORK=off", "GOSUMDB=off", "GOTOOLCHAIN=local")
	cfg := &packages.Config{Mode: packages.LoadAllSyntax, Dir: dir, Tests: false, Env: env}
	pkgs, err := packages.Load(cfg, "./...")
	if err != nil {
		return nil, err
	}
	if len(pkgs) == 0 {
		return nil, fmt.Errorf("no packages loaded from %s", dir)
	}
	var errs []string
	packages.Visit(pkgs, nil, func(p *packages.Package) {
		if strings.HasPrefix(p.PkgPath, ModPath) {
			for _, e := range p.Errors {
				errs = append(errs, e.Error())
			}
		}
	})
	if len(errs) > 0 {
		return nil, fmt.Errorf("type errors in module: %s", strings.Join(errs, "; "))
	}
	prog, spkgs := ssautil.AllPackages(pkgs, ssa.InstantiateGenerics)
	prog.Build()
	P := &Program{Dir: dir, Fset: prog.Fset, Pkgs: pkgs, Prog: prog, SPkgs: map[string]*ssa.Package{}, AllFns: map[*ssa.Function]bool{}}
	for i, sp := range spkgs {
		if sp == nil {
			return nil, fmt.Errorf("package %s has no SSA form", pkgs[i].PkgPath)
		}
		short := strings.TrimPrefix(strings.TrimPrefix(sp.Pkg.Path(), ModPath), "/")
		if short == "" {
			short = "main"
		}
		P.SPkgs[short] = sp
	}
	for fn := range ssautil.AllFunctions(prog) {
		if fn.Pkg != nil && strings.HasPrefix(fn.Pkg.Pkg.Path(), ModPath) && fn.Blocks != nil {
			P.AllFns[fn] = true
			P.NFuncs++
			P.NBlock += len(fn.Blocks)
		}
	}
	return P, nil
}

// InModule reports whether fn is a function of the analysed module with a body.
func (P *Program) InModule(fn *ssa.Function) bool {
	if fn == nil || fn.Blocks == nil {
		return false
	}
	if fn.Pkg != nil {
		return strings.HasPrefix(fn.Pkg.Pkg.Path(), ModPath)
	}
	// synthetic wrappers (bound methods, thunks) of module methods
	if o := fn.Object(); o != nil && o.Pkg() != nil {
		return strings.HasPrefix(o.Pkg().Path(), ModPath)
	}
	if fn.Parent() != nil {
		return P.InModule(fn.Parent())
	}
	if fn.Synthetic != "" && fn.Signature.Recv() == nil && len(fn.FreeVars) > 0 {
		// bound method closure: $bound
		return true
	}
	return false
}

func shortPkg(p *types.Package) string {
	if p == nil {
		return ""
	}
	s := strings.TrimPrefix(strings.TrimPrefix(p.Path(), ModPath), "/")
	if s == "" {
		return "main"
	}
	return s
}

func fnPkgShort(fn *ssa.Function) string {
	if fn == nil {
		return ""
	}
	if fn.Pkg != nil {
		return shortPkg(fn.Pkg.Pkg)
	}
	if o := fn.Object(); o != nil {
		return shortPkg(o.Pkg())
	}
	if fn.Parent() != nil {
		return fnPkgShort(fn.Parent())
	}
	return ""
}

// Func finds a function or method by short package path and name: Func("goldilocks", "(*Chip).RangeCheck") or Func("goldilocks","New").
func (P *Program) Func(pkg, name string) *ssa.Function {
	sp := P.SPkgs[pkg]
	if sp == nil {
		return nil
	}
	if strings.HasPrefix(name, "(") {
		// (*T).M or (T).M
		end := strings.Index(name, ")")
		recv := name[1:end]
		meth := name[end+2:]
		ptr := strings.HasPrefix(recv, "*")
		recv = strings.TrimPrefix(recv, "*")
		tn := sp.Type(recv)
		if tn == nil {
			return nil
		}
		var t types.Type = tn.Type()
		if ptr {
			t = types.NewPointer(t)
		}
		ms := P.Prog.MethodSets.MethodSet(t)
		sel := ms.Lookup(sp.Pkg, meth)
		if sel == nil {
			return nil
		}
		return P.Prog.MethodValue(sel)
	}
	return sp.Func(name)
}

func (P *Program) Pos(p token.Pos) string {
	if !p.IsValid() {
		return "?"
	}
	pp := P.Fset.Position(p)
	rel, err := filepath.Rel(P.Dir, pp.Filename)
	if err != nil || strings.HasPrefix(rel, "..") {
		rel = pp.Filename
	}
	return fmt.Sprintf("%s:%d", rel, pp.Line)
}

func (P *Program) FnName(fn *ssa.Function) string {
	if fn == nil {
		return "<nil>"
	}
	s := fn.String()
	s = strings.ReplaceAll(s, ModPath+"/", "")
	return s
}

// NamedType looks up a named type of the module.
func (P *Program) NamedType(pkg, name string) *types.Named {
	sp := P.SPkgs[pkg]
	if sp == nil {
		return nil
	}
	tn := sp.Type(name)
	if tn == nil {
		return nil
	}
	n, _ := tn.Type().(*types.Named)
	return n
}

// ModuleFuncsSorted returns the module's functions in a deterministic order.
func (P *Program) ModuleFuncsSorted() []*ssa.Function {
	var out []*ssa.Function
	for f := range P.AllFns {
		out = append(out, f)
	}
	sort.Slice(out, func(i, j int) bool {
		if out[i].String() != out[j].String() {
			return out[i].String() < out[j].String()
		}
		return out[i].Pos() < out[j].Pos()
	})
	return out
}

// GlobalInit returns, for a package-level variable, the constant stored by the package initialiser if that store
// is the only store to the variable in the whole module (never re-assigned); ok=false otherwise.
func (P *Program) GlobalInit(g *ssa.Global) (ssa.Value, bool) {
	var found ssa.Value
	n := 0
	for fn := range P.AllFns {
		for _, b := range fn.Blocks {
			for _, ins := range b.Instrs {
				st, ok := ins.(*ssa.Store)
				if !ok {
					continue
				}
				if st.Addr == ssa.Value(g) {
					n++
					if fn.Name() == "init" && fn.Pkg == g.Pkg {
						found = st.Val
					} else {
						return nil, false
					}
				}
			}
		}
	}
	if n != 1 || found == nil {
		return nil, false
	}
	// address taken anywhere else (passed by pointer) would allow a hidden write
	for fn := range P.AllFns {
		for _, b := range fn.Blocks {
			for _, ins := range b.Instrs {
				if _, ok := ins.(*ssa.Store); ok {
					continue
				}
				if u, ok := ins.(*ssa.UnOp); ok && u.Op == token.MUL {
					continue
				}
				for _, op := range ins.Operands(nil) {
					if op != nil && *op == ssa.Value(g) {
						return nil, false
					}
				}
			}
		}
	}
	return found, true
}
