package main

// C12/O12.4/digest-chain: the Merkle path is folded unconditionally. In the function that walks the siblings of an
// opening, the running digest of one level is the first element of the BN254 permutation applied at that level —
// nothing else — and the value that leaves the loop is compared as it is. A level that can be skipped (the digest
// kept when a prover-supplied sibling has some value, a Select / arithmetic blend between the old digest and the
// hash output, a guard derived from proof data) lets one cap entry open to several leaves at the same index, while
// every honest opening (whose siblings never hit the guard) still verifies.
//
// Decided on the SSA form: for every loop bounded by len(<x>.Siblings) that contains (directly or through a module
// helper returning it) a BN254 permutation,
//   (a) the loop header has a phi D of circuit-variable type that flows into the arguments of that permutation call
//       and starts as the result of a hashing function of package poseidon (the hash of the leaf);
//   (b) the value D receives along the back edge is exactly element 0 of the permutation's result (or the result of
//       a helper that returns exactly that and receives D);
//   (c) outside the loop D is used only as an operand of AssertIsEqual, as an operand of Sub (the flag form
//       IsZero(Sub(digest, entry))), or is returned — and then the same holds for the call results in the callers.

import (
	"fmt"
	"go/token"
	"go/types"
	"strings"

	"golang.org/x/tools/go/ssa"
)

func isBN254Perm(f *ssa.Function) bool {
	if f == nil || f.Name() != "Poseidon" || fnPkgShort(f) != "poseidon" || f.Signature.Recv() == nil {
		return false
	}
	return strings.HasSuffix(f.Signature.Recv().Type().String(), "BN254Chip")
}

// permOut0: v is element 0 of the result of a BN254 permutation call, or the result of a module helper all of whose
// returns are that; returns the call instruction that sits in the caller's code
func permOut0(v ssa.Value, depth int) (*ssa.Call, bool) {
	if depth > 2 {
		return nil, false
	}
	v = stripCopies(v)
	switch x := v.(type) {
	case *ssa.Index:
		if c, ok := constInt(x.Index); ok && c == 0 {
			if call, ok := x.X.(*ssa.Call); ok && isBN254Perm(call.Common().StaticCallee()) {
				return call, true
			}
		}
	case *ssa.UnOp:
		if x.Op != token.MUL {
			return nil, false
		}
		ia, ok := x.X.(*ssa.IndexAddr)
		if !ok {
			return nil, false
		}
		if c, ok := constInt(ia.Index); !ok || c != 0 {
			return nil, false
		}
		al, ok := ia.X.(*ssa.Alloc)
		if !ok || al.Referrers() == nil {
			return nil, false
		}
		// the array holds one value only: the result of the permutation (a single whole-array store, no element stores)
		var call *ssa.Call
		for _, r := range *al.Referrers() {
			switch u := r.(type) {
			case *ssa.Store:
				if u.Addr != ssa.Value(al) {
					return nil, false
				}
				c, ok := u.Val.(*ssa.Call)
				if !ok || !isBN254Perm(c.Common().StaticCallee()) || call != nil {
					return nil, false
				}
				call = c
			case *ssa.IndexAddr:
				if u.Referrers() != nil {
					for _, r2 := range *u.Referrers() {
						if st, ok := r2.(*ssa.Store); ok && st.Addr == ssa.Value(u) {
							return nil, false
						}
					}
				}
			case *ssa.UnOp, *ssa.DebugRef:
			default:
				return nil, false
			}
		}
		if call != nil {
			return call, true
		}
	case *ssa.Call:
		g := x.Common().StaticCallee()
		if g == nil || g.Blocks == nil {
			return nil, false
		}
		n := 0
		for _, b := range g.Blocks {
			if ret, ok := b.Instrs[len(b.Instrs)-1].(*ssa.Return); ok {
				if len(ret.Results) != 1 {
					return nil, false
				}
				if _, ok := permOut0(ret.Results[0], depth+1); !ok {
					return nil, false
				}
				n++
			}
		}
		if n > 0 {
			return x, true
		}
	}
	return nil, false
}

// flowsIntoCall: v reaches an argument of call through API calls, copies and stores into local arrays that are loaded
// for the call (forward, inside the blocks of the loop)
func flowsIntoCall(v ssa.Value, call *ssa.Call, in map[*ssa.BasicBlock]bool) bool {
	seen := map[ssa.Value]bool{}
	var walk func(x ssa.Value, d int) bool
	walk = func(x ssa.Value, d int) bool {
		if d > 12 || seen[x] || x.Referrers() == nil {
			return false
		}
		seen[x] = true
		for _, r := range *x.Referrers() {
			if r.Block() == nil || !in[r.Block()] {
				continue
			}
			switch u := r.(type) {
			case *ssa.Call:
				if u == call {
					return true
				}
				if walk(u, d+1) {
					return true
				}
			case *ssa.Store:
				if u.Val != x {
					continue
				}
				base := u.Addr
				if ia, ok := base.(*ssa.IndexAddr); ok {
					base = ia.X
				}
				if al, ok := base.(*ssa.Alloc); ok && al.Referrers() != nil {
					for _, r2 := range *al.Referrers() {
						if ld, ok := r2.(*ssa.UnOp); ok && ld.Op == token.MUL && walk(ld, d+1) {
							return true
						}
						if sl, ok := r2.(*ssa.Slice); ok && walk(sl, d+1) {
							return true
						}
					}
					for _, a := range call.Common().Args {
						if a == ssa.Value(al) {
							return true
						}
					}
				}
			case ssa.Value:
				switch u.(type) {
				case *ssa.MakeInterface, *ssa.ChangeType, *ssa.ChangeInterface, *ssa.Convert, *ssa.Phi:
					if walk(u, d+1) {
						return true
					}
				}
			}
		}
		return false
	}
	return walk(v, 0)
}

func isAPIMethod(c ssa.CallInstruction, names ...string) bool {
	cc := c.Common()
	if !cc.IsInvoke() || cc.Method == nil {
		return false
	}
	if !strings.HasSuffix(cc.Value.Type().String(), "frontend.API") {
		return false
	}
	for _, n := range names {
		if cc.Method.Name() == n {
			return true
		}
	}
	return false
}

// digestUseOK: the uses of the final digest v outside the blocks `in` are comparison operands only
func digestUsesOK(P *Program, v ssa.Value, in map[*ssa.BasicBlock]bool, depth int) (bool, string) {
	if v.Referrers() == nil {
		return false, "the folded digest is not used"
	}
	n := 0
	for _, r := range *v.Referrers() {
		if r.Block() != nil && in != nil && in[r.Block()] {
			continue
		}
		switch u := r.(type) {
		case *ssa.DebugRef:
		case *ssa.MakeInterface, *ssa.ChangeType, *ssa.ChangeInterface:
			if ok, why := digestUsesOK(P, u.(ssa.Value), in, depth); !ok {
				return false, why
			}
			n++
		case *ssa.Call:
			if isAPIMethod(u, "AssertIsEqual", "Sub") {
				n++
				continue
			}
			return false, "the folded digest is passed to " + u.Common().String() + " at " + P.Pos(u.Pos()) + " before it is compared"
		case *ssa.Return:
			if depth >= 1 {
				return false, "the folded digest is returned through more than one level"
			}
			fn := u.Parent()
			idx := -1
			for i, res := range u.Results {
				if res == v {
					idx = i
				}
			}
			calls := 0
			for _, caller := range P.ModuleFuncsSorted() {
				for _, b := range caller.Blocks {
					for _, ins := range b.Instrs {
						c, ok := ins.(*ssa.Call)
						if !ok || c.Common().StaticCallee() != fn {
							continue
						}
						calls++
						var res ssa.Value = c
						if len(u.Results) > 1 {
							res = nil
							if c.Referrers() != nil {
								for _, r2 := range *c.Referrers() {
									if ex, ok := r2.(*ssa.Extract); ok && ex.Index == idx {
										res = ex
									}
								}
							}
						}
						if res == nil {
							return false, "the returned digest is dropped at " + P.Pos(c.Pos())
						}
						if ok, why := digestUsesOK(P, res, nil, depth+1); !ok {
							return false, why
						}
					}
				}
			}
			if calls == 0 {
				return false, "the function returning the digest has no caller"
			}
			n++
		default:
			return false, fmt.Sprintf("the folded digest flows into %T at %s before it is compared", r, P.Pos(r.Pos()))
		}
	}
	if n == 0 {
		return false, "the folded digest is never compared"
	}
	return true, ""
}

// isLeafHash: v is the result of a hashing function of package poseidon applied to a list of field elements, or of a
// module helper whose single return is that
func isLeafHash(P *Program, v ssa.Value, depth int) bool {
	c, ok := stripCopies(v).(*ssa.Call)
	if !ok {
		return false
	}
	g := c.Common().StaticCallee()
	if g == nil || !P.InModule(g) {
		return false
	}
	if fnPkgShort(g) == "poseidon" {
		for _, a := range c.Common().Args {
			if sl, ok := a.Type().Underlying().(*types.Slice); ok && typeIs(sl.Elem(), "goldilocks.Variable") {
				return true
			}
		}
		return false
	}
	if depth >= 1 || g.Blocks == nil {
		return false
	}
	n := 0
	for _, b := range g.Blocks {
		if ret, ok := b.Instrs[len(b.Instrs)-1].(*ssa.Return); ok {
			if len(ret.Results) != 1 || !isLeafHash(P, ret.Results[0], depth+1) {
				return false
			}
			n++
		}
	}
	return n > 0
}

func ruleMerkleDigestChain(cx *Ctx) []Obligation {
	P := cx.P
	key := "C12/O12.4/digest-chain"
	desc := "the Merkle path is folded unconditionally: in the loop over an opening's Siblings the running digest of the next level is exactly element 0 of the BN254 permutation applied at this level (no Select, blend or guard between them — a level that can be skipped on a prover-chosen condition lets one cap entry open to several leaves), the digest feeds that permutation, and after the loop it is compared as it is"
	var obs []Obligation
	found := 0
	for _, fn := range P.ModuleFuncsSorted() {
		if fn.Blocks == nil {
			continue
		}
		fi := GetFnInfo(fn)
		for _, l := range fi.Loops {
			if !l.Counted || l.Bound == nil {
				continue
			}
			lx, ok := lenOfVal(l.Bound)
			if !ok {
				continue
			}
			if _, isSib := fieldLoad(stripCopies(lx), "Siblings"); !isSib {
				continue
			}
			site := P.FnName(fn) + " " + P.Pos(loopPos(l))
			// candidate digests: circuit-variable phis of the header other than the counter
			type cand struct {
				phi  *ssa.Phi
				call *ssa.Call
				why  string
			}
			var perms []*ssa.Call
			for _, b := range fn.Blocks {
				if !l.Blocks[b] {
					continue
				}
				for _, ins := range b.Instrs {
					if c, ok := ins.(*ssa.Call); ok {
						if isBN254Perm(c.Common().StaticCallee()) {
							perms = append(perms, c)
						} else if _, ok := permOut0(c, 0); ok {
							perms = append(perms, c)
						}
					}
				}
			}
			if len(perms) == 0 {
				continue // a loop over siblings that does not hash (e.g. a range check or a copy)
			}
			var cands []cand
			for _, ins := range l.Header.Instrs {
				phi, ok := ins.(*ssa.Phi)
				if !ok {
					break
				}
				if phi == l.Phi {
					continue
				}
				if _, isIface := phi.Type().Underlying().(*types.Interface); !isIface {
					continue
				}
				feeds := false
				for _, pc := range perms {
					if flowsIntoCall(phi, pc, l.Blocks) {
						feeds = true
					}
				}
				if !feeds {
					continue // some other accumulator
				}
				var back ssa.Value
				multi := false
				for i, p := range l.Header.Preds {
					if l.Blocks[p] {
						if back != nil && back != phi.Edges[i] {
							multi = true
						}
						back = phi.Edges[i]
					}
				}
				c := cand{phi: phi}
				// the value the chain starts with: the hash of the leaf, as returned by the hashing function
				var initV ssa.Value
				for i, p := range l.Header.Preds {
					if !l.Blocks[p] {
						initV = phi.Edges[i]
					}
				}
				switch {
				case initV == nil || !isLeafHash(P, initV, 0):
					c.why = "the chain does not start with the hash of the leaf as returned by the poseidon package: " + initV.String()
				case multi || back == nil:
					c.why = "the running digest has several back-edge values (a conditional update)"
				default:
					call, ok := permOut0(back, 0)
					if !ok || !l.Blocks[call.Block()] {
						c.why = "the value carried to the next level is " + back.String() + " (" + back.Name() + "), not element 0 of the permutation output of this level"
					} else {
						c.call = call
					}
				}
				cands = append(cands, c)
			}
			found++
			var good1 *cand
			var whys []string
			for i := range cands {
				c := &cands[i]
				if c.why != "" {
					whys = append(whys, c.why)
					continue
				}
				if !flowsIntoCall(c.phi, c.call, l.Blocks) {
					whys = append(whys, "the running digest does not feed the permutation of the level")
					continue
				}
				if !mustInLoop(fi, l, c.call.Block()) {
					whys = append(whys, "the permutation of a level is conditional")
					continue
				}
				if ok, why := digestUsesOK(P, c.phi, l.Blocks, 0); !ok {
					whys = append(whys, why)
					continue
				}
				good1 = c
			}
			switch {
			case len(whys) > 0:
				obs = append(obs, bad(key, desc, strings.Join(whys, " | "), site))
			case good1 == nil:
				obs = append(obs, undecided(key, desc, "no running digest (loop-carried circuit variable) found in the sibling loop at "+site))
			default:
				obs = append(obs, good(key, desc, site))
			}
		}
	}
	if found == 0 {
		obs = append(obs, undecided(key, desc, "no loop over an opening's Siblings applying the BN254 permutation was found"))
	}
	return obs
}

// mustInLoop: block b executes in every iteration of loop l (it dominates every latch)
func mustInLoop(fi *FnInfo, l *SLoop, b *ssa.BasicBlock) bool {
	if !l.Blocks[b] {
		return false
	}
	for _, lt := range l.Latches {
		if b != lt && !b.Dominates(lt) {
			return false
		}
	}
	return true
}

// ruleCommitTreeIndexCursor (C12/O12.5): the leaf index handed to the commit-phase tree of reduction step i is the
// query index with the bits of all earlier steps AND of this step folded away — a cursor that accumulates over the
// steps. A cursor that is overwritten instead of advanced (`folded = arityBits` for `folded += arityBits`) is right
// for the first two steps — all the shipped proof has — and opens every later tree at the position of the second.
//
// Decided on the SSA form of the function that calls the Merkle routine from inside the loop over the reduction
// arities. The argument bound to the routine's leaf-index parameter (the bit list the sibling loop indexes) is
//
//	(i)  xs[a:] of a header φ xs whose back-edge value is that same slice (the bit list itself is the cursor), or
//	(ii) bits[E:] of a loop-invariant list, where E = c + a for a header φ c that starts at 0 and whose back-edge
//	     value is, as a polynomial over SSA leaves, that same E (c advances by exactly what this step consumes).
func ruleCommitTreeIndexCursor(cx *Ctx) []Obligation {
	P := cx.P
	key := "C12/O12.5/commit-tree-index-cursor"
	desc := "the leaf index of the commit-phase tree of reduction step i is the query index without the bits of steps 0…i: the cursor over the index bits accumulates from step to step (it is the re-sliced bit list itself, or a counter that advances by exactly the bits this step consumes) — a cursor that is overwritten is right for the first two steps only"
	// the Merkle routine and its leaf-index parameter
	type merkle struct {
		fn  *ssa.Function
		idx int
	}
	var ms []merkle
	for _, fn := range P.ModuleFuncsSorted() {
		if fn.Blocks == nil {
			continue
		}
		fi := GetFnInfo(fn)
		for _, l := range fi.Loops {
			if !l.Counted || l.Bound == nil {
				continue
			}
			lx, ok := lenOfVal(l.Bound)
			if !ok {
				continue
			}
			if _, isSib := fieldLoad(stripCopies(lx), "Siblings"); !isSib {
				continue
			}
			for b := range l.Blocks {
				for _, ins := range b.Instrs {
					ia, ok := ins.(*ssa.IndexAddr)
					if !ok || ia.Index != l.IndexVal {
						continue
					}
					if p, ok := ia.X.(*ssa.Parameter); ok {
						if st, ok := p.Type().Underlying().(*types.Slice); ok && strings.HasSuffix(st.Elem().String(), "frontend.Variable") {
							ms = append(ms, merkle{fn, paramIndex(fn, p)})
						}
					}
				}
			}
		}
	}
	if len(ms) == 0 {
		return []Obligation{undecided(key, desc, "the Merkle routine's leaf-index parameter (a bit list indexed by the sibling loop) was not found")}
	}
	// wrappers that pass their own parameter on as the leaf index (an asserting wrapper around a flag-returning core)
	for round := 0; round < 3; round++ {
		for _, w := range P.ModuleFuncsSorted() {
			for _, b := range w.Blocks {
				for _, ins := range b.Instrs {
					c, ok := ins.(*ssa.Call)
					if !ok {
						continue
					}
					for _, m := range ms {
						if c.Common().StaticCallee() != m.fn || m.idx >= len(c.Common().Args) {
							continue
						}
						if p, ok := stripCopies(c.Common().Args[m.idx]).(*ssa.Parameter); ok {
							known := false
							for _, k := range ms {
								if k.fn == w {
									known = true
								}
							}
							if !known {
								ms = append(ms, merkle{w, paramIndex(w, p)})
							}
						}
					}
				}
			}
		}
	}
	var obs []Obligation
	found := 0
	for _, caller := range P.ModuleFuncsSorted() {
		if caller.Blocks == nil {
			continue
		}
		fi := GetFnInfo(caller)
		for _, b := range caller.Blocks {
			for _, ins := range b.Instrs {
				c, ok := ins.(*ssa.Call)
				if !ok {
					continue
				}
				var m *merkle
				for i := range ms {
					if c.Common().StaticCallee() == ms[i].fn {
						m = &ms[i]
					}
				}
				if m == nil || m.idx >= len(c.Common().Args) {
					continue
				}
				// only calls made per reduction step
				var step *SLoop
				for _, l := range fi.LoopsOf[b.Index] {
					if l.Bound != nil && strings.HasSuffix(accessPath(stripCopies(func() ssa.Value {
						if lv, ok := lenOfVal(l.Bound); ok {
							return lv
						}
						return l.Bound
					}()), 0), ".ReductionArityBits") {
						step = l
					}
				}
				if step == nil {
					continue
				}
				found++
				site := P.FnName(caller) + " " + P.Pos(c.Pos())
				lb, ok := stripCopies(c.Common().Args[m.idx]).(*ssa.Slice)
				if !ok || lb.Low == nil {
					obs = append(obs, undecided(key, desc, "the leaf index bits handed to the commit-phase tree are not a suffix bits[k:] of a bit list at "+site))
					continue
				}
				headerPhi := func(v ssa.Value) *ssa.Phi {
					phi, ok := v.(*ssa.Phi)
					if ok && phi.Block() == step.Header {
						return phi
					}
					return nil
				}
				backOf := func(phi *ssa.Phi) (init, back ssa.Value) {
					for i, p := range step.Header.Preds {
						if step.Blocks[p] {
							back = phi.Edges[i]
						} else {
							init = phi.Edges[i]
						}
					}
					return
				}
				good1, why := false, ""
				if xs := headerPhi(lb.X); xs != nil {
					// (i) the bit list is the cursor
					_, back := backOf(xs)
					bs, isSl := stripCopies(back).(*ssa.Slice)
					switch {
					case back == ssa.Value(lb):
						good1 = true
					case isSl && bs.X == ssa.Value(xs) && bs.High == nil && ipolyEq(poly(bs.Low), poly(lb.Low)):
						good1 = true
					default:
						why = "the bit list carried to the next step is not the list handed to this step's tree (the bits this step consumes are not dropped for the next one)"
					}
				} else if !step.Blocks[blockOf(lb.X)] {
					// (ii) a counter over a loop-invariant bit list
					pe := poly(lb.Low)
					var cphi *ssa.Phi
					for _, hi := range step.Header.Instrs {
						phi, ok := hi.(*ssa.Phi)
						if !ok {
							break
						}
						if _, has := pe[phi.Name()]; has && phi != step.Phi {
							cphi = phi
						}
					}
					if cphi == nil {
						why = "the start of the suffix does not depend on a cursor carried from step to step"
					} else {
						init, back := backOf(cphi)
						i0, isC := constInt(init)
						switch {
						case !isC || i0 != 0:
							why = "the cursor does not start at 0"
						case pe[cphi.Name()] != 1:
							why = "the suffix does not start at cursor + this step's bits"
						case !ipolyEq(poly(back), pe):
							why = "the cursor carried to the next step (" + back.String() + ") is not the position this step's tree was opened at: it does not accumulate the bits consumed so far"
						default:
							good1 = true
						}
					}
				} else {
					why = "the bit list is neither carried from step to step nor fixed for the round"
				}
				if good1 {
					obs = append(obs, good(key, desc, site))
				} else {
					obs = append(obs, bad(key, desc, why, site))
				}
			}
		}
	}
	if found == 0 {
		obs = append(obs, undecided(key, desc, "no call of the Merkle routine inside a loop over the reduction arities was found"))
	}
	return obs
}

func blockOf(v ssa.Value) *ssa.BasicBlock {
	if ins, ok := v.(ssa.Instruction); ok {
		return ins.Block()
	}
	return nil
}
