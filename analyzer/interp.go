package main

// E2 core — abstract interpreter over go/ssa computing, from an entry function with symbolic
// arguments, (1) for every circuit value its origins (access paths into the entry's arguments, hint
// outputs, primitive results) and may-dependencies, and (2) the list of constraint-emitting
// applications ("records") reachable from the entry together with whether each one executes on
// every non-refusing path, once per iteration of every enclosing loop.
//
// It is a dataflow analysis: no branch is decided, no value is computed except compile-time
// constants, both arms of every conditional are visited and joined.

import (
	"fmt"
	"go/constant"
	"go/token"
	"go/types"
	"os"
	"regexp"
	"runtime/debug"
	"sort"
	"strings"

	"golang.org/x/tools/go/ssa"
)

type LoopDesc struct {
	ID    int
	S     *SLoop
	Bound *Val
	Start *Val
	FnPos string
}

type CallStep struct {
	Site   token.Pos
	Callee *ssa.Function
}

type Rec struct {
	Kind   string // eq, neq, bool, leq, range, canon, tobin, guard, hint, call, store, defer
	Site   token.Pos
	Fn     *ssa.Function
	Args   []*Val
	Width  *Val
	Callee *ssa.Function // for call / defer
	HintFn *ssa.Function
	HintN  int
	Neg    bool // guard: the surviving branch is the negation of Args[0]
	Must   bool
	Loops  []int
	Chain  []CallStep
	Ret    *Val    // for call records: the callee's result
	sub    *Result // internal: call node
	subMay bool
}

type Result struct {
	Ret   *Val
	Recs  []*Rec
	Fn    *ssa.Function
	Layer bool
}

type activation struct {
	fn    *ssa.Function
	fi    *FnInfo
	env   map[ssa.Value]*Val
	cells map[ssa.Value]*Cell
	loops map[*SLoop]int
	recs  []*Rec
	ret   *Val
	id    int
}

type Interp struct {
	P             *Program
	Atoms         AtomTable
	memo          map[string]*Result
	stack         map[*ssa.Function]int
	nextCell      int
	nextAct       int
	Loops         map[int]*LoopDesc
	changed       bool
	Layer         map[string]bool
	CanonFn       *ssa.Function
	RangePrm      map[*ssa.Function]bool
	Opaque        map[*ssa.Function]bool
	pathSt        map[string]*Val
	globK         map[*ssa.Global]*Val
	Notes         []string
	Steps         int
	MaxSteps      int
	hintIDs       map[string]int
	inLayer       int // >0 while evaluating inside the gadget layer entered from outside
	Calls         int
	ifaceImp      map[string][]*ssa.Function
	frames        []*frame
	fpVisit       map[*Cell]bool
	initRuns      map[*ssa.Package]map[string]*Val
	noInitEval    bool
	Recur         map[token.Pos]*Val // loop accumulator (by phi position) → its step expression
	PathSensitive map[string]bool
	TagFns        map[*ssa.Function]string // results of these functions are marked with their static call path
	pathStack     []token.Pos
	loopKeys      map[string]int
	FnCalls       map[*ssa.Function]int
	FnEvals       map[*ssa.Function]int
	// OpaquePure: when evaluating from outside the gadget layer, calls into layer functions that are pure
	// arithmetic (no constraint applied directly to an argument, result not a copy/selection of an argument,
	// no store through an argument) are summarised as "depends on all arguments" instead of being descended.
	OpaquePure bool
	pureCache  map[*ssa.Function]int
	pureMode   bool
	gadget     *Interp
}

var debugFn = os.Getenv("GLCHECK_DEBUGFN")

type frame struct {
	mark    int
	changed bool
}

func (in *Interp) markChanged(cellID int) {
	for _, f := range in.frames {
		if cellID <= f.mark {
			f.changed = true
		}
	}
	if debugFn != "" {
		fmt.Printf("DEBUG cell c%d changed (frames %d)\n", cellID, len(in.frames))
	}
}

func NewInterp(P *Program) *Interp {
	debug.SetGCPercent(800)
	in := &Interp{P: P, memo: map[string]*Result{}, stack: map[*ssa.Function]int{}, Loops: map[int]*LoopDesc{},
		Layer: map[string]bool{"goldilocks": true, "poseidon": true}, RangePrm: map[*ssa.Function]bool{}, Opaque: map[*ssa.Function]bool{},
		pureCache: map[*ssa.Function]int{}, loopKeys: map[string]int{}, pathSt: map[string]*Val{}, globK: map[*ssa.Global]*Val{}, MaxSteps: 60_000_000, hintIDs: map[string]int{}, ifaceImp: map[string][]*ssa.Function{}}
	in.CanonFn = P.Func("goldilocks", "(*Chip).RangeCheck")
	in.PathSensitive = map[string]bool{"challenger": true}
	in.TagFns = map[*ssa.Function]string{}
	if f := P.Func("challenger", "(*Chip).GetChallenge"); f != nil {
		in.TagFns[f] = "sq"
	}
	for fn := range P.AllFns {
		if isRangePrimShape(fn) {
			in.RangePrm[fn] = true
		}
	}
	return in
}

// isRangePrimShape: a method of goldilocks.Chip with parameters (frontend.Variable, int), no results, that reads
// Chip.rangeCheckerType — the backend dispatcher of n-bit range checks. Its body is what rule C06/O6.1 checks.
func isRangePrimShape(fn *ssa.Function) bool {
	if fnPkgShort(fn) != "goldilocks" || fn.Signature.Recv() == nil || fn.Signature.Results().Len() != 0 || fn.Signature.Params().Len() != 2 {
		return false
	}
	if !strings.HasSuffix(fn.Signature.Params().At(0).Type().String(), "frontend.Variable") {
		return false
	}
	if b, ok := fn.Signature.Params().At(1).Type().Underlying().(*types.Basic); !ok || b.Kind() != types.Int {
		return false
	}
	for _, b := range fn.Blocks {
		for _, ins := range b.Instrs {
			if fa, ok := ins.(*ssa.FieldAddr); ok {
				if fieldName(fa.X.Type(), fa.Field) == "rangeCheckerType" {
					return true
				}
			}
		}
	}
	return false
}

func fieldName(t types.Type, i int) string {
	if p, ok := t.Underlying().(*types.Pointer); ok {
		t = p.Elem()
	}
	if s, ok := t.Underlying().(*types.Struct); ok && i < s.NumFields() {
		return s.Field(i).Name()
	}
	return fmt.Sprintf("f%d", i)
}

// ---------------------------------------------------------------- entry

// Run evaluates entry with symbolic arguments named R (receiver) and by parameter name.
func (in *Interp) Run(entry *ssa.Function) *Result {
	var args []*Val
	for i, p := range entry.Params {
		name := p.Name()
		if i == 0 && entry.Signature.Recv() != nil {
			name = "R"
		}
		args = append(args, &Val{Dir: []string{name}})
	}
	return in.RunWith(entry, args)
}

func (in *Interp) RunWith(entry *ssa.Function, args []*Val) *Result {
	if in.Layer[fnPkgShort(entry)] {
		in.inLayer++
		defer func() { in.inLayer-- }()
	}
	res := in.callFn(entry, args)
	return res
}

// Flatten expands call nodes into one record per static call path, pruning at the gadget-layer boundary.
func (in *Interp) Flatten(res *Result) []*Rec {
	var out []*Rec
	var walk func(r *Result, chain []CallStep, must bool, loops []int, inLayer bool)
	walk = func(r *Result, chain []CallStep, must bool, loops []int, inLayer bool) {
		for _, rec := range r.Recs {
			m := must && rec.Must && !rec.subMay
			lp := append(append([]int{}, loops...), rec.Loops...)
			if rec.sub != nil {
				ch := append(append([]CallStep{}, chain...), CallStep{rec.Site, rec.sub.Fn})
				cross := !inLayer && rec.sub.Layer
				// the call itself is a record (T4 MUST-CALL), except below a crossing into the gadget layer
				if !inLayer || res.Layer {
					c := *rec
					c.Ret = rec.sub.Ret
					c.sub = nil
					c.Must, c.Loops, c.Chain = m, lp, chain
					out = append(out, &c)
				}
				if cross {
					var sub []*Rec
					mark := len(out)
					walk(rec.sub, ch, m, lp, true)
					sub = append(sub, out[mark:]...)
					out = out[:mark]
					for _, s := range sub {
						if keepAcrossLayer(s) {
							out = append(out, s)
						}
					}
				} else {
					walk(rec.sub, ch, m, lp, inLayer)
				}
				continue
			}
			c := *rec
			c.Must, c.Loops, c.Chain = m, lp, chain
			out = append(out, &c)
		}
	}
	walk(res, nil, true, nil, res.Layer)
	return out
}

// keepAcrossLayer: a constraint emitted inside the arithmetic gadget layer is visible to the verifier layer
// only if it is applied directly to (a component or selection of) a value the caller passed in.
func keepAcrossLayer(r *Rec) bool {
	switch r.Kind {
	case "eq", "neq", "bool", "leq", "range", "canon", "tobin":
	default:
		return false
	}
	n := 0
	for _, a := range r.Args {
		if a == nil {
			return false
		}
		if a.K != nil && len(a.Dir) == 0 {
			continue // constant operand
		}
		if len(a.Bnd()) == 0 {
			return false
		}
		n++
	}
	return n > 0
}

// ---------------------------------------------------------------- calls

func (in *Interp) memoKey(fn *ssa.Function, args []*Val) string {
	var sb strings.Builder
	fmt.Fprintf(&sb, "%p", fn)
	if in.PathSensitive[fnPkgShort(fn)] {
		// transcript functions: one activation per static call path (their results are tagged by that path)
		for _, p := range in.pathStack {
			fmt.Fprintf(&sb, "/%d", p)
		}
	}
	for _, a := range args {
		fmt.Fprintf(&sb, ":%x", in.FP(a))
	}
	return sb.String()
}

func (in *Interp) callFn(fn *ssa.Function, args []*Val) *Result {
	in.Calls++
	if in.FnCalls != nil {
		in.FnCalls[fn]++
	}
	key := in.memoKey(fn, args)
	if r, ok := in.memo[key]; ok {
		return r
	}
	if in.stack[fn] > 0 {
		in.note("recursion at %s: result over-approximated", in.P.FnName(fn))
		return &Result{Ret: in.blob("rec:"+fn.Name(), args), Fn: fn, Layer: in.Layer[fnPkgShort(fn)]}
	}
	in.stack[fn]++
	defer func() { in.stack[fn]-- }()

	fi := GetFnInfo(fn)
	in.nextAct++
	if in.FnEvals != nil {
		in.FnEvals[fn]++
	}
	act := &activation{fn: fn, fi: fi, env: map[ssa.Value]*Val{}, cells: map[ssa.Value]*Cell{}, loops: map[*SLoop]int{}, id: in.nextAct}
	for i, p := range fn.Params {
		if i < len(args) {
			act.env[p] = args[i]
		}
	}
	in.runBody(act)
	if len(in.frames) > 0 { // the entry's own result keeps its load markers (rules inspect them)
		act.ret = stripFrom(act.ret, 0)
	}
	res := &Result{Ret: act.ret, Recs: act.recs, Fn: fn, Layer: in.Layer[fnPkgShort(fn)]}
	in.memo[key] = res
	return res
}

func (in *Interp) runBody(act *activation) {
	order := act.fn.DomPreorder()
	fr := &frame{}
	in.frames = append(in.frames, fr)
	defer func() { in.frames = in.frames[:len(in.frames)-1] }()
	const maxIter = 12
	for iter := 0; iter < maxIter; iter++ {
		fr.mark = in.nextCell
		fr.changed = false
		act.recs = nil
		act.ret = nil
		for _, b := range order {
			in.block(act, b)
		}
		if !fr.changed {
			break
		}
		if iter == maxIter-1 {
			in.note("fixpoint not reached in %s", in.P.FnName(act.fn))
		}
	}
}

func (in *Interp) note(f string, a ...interface{}) {
	s := fmt.Sprintf(f, a...)
	for _, n := range in.Notes {
		if n == s {
			return
		}
	}
	in.Notes = append(in.Notes, s)
}

func (in *Interp) tag(name string) int { return in.Atoms.ID("via:" + name) }

// blob: result of an unmodelled computation: depends on everything passed in.
func (in *Interp) blob(name string, args []*Val) *Val {
	r := &Val{Mixed: true}
	for _, a := range args {
		r.Deps = r.Deps.Or(in.AllDeps(a))
	}
	if name != "" {
		r.Deps = r.Deps.With(in.tag(name))
	}
	return r
}

// ---------------------------------------------------------------- blocks and instructions

func (in *Interp) loopIDs(act *activation, b *ssa.BasicBlock) []int {
	var ids []int
	for _, sl := range act.fi.LoopsOf[b.Index] {
		ids = append(ids, in.loopID(act, sl))
	}
	return ids
}

func (in *Interp) loopID(act *activation, sl *SLoop) int {
	if id, ok := act.loops[sl]; ok {
		// refresh bound (it may have been bottom on the first visit)
		ld := in.Loops[id]
		if sl.Bound != nil {
			if b := in.val(act, sl.Bound); b != nil {
				ld.Bound = b
			}
		}
		if sl.StartVal != nil {
			if s := in.val(act, sl.StartVal); s != nil {
				ld.Start = s
			}
		}
		return id
	}
	// loop identity: the static call path from the entry plus the loop header — stable across re-evaluations
	var kb strings.Builder
	for _, p := range in.pathStack {
		fmt.Fprintf(&kb, "%d/", p)
	}
	fmt.Fprintf(&kb, "%p", sl)
	key := kb.String()
	if id, ok := in.loopKeys[key]; ok {
		act.loops[sl] = id
		ld := in.Loops[id]
		if sl.Bound != nil {
			if b := in.val(act, sl.Bound); b != nil {
				ld.Bound = b
			}
		}
		if sl.StartVal != nil {
			if s := in.val(act, sl.StartVal); s != nil {
				ld.Start = s
			}
		}
		return id
	}
	id := len(in.Loops) + 1
	in.loopKeys[key] = id
	ld := &LoopDesc{ID: id, S: sl, FnPos: in.P.FnName(act.fn) + "@" + in.P.Pos(loopPos(sl))}
	if sl.Bound != nil {
		ld.Bound = in.val(act, sl.Bound)
	}
	if sl.StartVal != nil {
		ld.Start = in.val(act, sl.StartVal)
	}
	in.Loops[id] = ld
	act.loops[sl] = id
	return id
}

func loopPos(sl *SLoop) token.Pos {
	for _, ins := range sl.Header.Instrs {
		if ins.Pos().IsValid() {
			return ins.Pos()
		}
	}
	for b := range sl.Blocks {
		for _, ins := range b.Instrs {
			if ins.Pos().IsValid() {
				return ins.Pos()
			}
		}
	}
	return token.NoPos
}

func (in *Interp) emit(act *activation, b *ssa.BasicBlock, r *Rec) {
	r.Fn = act.fn
	r.Must = act.fi.MustBlock(b)
	r.Loops = in.loopIDs(act, b)
	act.recs = append(act.recs, r)
}

func (in *Interp) set(act *activation, v ssa.Value, x *Val) {
	if x == nil {
		return
	}
	old := act.env[v]
	if _, isPhi := v.(*ssa.Phi); isPhi {
		if old == nil || in.FP(old) != in.FP(x) {
			in.frames[len(in.frames)-1].changed = true
			if debugFn != "" && strings.Contains(act.fn.String(), debugFn) {
				fmt.Printf("DEBUG %s phi %s changed:\n old:\n%s new:\n%s", act.fn.Name(), v.Name(), in.Dump(old, "   ", 6), in.Dump(x, "   ", 6))
			}
		}
	}
	act.env[v] = x
}

func (in *Interp) constVal(c *ssa.Const) *Val {
	v := &Val{}
	if c.Value != nil {
		v.K = c.Value
		if c.Value.Kind() == constant.Int {
			v.Sym = c.Value.ExactString()
		}
	} else {
		v.K = constant.MakeBool(false) // nil / zero aggregate: represent as a known constant
		v.Sym = "nil"
	}
	return v
}

func (in *Interp) val(act *activation, v ssa.Value) *Val {
	switch x := v.(type) {
	case nil:
		return nil
	case *ssa.Const:
		return in.constVal(x)
	case *ssa.Global:
		return &Val{Dir: []string{"G:" + shortPkg(x.Pkg.Pkg) + "." + x.Name()}}
	case *ssa.Function:
		return &Val{Fn: x}
	case *ssa.Builtin:
		return &Val{}
	}
	if r, ok := act.env[v]; ok {
		if sl, ok := act.fi.IvOf[v]; ok {
			// induction value: carries its loop identity
			id := in.loopID(act, sl)
			c := Val{Sym: fmt.Sprintf("iv%d", id)}
			if r != nil {
				c.Deps = r.Deps
			}
			return &c
		}
		return r
	}
	return nil
}

func (in *Interp) block(act *activation, b *ssa.BasicBlock) {
	for _, ins := range b.Instrs {
		in.Steps++
		if in.Steps > in.MaxSteps {
			panic("glcheck: interpretation budget exceeded")
		}
		in.instr(act, b, ins)
	}
}

func symOf(v *Val) string {
	if v == nil {
		return ""
	}
	if v.K != nil && v.K.Kind() == constant.Int {
		return v.K.ExactString()
	}
	return v.Sym
}

func (in *Interp) idxSel(idx *Val) string {
	if idx == nil {
		return "[?]"
	}
	if idx.K != nil && idx.K.Kind() == constant.Int {
		return "[" + idx.K.ExactString() + "]"
	}
	if strings.HasPrefix(idx.Sym, "iv") && !strings.ContainsAny(idx.Sym, "(,") {
		return "[" + idx.Sym + "]"
	}
	// an index computed from loop variables and constants only (j*4+i): kept as an expression selector, so that a
	// flat index can be related to the windows it walks through
	if affineSym.MatchString(idx.Sym) && strings.Contains(idx.Sym, "iv") {
		return "[e:" + idx.Sym + "]"
	}
	return "[?]"
}

var affineSym = regexp.MustCompile(`^[-+*/(),0-9iv]+$`)

func (in *Interp) load(ptr *Val) *Val {
	if ptr == nil {
		return nil
	}
	var r *Val
	if ptr.Cell != nil {
		r = in.cellRead(ptr.Cell, ptr.CSel)
	}
	if len(ptr.Dir) > 0 {
		d := &Val{Dir: ptr.Dir, Mixed: ptr.Mixed, bnd: ptr.bnd}
		for _, p := range ptr.Dir {
			if len(in.pathSt) > 0 {
				d = in.Join(d, in.pathLoad(genPath(p)))
			}
			if strings.HasPrefix(p, "G:") {
				if k := in.globalConst(p); k != nil {
					d.K = k.K
					d.Sym = k.Sym
				}
			}
		}
		r = in.Join(r, d)
	}
	if r == nil {
		r = &Val{Mixed: true, Deps: ptr.Deps}
	}
	return r
}

// pathLoad returns what was stored (through pointers rooted in the entry's arguments or globals) at a
// generalised access path: stores to the path itself, to a prefix of it (narrowed), or to a component of it.
func (in *Interp) pathLoad(g string) *Val {
	var r *Val
	sels := splitSel(g)
	// exact and prefixes
	acc := ""
	for i := 0; i <= len(sels); i++ {
		if i > 0 {
			acc += sels[i-1]
		}
		st, ok := in.pathSt[acc]
		if !ok {
			continue
		}
		v := st
		for _, s := range sels[i:] {
			if s == "[*]" {
				s = "[?]"
			}
			v = in.Narrow(v, s)
		}
		if v != nil {
			c := *v
			c.fpOK = false
			c.Dir = nil // the stored value's own paths stay (they are in c.Dir of the stored value) …
			c.Dir = v.Dir
			r = in.Join(r, &c)
		}
	}
	// components stored separately
	for k, st := range in.pathSt {
		if len(k) > len(g) && strings.HasPrefix(k, g) && (k[len(g)] == '.' || k[len(g)] == '[') {
			r = in.Join(r, &Val{Mixed: true, Deps: in.AllDeps(st)})
		}
	}
	return r
}

func (in *Interp) globalConst(path string) *Val {
	name := strings.TrimPrefix(path, "G:")
	dot := strings.LastIndex(name, ".")
	sp := in.P.SPkgs[name[:dot]]
	if sp == nil {
		return nil
	}
	g, _ := sp.Members[name[dot+1:]].(*ssa.Global)
	if g == nil {
		return nil
	}
	if v, ok := in.globK[g]; ok {
		return v
	}
	var out *Val
	if init, ok := in.P.GlobalInit(g); ok {
		if c, ok := init.(*ssa.Const); ok && c.Value != nil {
			out = in.constVal(c)
		}
		// trusted table entry: emulated.Goldilocks{}.Modulus() is the Goldilocks prime
		if call, ok := init.(*ssa.Call); ok {
			if f := call.Common().StaticCallee(); f != nil && strings.HasSuffix(f.String(), "Goldilocks).Modulus") && strings.Contains(f.String(), "gnark/std/math/emulated") {
				out = &Val{K: goldilocksP, Sym: goldilocksP.ExactString()}
			}
		}
	}
	if out == nil {
		if _, ok := in.P.GlobalInit(g); ok {
			if in.noInitEval {
				// inside the evaluation of the initialiser itself: the (single) store seen so far is the value
				if st := in.pathSt[path]; st != nil && st.K != nil {
					return &Val{K: st.K, Sym: st.Sym}
				}
				return nil
			}
			// never re-assigned, initialised by an expression: evaluate the package initialiser once
			out = in.initValue(g)
		}
	}
	in.globK[g] = out
	return out
}

// initValue evaluates the package initialiser (constant folding of the big.Int / arithmetic builders it uses)
// and returns the constant stored to g, if it is one.
func (in *Interp) initValue(g *ssa.Global) *Val {
	if in.initRuns == nil {
		in.initRuns = map[*ssa.Package]map[string]*Val{}
	}
	vals, done := in.initRuns[g.Pkg]
	if !done {
		vals = map[string]*Val{}
		in.initRuns[g.Pkg] = vals
		initFn := g.Pkg.Func("init")
		if initFn != nil && !in.noInitEval {
			sub := NewInterp(in.P)
			sub.noInitEval = true
			sub.MaxSteps = 3_000_000
			func() {
				defer func() { recover() }()
				// only the initialiser's own straight-line code: calls into other packages' init are external/no-ops
				sub.callFn(initFn, nil)
			}()
			for k, v := range sub.pathSt {
				if v != nil && v.K != nil && strings.HasPrefix(k, "G:") {
					vals[k] = &Val{K: v.K, Sym: v.Sym}
				}
			}
		}
	}
	return vals["G:"+shortPkg(g.Pkg.Pkg)+"."+g.Name()]
}

func (in *Interp) store(act *activation, b *ssa.BasicBlock, site token.Pos, ptr *Val, x *Val) {
	if ptr == nil || x == nil {
		return
	}
	if ptr.Cell != nil {
		in.cellWrite(ptr.Cell, ptr.CSel, x)
	}
	for _, p := range ptr.Dir {
		g := genPath(p)
		old := in.pathSt[g]
		nw := in.Join(old, x)
		if in.FP(nw) != in.FP(old) {
			in.pathSt[g] = nw
			in.markChanged(0)
		}
		in.emit(act, b, &Rec{Kind: "store", Site: site, Args: []*Val{{Dir: []string{p}}, x}})
	}
}

func (in *Interp) newCell(act *activation, v ssa.Value, name string, pos token.Pos) *Cell {
	if c, ok := act.cells[v]; ok {
		return c
	}
	in.nextCell++
	c := &Cell{ID: in.nextCell, Name: name, Site: pos, Tag: "c:" + act.fn.Name() + "." + v.Name()}
	if al, ok := v.(*ssa.Alloc); ok {
		if pt, ok := al.Type().Underlying().(*types.Pointer); ok {
			if n, ok := pt.Elem().(*types.Named); ok && n.Obj().Pkg() != nil && strings.HasPrefix(n.Obj().Pkg().Path(), ModPath) && strings.HasSuffix(n.Obj().Name(), "Raw") {
				if _, isStruct := n.Underlying().(*types.Struct); isStruct {
					c.TypeTag = "t:" + shortPkg(n.Obj().Pkg()) + "." + n.Obj().Name()
				}
			}
		}
	}
	act.cells[v] = c
	return c
}

func (in *Interp) instr(act *activation, b *ssa.BasicBlock, ins ssa.Instruction) {
	if debugFn != "" && strings.Contains(act.fn.String(), debugFn) {
		defer func() {
			if v, ok := ins.(ssa.Value); ok {
				fmt.Printf("TRACE %s: %s = %s\n%s", act.fn.Name(), v.Name(), ins.String(), in.Dump(act.env[v], "      ", 3))
			} else {
				fmt.Printf("TRACE %s: %s\n", act.fn.Name(), ins.String())
			}
		}()
	}
	switch x := ins.(type) {
	case *ssa.Alloc:
		c := in.newCell(act, x, x.Comment, x.Pos())
		in.set(act, x, &Val{Cell: c})
	case *ssa.Store:
		in.store(act, b, x.Pos(), in.val(act, x.Addr), in.val(act, x.Val))
	case *ssa.UnOp:
		a := in.val(act, x.X)
		if a == nil {
			return
		}
		switch x.Op {
		case token.MUL:
			in.set(act, x, in.load(a))
		case token.NOT:
			in.set(act, x, &Val{Deps: in.AllDeps(a), Bin: &BinInfo{Op: token.NOT, Not: a}, Sym: wrapSym("not", symOf(a))})
		case token.SUB:
			r := &Val{Deps: in.AllDeps(a), Sym: wrapSym("neg", symOf(a))}
			if a.K != nil && a.K.Kind() == constant.Int {
				r.K = constant.UnaryOp(token.SUB, a.K, 0)
			}
			in.set(act, x, r)
		default:
			in.set(act, x, &Val{Deps: in.AllDeps(a), Mixed: true})
		}
	case *ssa.FieldAddr:
		a := in.val(act, x.X)
		if a == nil {
			return
		}
		sel := "." + fieldName(x.X.Type(), x.Field)
		in.set(act, x, in.addrSel(a, sel))
	case *ssa.Field:
		a := in.val(act, x.X)
		if a == nil {
			return
		}
		in.set(act, x, in.Narrow(a, "."+fieldName(x.X.Type(), x.Field)))
	case *ssa.IndexAddr:
		a := in.val(act, x.X)
		if a == nil {
			return
		}
		in.set(act, x, in.addrSel(a, in.idxSel(in.val(act, x.Index))))
	case *ssa.Index:
		a := in.val(act, x.X)
		if a == nil {
			return
		}
		in.set(act, x, in.Narrow(a, in.idxSel(in.val(act, x.Index))))
	case *ssa.Slice:
		in.slice(act, x)
	case *ssa.MakeSlice:
		c := in.newCell(act, x, "makeslice", x.Pos())
		c.LenVal = in.val(act, x.Len)
		in.set(act, x, &Val{Cell: c})
	case *ssa.MakeMap:
		c := in.newCell(act, x, "makemap", x.Pos())
		in.set(act, x, &Val{Cell: c})
	case *ssa.MakeChan:
		in.set(act, x, &Val{})
	case *ssa.MapUpdate:
		m := in.val(act, x.Map)
		if m != nil && m.Cell != nil {
			in.cellWrite(m.Cell, m.CSel+"[*]", in.val(act, x.Value))
			in.cellWrite(m.Cell, m.CSel+".$key", in.val(act, x.Key))
		}
	case *ssa.Lookup:
		m := in.val(act, x.X)
		if m == nil {
			return
		}
		sel := "[?]"
		if k := in.val(act, x.Index); k != nil && k.K != nil && k.K.Kind() == constant.String && len(constant.StringVal(k.K)) < 40 {
			if _, isMap := x.X.Type().Underlying().(*types.Map); isMap {
				sel = "[k=" + constant.StringVal(k.K) + "]"
			}
		}
		r := in.Narrow(m, sel)
		if x.CommaOk {
			r = &Val{Kids: map[string]*Val{"#0": r, "#1": {Deps: in.AllDeps(in.val(act, x.Index))}}}
		}
		in.set(act, x, r)
	case *ssa.Range:
		in.set(act, x, in.val(act, x.X))
	case *ssa.Next:
		it := in.val(act, x.Iter)
		if it == nil {
			return
		}
		k := in.Narrow(it, ".$key")
		e := in.Narrow(it, "[?]")
		in.set(act, x, &Val{Kids: map[string]*Val{"#0": {}, "#1": k, "#2": e}})
	case *ssa.MakeInterface:
		in.set(act, x, in.val(act, x.X))
	case *ssa.ChangeType:
		in.set(act, x, in.val(act, x.X))
	case *ssa.ChangeInterface:
		in.set(act, x, in.val(act, x.X))
	case *ssa.SliceToArrayPointer:
		in.set(act, x, in.val(act, x.X))
	case *ssa.Convert:
		a := in.val(act, x.X)
		if a == nil {
			return
		}
		r := *a
		r.fpOK = false
		if a.K != nil {
			if bt, ok := x.Type().Underlying().(*types.Basic); ok && bt.Info()&types.IsInteger != 0 && a.K.Kind() == constant.Float {
				r.K = constant.ToInt(a.K)
				if r.K.Kind() != constant.Int {
					r.K = nil
				}
			}
		}
		in.set(act, x, &r)
	case *ssa.TypeAssert:
		a := in.val(act, x.X)
		if a == nil {
			return
		}
		if x.CommaOk {
			ok := &Val{Deps: in.AllDeps(a), Sym: "typeassert(" + types.TypeString(x.AssertedType, shortQual) + ")"}
			in.set(act, x, &Val{Kids: map[string]*Val{"#0": a, "#1": ok}})
		} else {
			in.set(act, x, a)
		}
	case *ssa.Extract:
		t := in.val(act, x.Tuple)
		if t == nil {
			return
		}
		in.set(act, x, in.Narrow(t, fmt.Sprintf("#%d", x.Index)))
	case *ssa.Phi:
		in.phi(act, b, x)
	case *ssa.BinOp:
		in.binop(act, x)
	case *ssa.Call:
		in.set(act, x, in.call(act, b, x))
	case *ssa.Defer:
		in.call(act, b, x)
	case *ssa.Go:
		in.call(act, b, x)
	case *ssa.MakeClosure:
		fn, _ := x.Fn.(*ssa.Function)
		var bound []*Val
		for _, bv := range x.Bindings {
			bound = append(bound, in.val(act, bv))
		}
		in.set(act, x, &Val{Fn: fn, Bound: bound})
	case *ssa.If:
		in.guard(act, b, x)
	case *ssa.Return:
		var r *Val
		switch len(x.Results) {
		case 0:
			r = &Val{}
		case 1:
			r = in.val(act, x.Results[0])
		default:
			r = &Val{Kids: map[string]*Val{}}
			for i, rv := range x.Results {
				if v := in.val(act, rv); v != nil {
					r.Kids[fmt.Sprintf("#%d", i)] = v
				}
			}
		}
		if !act.fi.Refuse[b.Index] {
			act.ret = in.Join(act.ret, r)
		}
	case *ssa.Jump, *ssa.Panic, *ssa.RunDefers, *ssa.DebugRef, *ssa.Send, *ssa.Select:
	default:
		in.note("unhandled instruction %T in %s", ins, in.P.FnName(act.fn))
	}
}

func shortQual(p *types.Package) string { return shortPkg(p) }

func wrapSym(op string, parts ...string) string {
	for _, p := range parts {
		if p == "" {
			return ""
		}
	}
	s := op + "(" + strings.Join(parts, ",") + ")"
	if len(s) > 480 {
		return ""
	}
	return s
}

// addrSel extends a pointer (to a cell or to an access path) by one selector.
func (in *Interp) addrSel(a *Val, sel string) *Val {
	r := &Val{Mixed: a.Mixed, Deps: a.Deps}
	if a.Cell != nil {
		r.Cell = a.Cell
		s := sel
		if strings.HasPrefix(sel, "[") {
			if _, ok := selConstIndex(sel); !ok {
				// keep the symbolic index for reads; writes smash it
			}
		}
		r.CSel = a.CSel + s
	}
	if len(a.Dir) > 0 {
		r.Dir = make([]string, len(a.Dir))
		for i, p := range a.Dir {
			r.Dir[i] = p + sel
		}
		sort.Strings(r.Dir)
	}
	if len(a.bnd) > 0 {
		r.bnd = make([]string, len(a.bnd))
		for i, p := range a.bnd {
			r.bnd[i] = p + sel
		}
	}
	// a pointer value held in a local aggregate (Kids) — e.g. slice elements stored in a struct literal
	if len(a.Kids) > 0 && a.Cell == nil && len(a.Dir) == 0 {
		n := in.Narrow(a, sel)
		if n != nil {
			return n
		}
	}
	return r
}

func (in *Interp) slice(act *activation, x *ssa.Slice) {
	a := in.val(act, x.X)
	if a == nil {
		return
	}
	lo, hi := in.val(act, x.Low), in.val(act, x.High)
	full := (x.Low == nil || (lo != nil && lo.K != nil && constant.Sign(lo.K) == 0)) && x.High == nil
	if !full && (x.Low == nil || (lo != nil && lo.K != nil && constant.Sign(lo.K) == 0)) && hi != nil && hi.K != nil && x.Max == nil {
		// arr[:N] of an array of exactly N elements (what make([]T, N) with a constant N lowers to) is the whole array
		if pt, ok := x.X.Type().Underlying().(*types.Pointer); ok {
			if at, ok := pt.Elem().Underlying().(*types.Array); ok {
				if n, exact := constant.Int64Val(hi.K); exact && n == at.Len() {
					full = true
				}
			}
		}
	}
	if full {
		if a.Cell != nil && a.CSel == "" && a.Cell.find().LenVal == nil {
			if pt, ok := x.X.Type().Underlying().(*types.Pointer); ok {
				if at, ok := pt.Elem().Underlying().(*types.Array); ok {
					k := constant.MakeInt64(at.Len())
					a.Cell.find().LenVal = &Val{K: k, Sym: k.ExactString()}
				}
			}
		}
		in.set(act, x, a)
		return
	}
	ls, hs := "", ""
	if x.Low != nil {
		ls = symOf(lo)
		if ls == "" {
			ls = "?"
		}
	} else {
		ls = "0"
	}
	if x.High != nil {
		hs = symOf(hi)
		if hs == "" {
			hs = "?"
		}
	}
	sel := "[s:" + ls + ":" + hs + "]"
	// widening: at most two stacked slice selectors; a deeper sub-slice stays "some sub-slice"
	for _, p := range append(append([]string{}, a.Dir...), a.bnd...) {
		if strings.Count(p, "[s:") >= 2 {
			sel = ""
		} else if strings.Count(p, "[s:") == 1 && strings.Contains(ls+hs, "[s:") && strings.Count(ls+hs, "[s:") > 1 {
			sel = "[s:?:?]"
		}
	}
	r := &Val{Mixed: a.Mixed, Deps: a.Deps.Or(in.AllDeps(lo)).Or(in.AllDeps(hi))}
	if a.Cell != nil {
		r.Cell = a.Cell // a view of the same cell (elements smashed); the selector records that it is a sub-slice
		r.CSel = a.CSel
		if !strings.Contains(a.CSel, "[s:") {
			r.CSel = a.CSel + "[s:" + ls + ":" + hs + "]"
		}
	}
	for _, p := range a.Dir {
		r.Dir = append(r.Dir, p+sel)
	}
	sort.Strings(r.Dir)
	for _, p := range a.bnd {
		r.bnd = append(r.bnd, p+sel)
	}
	if len(a.Kids) > 0 {
		r.Kids = a.Kids
	}
	in.set(act, x, r)
}

func (in *Interp) phi(act *activation, b *ssa.BasicBlock, x *ssa.Phi) {
	var r *Val
	hdr := act.fi.HeaderOf[b]
	var inits, backs []*Val
	for i, e := range x.Edges {
		v := in.val(act, e)
		if v == nil {
			continue
		}
		if hdr != nil && hdr.Blocks[b.Preds[i]] {
			// value carried around the back edge: induction symbols of this loop are stale
			v = in.staleIv(v, fmt.Sprintf("iv%d", in.loopID(act, hdr)))
			backs = append(backs, v)
		} else if hdr != nil {
			inits = append(inits, v)
		}
		r = in.Join(r, v)
	}
	if r == nil {
		return
	}
	// an accumulator of a loop is marked loopphi(init); its step expression (in which the accumulator appears as
	// that same marker, so nothing nests) is kept in a side table for the rules that evaluate recurrences
	if hdr != nil && len(inits) == 1 && len(backs) == 1 && isCircuitValue(x.Type()) {
		c := *r
		c.fpOK = false
		init := inits[0]
		if init.Ex != nil && init.exd >= maxExprDepth-1 {
			ic := *init
			ic.fpOK = false
			ic.Ex, ic.exd = nil, 0
			init = &ic
		}
		site := x.Pos()
		if !site.IsValid() {
			site = token.Pos(1<<30 + in.loopID(act, hdr)) // phis of compiler-made loops have no position
		}
		c.Ex = &Expr{Op: "loopphi", Args: []*Val{init}, Site: site}
		c.exd = init.exd + 1
		if in.Recur == nil {
			in.Recur = map[token.Pos]*Val{}
		}
		in.Recur[site] = backs[0]
		r = &c
	}
	in.set(act, x, r)
}

func isCircuitValue(t types.Type) bool {
	s := t.String()
	return strings.HasSuffix(s, "frontend.Variable") || strings.HasSuffix(s, "goldilocks.Variable") || strings.HasSuffix(s, "goldilocks.QuadraticExtensionVariable")
}

func (in *Interp) staleIv(v *Val, iv string) *Val {
	has := func(list []string) bool {
		for _, p := range list {
			if strings.Contains(p, "["+iv+"]") {
				return true
			}
		}
		return false
	}
	if !has(v.Dir) && !has(v.From) && !has(v.bnd) && v.Sym != iv && len(v.Kids) == 0 {
		return v
	}
	c := *v
	c.fpOK = false
	rep := func(list []string) []string {
		if !has(list) {
			return list
		}
		out := make([]string, 0, len(list))
		for _, p := range list {
			out = append(out, strings.ReplaceAll(p, "["+iv+"]", "[?]"))
		}
		sort.Strings(out)
		return dedup(out)
	}
	c.Dir, c.From, c.bnd = rep(v.Dir), rep(v.From), rep(v.bnd)
	if strings.Contains(c.Sym, iv) {
		c.Sym = ""
	}
	if len(v.Kids) > 0 {
		c.Kids = map[string]*Val{}
		for k, kid := range v.Kids {
			c.Kids[k] = in.staleIv(kid, iv)
		}
	}
	return &c
}

func dedup(s []string) []string {
	out := s[:0]
	for i, x := range s {
		if i == 0 || x != s[i-1] {
			out = append(out, x)
		}
	}
	return out
}

func (in *Interp) binop(act *activation, x *ssa.BinOp) {
	a, b := in.val(act, x.X), in.val(act, x.Y)
	if a == nil || b == nil {
		return
	}
	r := &Val{Deps: in.AllDeps(a).Or(in.AllDeps(b))}
	switch x.Op {
	case token.EQL, token.NEQ, token.LSS, token.LEQ, token.GTR, token.GEQ:
		r.Bin = &BinInfo{Op: x.Op, X: a, Y: b}
		if a.K != nil && b.K != nil && a.K.Kind() == b.K.Kind() && a.K.Kind() != constant.Bool && a.K.Kind() != constant.Unknown {
			r.K = constant.MakeBool(constant.Compare(a.K, x.Op, b.K))
		}
		r.Sym = wrapSym(x.Op.String(), symOrLen(a), symOrLen(b))
	default:
		if a.K != nil && b.K != nil && a.K.Kind() == constant.Int && b.K.Kind() == constant.Int {
			func() {
				defer func() { recover() }()
				switch x.Op {
				case token.SHL, token.SHR:
					if s, ok := constant.Uint64Val(b.K); ok && s < 4096 {
						r.K = constant.Shift(a.K, x.Op, uint(s))
					}
				case token.QUO:
					if constant.Sign(b.K) != 0 {
						r.K = constant.BinaryOp(a.K, token.QUO_ASSIGN, b.K)
					}
				case token.REM:
					if constant.Sign(b.K) != 0 {
						r.K = constant.BinaryOp(a.K, token.REM, b.K)
					}
				case token.ADD, token.SUB, token.MUL, token.AND, token.OR, token.XOR, token.AND_NOT:
					r.K = constant.BinaryOp(a.K, x.Op, b.K)
				}
			}()
			// wrap to the operand type's width for unsigned arithmetic
			if r.K != nil {
				if bt, ok := x.Type().Underlying().(*types.Basic); ok {
					r.K = wrapConst(r.K, bt)
				}
			}
		}
		r.Sym = wrapSym(x.Op.String(), symOrLen(a), symOrLen(b))
		r.Bin = &BinInfo{Op: x.Op, X: a, Y: b}
		if a.K != nil && b.K != nil && a.K.Kind() == constant.String && x.Op == token.ADD {
			r.K = constant.BinaryOp(a.K, token.ADD, b.K)
		}
	}
	in.set(act, x, r)
}

func wrapConst(k constant.Value, bt *types.Basic) constant.Value {
	if k.Kind() != constant.Int {
		return k
	}
	var bits uint
	switch bt.Kind() {
	case types.Uint8:
		bits = 8
	case types.Uint16:
		bits = 16
	case types.Uint32:
		bits = 32
	case types.Uint64, types.Uint, types.Uintptr:
		bits = 64
	default:
		return k
	}
	mod := constant.Shift(constant.MakeInt64(1), token.SHL, bits)
	r := constant.BinaryOp(k, token.REM, mod)
	if constant.Sign(r) < 0 {
		r = constant.BinaryOp(r, token.ADD, mod)
	}
	return r
}

func symOrLen(v *Val) string {
	if s := symOf(v); s != "" {
		return s
	}
	if len(v.LenOf) == 1 {
		return "len(" + v.LenOf[0] + ")"
	}
	if p, ok := v.Definite(); ok {
		return p
	}
	return ""
}

// guard records an If one of whose successors refuses (panics / returns an error).
func (in *Interp) guard(act *activation, b *ssa.BasicBlock, x *ssa.If) {
	if len(b.Succs) != 2 {
		return
	}
	r0, r1 := act.fi.Refuse[b.Succs[0].Index], act.fi.Refuse[b.Succs[1].Index]
	if r0 == r1 {
		return
	}
	c := in.val(act, x.Cond)
	if c == nil {
		return
	}
	pos := x.Pos()
	if !pos.IsValid() {
		if v, ok := x.Cond.(ssa.Instruction); ok {
			pos = v.Pos()
		}
	}
	in.emit(act, b, &Rec{Kind: "guard", Site: pos, Args: []*Val{c}, Neg: r0})
}
