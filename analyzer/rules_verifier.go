package main

// Verifier-level rules: C17 (canonicity sweep), C14 (proof of work), C12 (Merkle openings), C13 (FRI query
// algebra: presence and coverage), C16 (PLONK identity assertion), C20 (shape guards), C01 (wiring, liveness).
// Entry for all of them: (*verifier.VerifierChip).Verify — one abstract interpretation, many obligations.

import (
	"fmt"
	"go/token"
	"go/types"
	"math/big"
	"regexp"
	"sort"
	"strings"
)

func (cx *Ctx) verify() *Run { return cx.Entry("verifier", "(*VerifierChip).Verify") }

func engineNotes(r *Run, prop string) []Obligation {
	var obs []Obligation
	for _, n := range r.In.Notes {
		if strings.HasPrefix(n, "fixpoint not reached") || strings.HasPrefix(n, "recursion") || strings.HasPrefix(n, "unhandled instruction") {
			obs = append(obs, undecided(prop+"/engine/"+unsafeChars.ReplaceAllString(n, "_"), "the abstract interpretation of the entry completes without over-approximating fallbacks", n))
		}
	}
	return obs
}

// ---------------------------------------------------------------- C17

func isGlLeaf(t types.Type) bool {
	return typeIs(t, "goldilocks.Variable", "goldilocks.QuadraticExtensionVariable")
}

func rulesC17(cx *Ctx) []Obligation {
	r := cx.verify()
	if r == nil {
		return []Obligation{undecided("C17/anchor", "entry VerifierChip.Verify exists", "not found")}
	}
	obs := engineNotes(r, "C17")
	root := r.ParamRoot("variables.Proof")
	pt := cx.P.NamedType("variables", "Proof")
	if root == "" || pt == nil {
		return append(obs, undecided("C17/anchor", "Verify takes the proof (variables.Proof) as a parameter", "parameter or type not found"))
	}
	var leaves []string
	leafPaths(pt, "", isGlLeaf, &leaves, 0)
	sort.Strings(leaves)
	if len(leaves) < 11 {
		obs = append(obs, undecided("C17/leaves", "the Goldilocks-typed leaves of the proof structure are enumerated from its type", fmt.Sprintf("only %d leaves found (11 confirmed by hand)", len(leaves))))
	}
	for _, leaf := range leaves {
		lt := leafType(pt, leaf)
		coords := []string{""}
		if typeIs(lt, "goldilocks.QuadraticExtensionVariable") {
			coords = []string{"[0]", "[1]"}
		}
		for _, c := range coords {
			key := "C17/sweep/" + strings.TrimPrefix(leaf, ".") + c
			desc := "every element of this Goldilocks-typed proof field is passed, itself, to the canonical range check on every path (full-range loops over the complete field, no narrowing slice, no early exit, both coordinates)"
			sites, why := r.findCovering("canon", 0, root+leaf+c, nil)
			if len(sites) > 0 {
				obs = append(obs, good(key, desc, sites...))
			} else {
				obs = append(obs, bad(key, desc, why))
			}
		}
	}
	return obs
}

// leafType resolves the type at a leaf pattern (".A.B[].C").
func leafType(t types.Type, pat string) types.Type {
	for _, s := range splitSel(pat) {
		switch {
		case s == "[]":
			switch u := t.Underlying().(type) {
			case *types.Slice:
				t = u.Elem()
			case *types.Array:
				t = u.Elem()
			}
		case strings.HasPrefix(s, "."):
			st, ok := t.Underlying().(*types.Struct)
			if !ok {
				return t
			}
			for i := 0; i < st.NumFields(); i++ {
				if st.Field(i).Name() == s[1:] {
					t = st.Field(i).Type()
					break
				}
			}
		}
	}
	return t
}

// ---------------------------------------------------------------- C14

var powWidthRe = regexp.MustCompile(`^-\(64,[A-Za-z0-9_.:\[\]*]*\.ProofOfWorkBits\)$`)

func rulesC14(cx *Ctx) []Obligation {
	r := cx.verify()
	if r == nil {
		return []Obligation{undecided("C14/anchor", "entry VerifierChip.Verify exists", "not found")}
	}
	obs := engineNotes(r, "C14")
	root := r.ParamRoot("variables.Proof")
	key := "C14/O14.1/width-check"
	desc := "the proof-of-work response drawn from the transcript (FriChallenges.FriPowResponse of the derived challenges) is range-checked on every path to width 64 − ProofOfWorkBits of the circuit's FRI configuration"
	var diag []string
	found := false
	for _, rec := range r.Recs {
		if rec.Kind != "range" || len(rec.Args) == 0 || rec.Args[0] == nil {
			continue
		}
		a := rec.Args[0]
		isResp := false
		for _, f := range a.From {
			if strings.HasSuffix(f, ".FriChallenges.FriPowResponse.Limb") || strings.HasSuffix(f, ".FriPowResponse.Limb") {
				isResp = true
			}
		}
		if !isResp || len(a.Dir) > 0 {
			continue
		}
		if !rec.Must {
			diag = append(diag, r.site(rec)+": the check is conditional")
			continue
		}
		w := ""
		if rec.Width != nil {
			w = rec.Width.Sym
		}
		if !powWidthRe.MatchString(w) {
			diag = append(diag, fmt.Sprintf("%s: width is %q, expected 64 − <config>.ProofOfWorkBits", r.site(rec), widthStr(rec.Width)))
			continue
		}
		if !r.depsHave(a, root+".OpeningProof.PowWitness") {
			diag = append(diag, r.site(rec)+": the checked response does not depend on the proof-of-work witness of the proof")
			continue
		}
		found = true
		obs = append(obs, good(key, desc, r.site(rec)))
	}
	if !found {
		// equivalent form: the check is applied to Reduce(response). The response is an output of the Poseidon
		// permutation (canonical, C07/O7.3), so its reduction is the response itself.
		for _, rec := range r.Recs {
			if rec.Kind != "call" || !rec.Must || rec.Callee == nil || !r.In.Layer[fnPkgShort(rec.Callee)] || len(rec.Args) < 3 {
				continue
			}
			ai, wi := -1, -1
			for i, a := range rec.Args {
				if a == nil {
					continue
				}
				for _, f := range a.From {
					if strings.HasSuffix(f, ".FriPowResponse") && len(a.Dir) == 0 {
						ai = i
					}
				}
				if powWidthRe.MatchString(a.Sym) {
					wi = i
				}
			}
			if ai < 0 || wi < 0 || !r.depsHave(rec.Args[ai], root+".OpeningProof.PowWitness") {
				continue
			}
			g := cx.EntryFn(rec.Callee)
			xp, wp := rec.Callee.Params[ai].Name(), rec.Callee.Params[wi].Name()
			for _, gr := range g.Recs {
				if gr.Kind != "range" || !gr.Must || gr.Width == nil || len(gr.Args) == 0 {
					continue
				}
				if w, ok := gr.Width.Definite(); !ok || w != wp {
					continue
				}
				p, ok := gr.Args[0].Definite()
				if !ok || !strings.HasPrefix(p, "H:ReduceHint@") || !strings.HasSuffix(p, "#1") {
					continue
				}
				for _, h := range g.Recs {
					if h.Kind == "hint" && h.Must && len(h.Args) == 1 && strings.HasPrefix(p, fmt.Sprintf("H:%s@%s", h.HintFn.Name(), g.In.P.Pos(h.Site))) {
						if ip, ok := h.Args[0].Definite(); ok && ip == xp+".Limb" {
							found = true
							obs = append(obs, good(key, desc, r.site(rec)+" (applied to Reduce(response); the response is a canonical Poseidon output)"))
						}
					}
				}
			}
		}
	}
	if !found {
		if len(diag) == 0 {
			diag = []string{"no n-bit range check is applied to FriChallenges.FriPowResponse on the paths from Verify"}
		}
		obs = append(obs, bad(key, desc, strings.Join(diag, " | ")))
	}
	return obs
}

func widthStr(v *Val) string {
	if v == nil {
		return "?"
	}
	if s := symOf(v); s != "" {
		return s
	}
	return v.short(1)
}

// ---------------------------------------------------------------- guards (C20) helpers

type guardInfo struct {
	rec  *Rec
	op   token.Token // condition under which execution continues, normalised: X op Y
	x, y *Val
}

func (r *Run) guards() []guardInfo {
	var out []guardInfo
	for _, rec := range r.Recs {
		if rec.Kind != "guard" || len(rec.Args) == 0 || rec.Args[0] == nil {
			continue
		}
		c := rec.Args[0]
		neg := rec.Neg
		for c.Bin != nil && c.Bin.Op == token.NOT && c.Bin.Not != nil {
			c = c.Bin.Not
			neg = !neg
		}
		if c.Bin == nil {
			out = append(out, guardInfo{rec: rec})
			continue
		}
		op := c.Bin.Op
		if neg {
			switch op {
			case token.EQL:
				op = token.NEQ
			case token.NEQ:
				op = token.EQL
			case token.LSS:
				op = token.GEQ
			case token.LEQ:
				op = token.GTR
			case token.GTR:
				op = token.LEQ
			case token.GEQ:
				op = token.LSS
			}
		}
		out = append(out, guardInfo{rec: rec, op: op, x: c.Bin.X, y: c.Bin.Y})
	}
	return out
}

// descr: a stable textual description of a compared quantity: a constant, the length of an access path, the
// length of a local collection (with the expression it was sized by, if known), or a symbolic integer.
func descr(v *Val) string {
	if v == nil {
		return "?"
	}
	if v.K != nil && len(v.Dir) == 0 {
		return v.K.ExactString()
	}
	if len(v.LenOf) > 0 {
		var parts []string
		local := false
		for _, l := range v.LenOf {
			if strings.HasPrefix(l, "c:") {
				local = true
			} else {
				parts = append(parts, genIv(l))
			}
		}
		if !local {
			return "len(" + strings.Join(parts, "|") + ")"
		}
		if s := symOf(v); s != "" && !strings.HasPrefix(s, "len(c:") {
			return "len(local:" + genIv(s) + ")"
		}
		return "len(local)"
	}
	if s := symOf(v); s != "" {
		return genIv(cellTag.ReplaceAllString(s, "local"))
	}
	if p, ok := v.Definite(); ok {
		return genIv(p)
	}
	return "?"
}

var ivAny = regexp.MustCompile(`\[iv\d+\]`)
var cellTag = regexp.MustCompile(`c:[A-Za-z0-9_$]+\.t\d+`)

func genIv(s string) string { return ivAny.ReplaceAllString(s, "[i]") }

// ---------------------------------------------------------------- helpers for computed-value obligations

// loopOver: one of the loops enclosing the record ranges fully over the collection matching pat ([] wildcards).
func (r *Run) loopOver(rec *Rec, pat string) (bool, string) {
	re := patRe(pat)
	why := "no enclosing loop ranges over " + pat
	for _, id := range rec.Loops {
		ld := r.In.Loops[id]
		if ld == nil || ld.Bound == nil {
			continue
		}
		// candidate collections: what the bound is the length of, and what guards prove equal to it
		cands := append([]string{}, ld.Bound.LenOf...)
		for _, g := range r.guards() {
			if !g.rec.Must || g.op != token.EQL || g.x == nil || g.y == nil {
				continue
			}
			for _, pair := range [][2]*Val{{g.x, g.y}, {g.y, g.x}} {
				if len(pair[0].LenOf) == 1 && len(pair[1].LenOf) == 1 {
					for _, b := range ld.Bound.LenOf {
						if genIv(pair[0].LenOf[0]) == genIv(b) {
							if okk, _ := r.covered(g.rec, pair[1].LenOf[0]); okk || !strings.Contains(pair[1].LenOf[0], "[iv") {
								cands = append(cands, pair[1].LenOf[0])
							}
						}
					}
				}
			}
		}
		for _, c := range cands {
			if !re.MatchString(c) && !re.MatchString(reIv(c, rec)) {
				continue
			}
			okk, w := r.loopFullAny(id, rec)
			if okk {
				return true, ""
			}
			why = w
		}
	}
	return false, why
}

// reIv: guards proved inside another (full) loop over the same collection quantify over all its elements: rename
// their induction symbols to the ones enclosing rec when the collections coincide up to renaming.
func reIv(path string, rec *Rec) string { return path }

// loopFullAny: the loop is a counted, single-exit, 0-based, step-1 loop bounded by the length of something.
func (r *Run) loopFullAny(id int, rec *Rec) (bool, string) {
	ld := r.In.Loops[id]
	sl := ld.S
	where := ld.FnPos
	switch {
	case !sl.Counted:
		return false, "loop at " + where + " is not a counted loop"
	case !sl.SingleExit:
		return false, "loop at " + where + " has an exit other than its bound test"
	case sl.Step != 1 || sl.StartConst == nil || *sl.StartConst != 0:
		return false, "loop at " + where + " does not visit indices 0,1,2,… (start/step)"
	case sl.Op != token.LSS && sl.Op != token.NEQ:
		return false, "loop at " + where + " does not run while index < bound"
	case len(ld.Bound.LenOf) != 1:
		return false, "loop at " + where + " is not bounded by the length of one collection"
	case strings.Contains(ld.Bound.LenOf[0], "[s:"):
		return false, "loop at " + where + " ranges over a sub-slice only: " + ld.Bound.LenOf[0]
	}
	return true, ""
}

// selection: the value is a pure selection (Select / Lookup2 tree) among elements matching pat, conditioned only
// on bits; returns the roots of the condition bits.
func selectionOf(v *Val, pat string) (bool, []string, string) {
	if v == nil {
		return false, nil, "no value"
	}
	if v.Mixed || len(v.Dir) == 0 {
		return false, nil, "value is computed, not a selection of proof elements: " + v.short(1)
	}
	if pat != "" {
		re := patRe(pat)
		for _, p := range v.Dir {
			if !re.MatchString(p) {
				return false, nil, "selection may yield " + p
			}
		}
	}
	var conds []string
	var walk func(x *Val, d int) bool
	walk = func(x *Val, d int) bool {
		if x == nil || d > 10 {
			return false
		}
		if x.Ex == nil {
			return len(x.Dir) > 0 && !x.Mixed
		}
		switch x.Ex.Op {
		case "Select":
			if len(x.Ex.Args) != 3 {
				return false
			}
			conds = append(conds, x.Ex.Args[0].Dir...)
			return walk(x.Ex.Args[1], d+1) && walk(x.Ex.Args[2], d+1)
		case "Lookup2":
			if len(x.Ex.Args) != 6 {
				return false
			}
			conds = append(conds, x.Ex.Args[0].Dir...)
			conds = append(conds, x.Ex.Args[1].Dir...)
			for _, a := range x.Ex.Args[2:] {
				if !walk(a, d+1) {
					return false
				}
			}
			return true
		}
		return false
	}
	if !walk(v, 0) {
		// expression depth limit reached: the Dir/Mixed facts above already say it is a selection
		if v.Ex == nil || (v.Ex.Op != "Select" && v.Ex.Op != "Lookup2") {
			return false, nil, "not a Select/Lookup2 tree"
		}
	}
	sort.Strings(conds)
	return true, dedup(conds), ""
}

// ---------------------------------------------------------------- C12

func rulesC12(cx *Ctx) []Obligation {
	r := cx.verify()
	if r == nil {
		return []Obligation{undecided("C12/anchor", "entry VerifierChip.Verify exists", "not found")}
	}
	obs := engineNotes(r, "C12")
	proof := r.ParamRoot("variables.Proof")
	vd := r.ParamRoot("variables.VerifierOnlyCircuitData")
	qr := proof + ".OpeningProof.QueryRoundProofs"
	// index provenance
	var tobin *Rec
	for _, rec := range r.Recs {
		if rec.Kind == "tobin" && rec.Must && len(rec.Loops) > 0 && r.hasTag(rec.Args[0], "Reduce") && constOf(rec.Width) != nil {
			if okk, _ := r.loopOver(rec, qr); okk {
				tobin = rec
			}
		}
	}
	d123 := "per query round, the query index (a transcript challenge, reduced) is decomposed into bits; leaf-index and cap-index bits of every Merkle check of the round come from that one decomposition"
	if tobin == nil {
		obs = append(obs, bad("C12/O12.3/index-bits", d123, "no must-executed ToBinary(Reduce(query index)) inside a loop covering all query rounds"))
		return obs
	}
	bitsRoot := "X:ToBinary@" + r.In.P.Pos(tobin.Site)
	if !r.depsHave(tobin.Args[0], proof+".OpeningProof.PowWitness") {
		obs = append(obs, bad("C12/O12.3/index-bits", d123, "the decomposed index does not depend on the transcript (proof-of-work witness)", r.site(tobin)))
	} else {
		obs = append(obs, good("C12/O12.3/index-bits", d123, r.site(tobin)))
	}
	capFamilies := []string{vd + ".ConstantSigmasCap[]", proof + ".WiresCap[]", proof + ".PlonkZsPartialProductsCap[]", proof + ".QuotientPolysCap[]"}
	type want struct {
		key, desc string
		capPats   []string
		digest    []string
		loops     []string
		leafPat   string
	}
	wants := []want{
		{"C12/O12.1/initial-trees", "per query round and per initial oracle, the hash chain over the opened leaf and all sibling hashes is asserted equal to the cap entry selected by the cap-index bits; tree t is checked against caps[t] = [ConstantSigmasCap, WiresCap, PlonkZsPartialProductsCap, QuotientPolysCap]",
			capFamilies, []string{qr + "[].InitialTreesProof.EvalsProofs[].Elements", qr + "[].InitialTreesProof.EvalsProofs[].MerkleProof.Siblings", bitsRoot},
			[]string{qr, qr + "[].InitialTreesProof.EvalsProofs"}, qr + "[].InitialTreesProof.EvalsProofs[].Elements"},
		{"C12/O12.2/commit-phase-trees", "per query round and per reduction step, the hash chain over both coordinates of all evaluations of the step and all sibling hashes is asserted equal to the selected entry of that step's commit-phase cap",
			[]string{proof + ".OpeningProof.CommitPhaseMerkleCaps[][]"}, []string{qr + "[].Steps[].Evals", qr + "[].Steps[].MerkleProof.Siblings", bitsRoot},
			[]string{qr, qr + "[].Steps"}, ""},
	}
	for _, w := range wants {
		var diag []string
		matched := false
		for _, rec := range r.Recs {
			if rec.Kind != "eq" || len(rec.Args) != 2 {
				continue
			}
			for _, pair := range [][2]*Val{{rec.Args[0], rec.Args[1]}, {rec.Args[1], rec.Args[0]}} {
				digest, capv := pair[0], pair[1]
				if capv == nil || len(capv.Dir) == 0 {
					continue
				}
				// the cap side: a selection among entries of exactly the expected caps
				fam := map[string]bool{}
				okFam := true
				for _, p := range capv.Dir {
					hit := false
					for _, cp := range w.capPats {
						if patRe(cp).MatchString(p) {
							fam[cp] = true
							hit = true
						}
					}
					if !hit {
						okFam = false
					}
				}
				if len(fam) == 0 {
					continue
				}
				site := r.site(rec)
				if !okFam || len(fam) != len(w.capPats) {
					diag = append(diag, fmt.Sprintf("%s: the compared cap entry is selected among %v, expected exactly %v", site, capv.Dir, w.capPats))
					continue
				}
				isSel, conds, whySel := selectionOf(capv, "")
				if capv.Mixed {
					diag = append(diag, site+": the cap side may be something other than a cap entry")
					continue
				}
				_ = isSel
				_ = whySel
				capBits := 0
				for _, c := range conds {
					if strings.HasPrefix(c, bitsRoot) && strings.Contains(c, ".CapHeight)") {
						capBits++
					}
				}
				if capBits < 4 {
					diag = append(diag, fmt.Sprintf("%s: the cap entry is not selected by four bits taken from the top CapHeight bits of the query-index decomposition (selector bits: %v)", site, conds))
					continue
				}
				if !rec.Must {
					diag = append(diag, site+": the equality does not execute on every path / iteration")
					continue
				}
				if okk, miss := r.depsHaveAll(digest, w.digest...); !okk {
					diag = append(diag, site+": the hashed digest does not depend on "+miss)
					continue
				}
				if !r.hasTag(digest, "Poseidon") || !r.hasTag(digest, "HashOrNoop") {
					diag = append(diag, site+": the digest is not a hash of the leaf folded with siblings by the BN254 Poseidon permutation")
					continue
				}
				lok := true
				for _, lp := range w.loops {
					if okk, why := r.loopOver(rec, lp); !okk {
						diag = append(diag, site+": "+why)
						lok = false
					}
				}
				if !lok {
					continue
				}
				// siblings: every sibling is folded in (a full-range loop over the path's siblings feeding the hash)
				if okk, why := r.siblingLoop(rec); !okk {
					diag = append(diag, site+": "+why)
					continue
				}
				if w.leafPat == "" {
					if okk, why := r.leafBothCoords(rec, qr+"[].Steps[].Evals"); !okk {
						diag = append(diag, site+": "+why)
						continue
					}
				} else if okk, why := r.leafWhole(rec, w.leafPat); !okk {
					diag = append(diag, site+": "+why)
					continue
				}
				matched = true
				obs = append(obs, good(w.key, w.desc, site))
			}
		}
		if !matched {
			if len(diag) == 0 {
				diag = []string{"no equality between a hash chain and a selected entry of " + strings.Join(w.capPats, ", ")}
			}
			obs = append(obs, bad(w.key, w.desc, strings.Join(diag, " | ")))
		}
	}
	// positional content of the initial caps slice
	obs = append(obs, ruleCapsOrder(r, capFamilies)...)
	obs = append(obs, ruleMerkleDigestChain(cx)...)
	obs = append(obs, ruleCommitTreeIndexCursor(cx)...)
	return obs
}

// siblingLoop: within the call that contains the Merkle equality, a must-executed Poseidon permutation sits in a
// loop that fully ranges over the opened path's Siblings and consumes Siblings[i].
func (r *Run) siblingLoop(eq *Rec) (bool, string) {
	why := "no hash of the sibling list found in the function performing the Merkle check"
	for _, rec := range r.Recs {
		if rec.Kind != "call" || rec.Callee == nil || rec.Callee.Name() != "Poseidon" || fnPkgShort(rec.Callee) != "poseidon" {
			continue
		}
		if !chainUnder(eq.Chain, rec.Chain) || len(rec.Loops) != len(eq.Loops)+1 {
			continue
		}
		id := rec.Loops[len(rec.Loops)-1]
		ld := r.In.Loops[id]
		if ld == nil || ld.Bound == nil || len(ld.Bound.LenOf) != 1 || !strings.HasSuffix(genIv(ld.Bound.LenOf[0]), ".MerkleProof.Siblings") {
			why = "the hashing loop is not bounded by the length of the path's Siblings"
			if ld != nil && ld.Bound != nil {
				why += ": " + boundStr(ld.Bound)
			}
			continue
		}
		if okk, w := r.loopFullAny(id, rec); !okk {
			why = w
			continue
		}
		if !rec.Must {
			why = "the sibling hashing step is conditional"
			continue
		}
		sib := ld.Bound.LenOf[0] + fmt.Sprintf("[iv%d]", id)
		uses := false
		for _, a := range rec.Args {
			if a != nil && r.depsHave(a, genPath(sib)) {
				uses = true
			}
		}
		if !uses {
			why = "the hashing step does not consume Siblings[i]"
			continue
		}
		return true, ""
	}
	return false, why
}

// chainUnder: the record with chain b sits in the function of chain a or in a function called (transitively) from it
func chainUnder(a, b []CallStep) bool {
	if len(b) < len(a) {
		return false
	}
	for i := range a {
		if a[i].Site != b[i].Site {
			return false
		}
	}
	return true
}

func sameChain(a, b []CallStep) bool {
	if len(a) != len(b) {
		return false
	}
	for i := range a {
		if a[i].Site != b[i].Site {
			return false
		}
	}
	return true
}

// leafWhole: the leaf handed to the hash (first hashing call in the Merkle function) is the opened leaf itself — the
// whole element list of the oracle's opening, not a sub-slice or a value chosen per configuration (a trailing salt
// or any other element left out would not be covered by the cap).
func (r *Run) leafWhole(eq *Rec, leafPat string) (bool, string) {
	re := patRe(leafPat)
	for _, rec := range r.Recs {
		if rec.Kind != "call" || rec.Callee == nil || rec.Callee.Name() != "HashOrNoop" || !chainUnder(eq.Chain, rec.Chain) || len(rec.Args) < 2 {
			continue
		}
		a := rec.Args[1]
		if a == nil {
			return false, "the hashed leaf is unknown"
		}
		p, ok := a.Definite()
		if !ok || a.CSel != "" || !re.MatchString(p) {
			return false, "the hashed leaf is " + a.short(2) + ", not the whole list of opened elements " + leafPat
		}
		if !rec.Must {
			return false, "the leaf hash is conditional"
		}
		return true, ""
	}
	return false, "no HashOrNoop of the leaf in the function performing the Merkle check"
}

// leafBothCoords: the leaf handed to the hash (first hashing call in the Merkle function) contains both coordinates
// of every element of the step's evaluations.
func (r *Run) leafBothCoords(eq *Rec, evalsPat string) (bool, string) {
	for _, rec := range r.Recs {
		if rec.Kind != "call" || rec.Callee == nil || rec.Callee.Name() != "HashOrNoop" || !chainUnder(eq.Chain, rec.Chain) || len(rec.Args) < 2 {
			continue
		}
		el := r.In.Narrow(rec.Args[1], "[?]")
		if el == nil {
			continue
		}
		has := map[string]bool{}
		for _, p := range el.Dir {
			for _, c := range []string{"[0]", "[1]"} {
				if patRe(evalsPat + "[]" + c).MatchString(p) {
					has[c] = true
					// the loop that built the leaf ranges over all evaluations
					m := ivRe.FindAllStringSubmatch(p, -1)
					if len(m) > 0 {
						id := atoi(m[len(m)-1][1])
						prefix := p[:strings.LastIndex(p, "[iv")]
						if okk, w := r.loopFull(id, prefix, rec); !okk {
							return false, "the leaf of the commit-phase tree does not include every evaluation: " + w
						}
					} else {
						return false, "the leaf of the commit-phase tree includes " + p + " only"
					}
				}
			}
		}
		if has["[0]"] && has["[1]"] {
			return true, ""
		}
		return false, fmt.Sprintf("the hashed leaf of the commit-phase tree contains coordinates %v of the evaluations, expected both", keysOf(has))
	}
	return false, "no leaf hashing call found for the commit-phase tree"
}

// ruleCapsOrder: the slice of initial caps passed to FRI verification has the content sequence
// [ConstantSigmasCap, WiresCap, PlonkZsPartialProductsCap, QuotientPolysCap] (tree t ↔ caps[t]).
func ruleCapsOrder(r *Run, fam []string) []Obligation {
	key := "C12/O1.2/caps-order"
	desc := "the initial caps handed to FRI verification are, in order, [verifierData.ConstantSigmasCap, proof.WiresCap, proof.PlonkZsPartialProductsCap, proof.QuotientPolysCap]"
	for _, rec := range r.Recs {
		if rec.Kind != "call" || rec.Callee == nil || rec.Callee.Name() != "VerifyFriProof" || len(rec.Chain) != 0 {
			continue
		}
		for _, a := range rec.Args {
			if a == nil || a.Cell == nil {
				continue
			}
			seq, okk := r.In.seqOf(a)
			if !okk || len(seq) != 4 {
				continue
			}
			var got []string
			good4 := true
			for i, s := range seq {
				p, d := s.Definite()
				got = append(got, s.short(1))
				if !d || p != strings.TrimSuffix(fam[i], "[]") {
					good4 = false
				}
			}
			if !rec.Must {
				return []Obligation{bad(key, desc, "the call to FRI verification is conditional", r.site(rec))}
			}
			if good4 {
				return []Obligation{good(key, desc, r.site(rec))}
			}
			return []Obligation{bad(key, desc, fmt.Sprintf("content sequence is %v", got), r.site(rec))}
		}
	}
	return []Obligation{bad(key, desc, "no call to fri.Chip.VerifyFriProof with a four-element caps slice found in Verify")}
}

// ---------------------------------------------------------------- C13

func rulesC13(cx *Ctx) []Obligation {
	r := cx.verify()
	if r == nil {
		return []Obligation{undecided("C13/anchor", "entry VerifierChip.Verify exists", "not found")}
	}
	obs := engineNotes(r, "C13")
	proof := r.ParamRoot("variables.Proof")
	qr := proof + ".OpeningProof.QueryRoundProofs"
	evals := qr + "[].Steps[].Evals[]"
	initDeps := []string{qr + "[].InitialTreesProof.EvalsProofs[].Elements", proof + ".Openings.Wires", proof + ".Openings.PlonkZsNext", proof + ".OpeningProof.PowWitness"}
	for _, c := range []string{"0", "1"} {
		// O13.1 fold consistency
		key := "C13/O13.1/fold-consistency/coord=" + c
		desc := "per query round and reduction step, the claimed evaluation at the query's own coset position (a bit-selected element of the step's evaluations, this coordinate) is asserted equal to the running evaluation, which derives from the initial-tree evaluations, the openings and the transcript"
		var diag []string
		matched := false
		for _, rec := range r.Recs {
			if rec.Kind != "eq" || len(rec.Args) != 2 {
				continue
			}
			for _, pair := range [][2]*Val{{rec.Args[0], rec.Args[1]}, {rec.Args[1], rec.Args[0]}} {
				sel, run := pair[0], pair[1]
				isSel, conds, _ := selectionOf(sel, evals+"["+c+"].Limb")
				if !isSel {
					continue
				}
				site := r.site(rec)
				nb := 0
				for _, cd := range conds {
					if strings.HasPrefix(cd, "X:ToBinary@") {
						nb++
					}
				}
				if nb < 4 {
					diag = append(diag, fmt.Sprintf("%s: the selection is not driven by four query-index bits (%v)", site, conds))
					continue
				}
				if !rec.Must {
					diag = append(diag, site+": the equality does not execute for every step")
					continue
				}
				if okk, miss := r.depsHaveAll(run, initDeps...); !okk {
					diag = append(diag, site+": the running evaluation does not depend on "+miss)
					continue
				}
				lok := true
				for _, lp := range []string{qr, qr + "[].Steps"} {
					if okk, why := r.loopOver(rec, lp); !okk {
						diag = append(diag, site+": "+why)
						lok = false
					}
				}
				if !lok {
					continue
				}
				matched = true
				obs = append(obs, good(key, desc, site))
			}
		}
		if !matched {
			if len(diag) == 0 {
				diag = []string{"no equality between a bit-selected evaluation (coordinate " + c + ") and the running evaluation"}
			}
			obs = append(obs, bad(key, desc, strings.Join(diag, " | ")))
		}
		// O13.2 final polynomial
		key = "C13/O13.2/final-poly/coord=" + c
		desc = "per query round, after all steps, the running evaluation (this coordinate) is asserted equal to the final polynomial evaluated at the folded point"
		diag = nil
		matched = false
		for _, rec := range r.Recs {
			if rec.Kind != "eq" || len(rec.Args) != 2 {
				continue
			}
			for _, pair := range [][2]*Val{{rec.Args[0], rec.Args[1]}, {rec.Args[1], rec.Args[0]}} {
				fin, run := pair[0], pair[1]
				if !r.depsHave(fin, proof+".OpeningProof.FinalPoly.Coeffs") || r.depsHave(fin, qr+"[].Steps") || len(fin.Dir) > 0 {
					continue
				}
				// coordinate: identified by the boundary component of the derived equality sink, or by From markers
				if !coordIs(fin, c) || !coordIs(run, c) {
					continue
				}
				site := r.site(rec)
				if !rec.Must {
					diag = append(diag, site+": conditional")
					continue
				}
				if !r.depsHave(fin, r.bitsRoot()) {
					diag = append(diag, site+": the final-polynomial evaluation does not depend on the query point")
					continue
				}
				if okk, miss := r.depsHaveAll(run, qr+"[].Steps[].Evals", qr+"[].InitialTreesProof.EvalsProofs[].Elements"); !okk {
					diag = append(diag, site+": the compared running evaluation does not depend on "+miss)
					continue
				}
				if okk, why := r.loopOver(rec, qr); !okk {
					diag = append(diag, site+": "+why)
					continue
				}
				matched = true
				obs = append(obs, good(key, desc, site))
			}
		}
		if !matched {
			if len(diag) == 0 {
				diag = []string{"no equality between the running evaluation and a value depending on FinalPoly.Coeffs for coordinate " + c}
			}
			obs = append(obs, bad(key, desc, strings.Join(diag, " | ")))
		}
	}
	// O13.3 invertibility assertions
	for _, w := range []struct {
		key, desc string
		inStep    bool
	}{
		{"C13/O13.3/inv-denominator", "per query round and opening batch, the inverse of (x − ζ·…) is asserted to exist (hasInv == 1)", false},
		{"C13/O13.3/inv-weights", "per step and interpolation point, the inverse of the barycentric weight is asserted to exist (hasInv == 1)", true},
	} {
		matched := false
		var diag []string
		for _, rec := range r.Recs {
			if rec.Kind != "eq" || len(rec.Args) != 2 {
				continue
			}
			for _, pair := range [][2]*Val{{rec.Args[0], rec.Args[1]}, {rec.Args[1], rec.Args[0]}} {
				one := constOf(pair[1])
				if one == nil || one.Cmp(bigOne) != 0 || !r.hasTag(pair[0], "InverseExtension") || len(pair[0].Dir) > 0 {
					continue
				}
				inStep, _ := r.loopOver(rec, qr+"[].Steps")
				if inStep != w.inStep {
					continue
				}
				site := r.site(rec)
				if !rec.Must {
					diag = append(diag, site+": conditional")
					continue
				}
				if okk, why := r.loopOver(rec, qr); !okk {
					diag = append(diag, site+": "+why)
					continue
				}
				inner := rec.Loops[len(rec.Loops)-1]
				if okk, why := r.loopFullAny(inner, rec); !okk {
					diag = append(diag, site+": "+why)
					continue
				}
				if !r.depsHave(pair[0], r.bitsRoot()) {
					diag = append(diag, site+": the inverted value does not depend on the query point")
					continue
				}
				matched = true
				obs = append(obs, good(w.key, w.desc, site))
			}
		}
		if !matched {
			if len(diag) == 0 {
				diag = []string{"no must-executed assertion hasInv == 1 on the second result of an extension inversion in this context"}
			}
			obs = append(obs, bad(w.key, w.desc, strings.Join(diag, " | ")))
		}
	}
	// O13.4 rounds
	key := "C13/O13.4/rounds"
	desc := "the per-round verification is called on every path inside a loop that visits every query index, co-indexed with the query round proofs (equal lengths are enforced by a refusal)"
	found := false
	for _, rec := range r.Recs {
		if rec.Kind == "tobin" && rec.Must {
			if okk, _ := r.loopOver(rec, qr); okk && len(rec.Loops) == 1 {
				found = true
				obs = append(obs, good(key, desc, r.site(rec)))
				break
			}
		}
	}
	if !found {
		obs = append(obs, bad(key, desc, "the loop over query rounds does not cover every round (start, bound, early exit) or the length equality guard is missing"))
	}
	obs = append(obs, ruleBatchShift(cx)...)
	obs = append(obs, ruleRunningEvaluation(cx)...)
	return obs
}

// ruleBatchShift (O13.5): when the initial-tree evaluations are combined batch by batch, the running sum is shifted
// by α^(number of evaluations reduced in this batch): the exponent handed to ExpExtension is the length of the very
// slice handed to ReduceWithPowers (or of the batch's polynomial list it is built from), with the same α.
func ruleBatchShift(cx *Ctx) []Obligation {
	key := "C13/O13.5/batch-shift"
	desc := "between opening batches the running sum is multiplied by α^n with n the number of evaluations reduced in that batch (length of the slice given to ReduceWithPowers, same α), so batches do not share powers of α"
	r := cx.Entry("fri", "(*Chip).friCombineInitial")
	if r == nil {
		return []Obligation{undecided(key, desc, "fri.Chip.friCombineInitial not found")}
	}
	P := cx.P
	rwp := P.Func("goldilocks", "(*Chip).ReduceWithPowers")
	exp := P.Func("goldilocks", "(*Chip).ExpExtension")
	var red, ex []*Rec
	for _, rec := range r.Recs {
		if rec.Kind != "call" || len(rec.Chain) != 0 {
			continue
		}
		if rec.Callee == rwp && rwp != nil {
			red = append(red, rec)
		}
		if rec.Callee == exp && exp != nil {
			ex = append(ex, rec)
		}
	}
	if len(red) != 1 || len(ex) != 1 || len(red[0].Args) < 3 || len(ex[0].Args) < 3 {
		return []Obligation{undecided(key, desc, fmt.Sprintf("%d ReduceWithPowers / %d ExpExtension calls in friCombineInitial (expected one each)", len(red), len(ex)))}
	}
	rd, e := red[0], ex[0]
	site := r.site(e)
	if !rd.Must || !e.Must || len(rd.Loops) == 0 || len(e.Loops) == 0 || rd.Loops[len(rd.Loops)-1] != e.Loops[len(e.Loops)-1] {
		return []Obligation{bad(key, desc, "the reduction and the shift do not both execute in every iteration of the same batch loop", site)}
	}
	a1, ok1 := rd.Args[2].Definite()
	a2, ok2 := e.Args[1].Definite()
	if !ok1 || !ok2 || a1 != a2 {
		return []Obligation{bad(key, desc, "the shift does not use the same α as the reduction", site)}
	}
	coll := rd.Args[1]
	n := e.Args[2]
	want := ""
	if coll != nil && coll.Cell != nil {
		want = coll.Cell.find().Tag + coll.CSel
	}
	okk := false
	if n != nil && want != "" {
		for _, l := range n.LenOf {
			if l == want {
				okk = true
			}
		}
		if n.Aux != nil && n.Aux.Cell != nil && coll.Cell != nil && n.Aux.Cell.find() == coll.Cell.find() && baseSel(n.Aux.CSel) == baseSel(coll.CSel) {
			okk = true
		}
	}
	// equivalent: the length of the batch's polynomial list, when the slice holds one evaluation per polynomial
	if !okk && n != nil && len(n.LenOf) == 1 && strings.HasSuffix(n.LenOf[0], "].Polynomials") && coll != nil && coll.Cell != nil {
		iv := fmt.Sprintf("[iv%d].Polynomials", e.Loops[len(e.Loops)-1])
		if strings.HasSuffix(n.LenOf[0], iv) {
			okk = true
		}
	}
	if !okk {
		got := "?"
		if n != nil {
			got = n.short(2)
		}
		return []Obligation{bad(key, desc, "the exponent of α is "+got+", not the number of evaluations reduced in this batch", site)}
	}
	return []Obligation{good(key, desc, site)}
}

var bigOne = func() *big.Int { return big.NewInt(1) }()

// coordIs: the value is coordinate c of an extension element (from the markers left by loads / boundary args).
func coordIs(v *Val, c string) bool {
	for _, l := range [][]string{v.From, v.bnd} {
		for _, f := range l {
			if strings.HasSuffix(f, "["+c+"].Limb") || strings.HasSuffix(f, "["+c+"]") {
				return true
			}
		}
	}
	return false
}

// ---------------------------------------------------------------- C16

func rulesC16(cx *Ctx) []Obligation {
	r := cx.verify()
	if r == nil {
		return []Obligation{undecided("C16/anchor", "entry VerifierChip.Verify exists", "not found")}
	}
	obs := engineNotes(r, "C16")
	proof := r.ParamRoot("variables.Proof")
	op := proof + ".Openings."
	lhsDeps := []string{op + "Wires", op + "PlonkSigmas", op + "PlonkZs", op + "PlonkZsNext", op + "PartialProducts", op + "Constants", "publicInputs", proof + ".WiresCap", proof + ".QuotientPolysCap"}
	for _, c := range []string{"0", "1"} {
		key := "C16/O16.1/identity/coord=" + c
		desc := "for every challenge round (a full-range loop over the vanishing values, whose count is Config.NumChallenges), the combined vanishing value — depending on gate constraints, wires, sigmas, Z, Z(next), partial products, public-input hash and the challenges — is asserted equal (this coordinate) to Z_H(ζ) times the quotient reconstructed from QuotientPolys"
		var diag []string
		matched := false
		for _, rec := range r.Recs {
			if rec.Kind != "eq" || len(rec.Args) != 2 {
				continue
			}
			for _, pair := range [][2]*Val{{rec.Args[0], rec.Args[1]}, {rec.Args[1], rec.Args[0]}} {
				van, quo := pair[0], pair[1]
				if !r.depsHave(quo, op+"QuotientPolys") || r.depsHave(quo, op+"PlonkSigmas") || !r.depsHave(van, op+"PlonkSigmas") {
					continue
				}
				if !coordIs(van, c) || !coordIs(quo, c) {
					continue
				}
				site := r.site(rec)
				if !rec.Must {
					diag = append(diag, site+": the assertion is conditional or skipped for some rounds")
					continue
				}
				if okk, miss := r.depsHaveAll(van, lhsDeps...); !okk {
					diag = append(diag, site+": the vanishing value does not depend on "+miss)
					continue
				}
				if !r.hasTag(quo, "ReduceWithPowers") {
					diag = append(diag, site+": the quotient is not reconstructed from its chunks in powers of ζ^n")
					continue
				}
				// coverage: the innermost enclosing loop ranges over the slice the vanishing value is loaded from
				if len(rec.Loops) == 0 {
					diag = append(diag, site+": not inside a loop over the challenge rounds")
					continue
				}
				id := rec.Loops[len(rec.Loops)-1]
				ld := r.In.Loops[id]
				cov := false
				if okk, why := r.loopFullAny(id, rec); !okk {
					diag = append(diag, site+": "+why)
					continue
				}
				for _, f := range van.From {
					if strings.HasPrefix(f, ld.Bound.LenOf[0]+fmt.Sprintf("[iv%d]", id)) {
						cov = true
					}
				}
				if !cov {
					diag = append(diag, site+": the asserted vanishing value is not element [i] of the collection the loop ranges over")
					continue
				}
				if !strings.HasSuffix(symOf(ld.Bound), ".Config.NumChallenges") {
					diag = append(diag, site+": the number of vanishing values is "+boundStr(ld.Bound)+", not Config.NumChallenges")
					continue
				}
				matched = true
				obs = append(obs, good(key, desc, site))
			}
		}
		if !matched {
			if len(diag) == 0 {
				diag = []string{"no equality between the vanishing value and Z_H·quotient for coordinate " + c}
			}
			obs = append(obs, bad(key, desc, strings.Join(diag, " | ")))
		}
	}
	// O16.4 one formula for every ζ: no data-dependent case split in the PLONK evaluation
	{
		k := "C16/O16.4/uniform-evaluation"
		d := "the vanishing identity is evaluated by one formula for every ζ, as in plonky2's circuit: on the paths from PlonkChip.Verify (outside the gate evaluators) no value is selected by a zero test or a bit (gl.Chip.IsZero / Lookup / Lookup2, api.Select / IsZero): a special case changes the polynomial that is checked at the points where it triggers"
		var hits []string
		for _, rec := range r.Recs {
			if rec.Kind != "call" || rec.Callee == nil || len(rec.Chain) == 0 {
				continue
			}
			inPlonk, inGates := false, false
			for _, c := range rec.Chain {
				if fnPkgShort(c.Callee) == "plonk" {
					inPlonk = true
				}
				if fnPkgShort(c.Callee) == "plonk/gates" {
					inGates = true
				}
			}
			if !inPlonk || inGates || fnPkgShort(rec.Fn) != "plonk" {
				continue
			}
			switch rec.Callee.Name() {
			case "IsZero", "Lookup", "Lookup2", "Select":
				hits = append(hits, r.site(rec)+" calls "+rec.Callee.Name())
			}
		}
		if len(hits) > 0 {
			obs = append(obs, bad(k, d, strings.Join(hits, " | ")))
		} else {
			obs = append(obs, good(k, d, "no selection in "+proof+"-independent PLONK evaluation code (plonk package)"))
		}
	}
	key := "C16/O16.2/l0-denominator"
	desc := "the division by n·(ζ − 1) in L₀(ζ) asserts that the quotient exists (hasQuotient == 1)"
	found := false
	for _, rec := range r.Recs {
		if rec.Kind != "eq" || !rec.Must || len(rec.Args) != 2 {
			continue
		}
		for _, pair := range [][2]*Val{{rec.Args[0], rec.Args[1]}, {rec.Args[1], rec.Args[0]}} {
			one := constOf(pair[1])
			if one != nil && one.Cmp(bigOne) == 0 && r.hasTag(pair[0], "DivExtension") && !r.depsHave(pair[0], r.bitsRoot()) && len(rec.Loops) == 0 {
				found = true
				obs = append(obs, good(key, desc, r.site(rec)))
			}
		}
	}
	if !found {
		obs = append(obs, bad(key, desc, "no must-executed assertion on the existence flag of the L₀ division"))
	}
	return obs
}

// bitsRoot: the access-path root of the per-round query-index bit decomposition.
func (r *Run) bitsRoot() string {
	for _, rec := range r.Recs {
		if rec.Kind == "tobin" && rec.Must && len(rec.Loops) == 1 && len(rec.Args) > 0 && r.hasTag(rec.Args[0], "Reduce") {
			return "X:ToBinary@" + r.In.P.Pos(rec.Site)
		}
	}
	return "X:ToBinary@?"
}

// debugGuards lists the normalised refusal guards reachable from an entry (development aid).
func debugGuards(cx *Ctx, pkg, fn string) {
	r := cx.Entry(pkg, fn)
	if r == nil {
		fmt.Println("no entry")
		return
	}
	for _, g := range r.guards() {
		m := "may "
		if g.rec.Must {
			m = "MUST"
		}
		xd, yd := descr(g.x), descr(g.y)
		fmt.Printf("%s %s  [%s] %s [%s]   xdeps=%v ydeps=%v\n", m, r.site(g.rec), xd, g.op, yd, depNames(r, g.x), depNames(r, g.y))
	}
}

func depNames(r *Run, v *Val) []string {
	if v == nil {
		return nil
	}
	n := r.In.Atoms.Names(r.In.AllDeps(v))
	if len(n) > 6 {
		n = append(n[:6], "…")
	}
	return n
}
