package main

// Abstract values of the origin / dependency analysis (E2's data domain).

import (
	"fmt"
	"go/constant"
	"go/token"
	"hash/fnv"
	"regexp"
	"sort"
	"strings"

	"golang.org/x/tools/go/ssa"
)

// ---------------------------------------------------------------- atoms (dependency universe)

type Bits []uint64

func (b Bits) Has(i int) bool { return i/64 < len(b) && b[i/64]&(1<<uint(i%64)) != 0 }
func (b Bits) With(i int) Bits {
	if b.Has(i) {
		return b
	}
	n := i/64 + 1
	if n < len(b) {
		n = len(b)
	}
	c := make(Bits, n)
	copy(c, b)
	c[i/64] |= 1 << uint(i%64)
	return c
}
func (b Bits) Or(o Bits) Bits {
	if len(o) == 0 {
		return b
	}
	if len(b) == 0 {
		return o
	}
	sub := true
	for i, w := range o {
		if i >= len(b) || b[i]|w != b[i] {
			sub = false
			break
		}
	}
	if sub {
		return b
	}
	n := len(b)
	if len(o) > n {
		n = len(o)
	}
	c := make(Bits, n)
	copy(c, b)
	for i, w := range o {
		c[i] |= w
	}
	return c
}
func (b Bits) Empty() bool {
	for _, w := range b {
		if w != 0 {
			return false
		}
	}
	return true
}
func (b Bits) Intersects(o Bits) bool {
	for i, w := range o {
		if i < len(b) && b[i]&w != 0 {
			return true
		}
	}
	return false
}
func (b Bits) List() []int {
	var out []int
	for i, w := range b {
		for j := 0; j < 64; j++ {
			if w&(1<<uint(j)) != 0 {
				out = append(out, i*64+j)
			}
		}
	}
	return out
}

type AtomTable struct {
	ids   map[string]int
	names []string
}

func (t *AtomTable) ID(s string) int {
	if id, ok := t.ids[s]; ok {
		return id
	}
	if t.ids == nil {
		t.ids = map[string]int{}
	}
	id := len(t.names)
	t.ids[s] = id
	t.names = append(t.names, s)
	return id
}
func (t *AtomTable) Name(i int) string { return t.names[i] }
func (t *AtomTable) Names(b Bits) []string {
	var out []string
	for _, i := range b.List() {
		out = append(out, t.names[i])
	}
	sort.Strings(out)
	return out
}

// genPath generalises the index selectors of an access path: P.a[iv3].b[7] → P.a[*].b[*]
func genPath(p string) string {
	if !strings.Contains(p, "[") {
		return p
	}
	var sb strings.Builder
	i := 0
	for i < len(p) {
		if p[i] == '[' {
			j := strings.IndexByte(p[i:], ']')
			if strings.HasPrefix(p[i:], "[k=") {
				sb.WriteString(p[i : i+j+1]) // constant map keys are kept
			} else {
				sb.WriteString("[*]")
			}
			i += j + 1
			continue
		}
		sb.WriteByte(p[i])
		i++
	}
	return sb.String()
}

// ---------------------------------------------------------------- expressions (depth-limited shapes of circuit values)

type Expr struct {
	Op   string // API method name (Add, Mul, Select, IsZero, …), "hint", "const", "leaf"
	Args []*Val
	Site token.Pos
}

func (e *Expr) str(depth int) string {
	if e == nil {
		return ""
	}
	if depth <= 0 {
		return e.Op + "(…)"
	}
	var parts []string
	for _, a := range e.Args {
		parts = append(parts, a.short(depth-1))
	}
	return e.Op + "(" + strings.Join(parts, ",") + ")"
}

// ---------------------------------------------------------------- values

type Cell struct {
	ID      int
	Name    string
	Content *Val // tree of what was stored (weak updates)
	Ver     int
	LenVal  *Val   // for make([]T, n): n
	Alias   *Cell  // union-find parent: two cells that may be the same object were merged
	Tag     string // stable name (function + SSA value), used in From / LenOf markers
	TypeTag string // for locals of a raw decoder struct type: "t:<pkg>.<Type>" — a From marker that survives calls
	Site    token.Pos
}

type BinInfo struct {
	Op   token.Token
	X, Y *Val
	Not  *Val // for !x
}

type Val struct {
	Dir   []string // sorted: the value may be (a copy of) the data at one of these access paths
	Mixed bool     // …or something else that Dir does not describe
	From  []string // sorted: loaded from these local-cell paths (C12[iv3])
	Deps  Bits     // own may-dependencies (children carry theirs)
	K     constant.Value
	Sym   string
	LenOf []string
	Kids  map[string]*Val
	Cell  *Cell // pointer / slice / map referring to a local cell
	CSel  string
	Fn    *ssa.Function
	Bound []*Val
	Ex    *Expr
	Bin   *BinInfo
	Seq   []*Val // definite content sequence of a slice (nil = unknown)
	SeqOK bool
	exd   int      // depth of Ex
	Aux   *Val     // for len(x): the collection x (rules inspect what it contains)
	bnd   []string // sorted: component paths of the arguments of the call that entered the gadget layer
	fp    uint64
	fpOK  bool
}

func (v *Val) short(depth int) string {
	if v == nil {
		return "⊥"
	}
	var parts []string
	if v.K != nil {
		s := v.K.ExactString()
		if len(s) > 40 {
			s = s[:40] + "…"
		}
		parts = append(parts, "K="+s)
	}
	if len(v.Dir) > 0 {
		d := v.Dir
		if len(d) > 4 {
			d = append(append([]string{}, d[:4]...), fmt.Sprintf("…+%d", len(v.Dir)-4))
		}
		parts = append(parts, "dir{"+strings.Join(d, ",")+"}")
	}
	if v.Mixed {
		parts = append(parts, "mixed")
	}
	if len(v.From) > 0 {
		parts = append(parts, "from{"+strings.Join(v.From, ",")+"}")
	}
	if v.Sym != "" && v.K == nil {
		parts = append(parts, "sym="+v.Sym)
	}
	if v.Ex != nil {
		parts = append(parts, v.Ex.str(depth))
	}
	if v.Cell != nil {
		parts = append(parts, fmt.Sprintf("&c%d%s", v.Cell.ID, v.CSel))
	}
	if v.Fn != nil {
		parts = append(parts, "fn:"+v.Fn.Name())
	}
	if len(v.Kids) > 0 {
		parts = append(parts, fmt.Sprintf("kids=%d", len(v.Kids)))
	}
	if len(parts) == 0 {
		return "·"
	}
	return strings.Join(parts, " ")
}

func (v *Val) String() string { return v.short(3) }

// Bnd: the value is (a component / selection of) these boundary-argument paths.
func (v *Val) Bnd() []string {
	if v == nil {
		return nil
	}
	return v.bnd
}

func sortedUnion(a, b []string) []string {
	if len(b) == 0 {
		return a
	}
	if len(a) == 0 {
		return b
	}
	out := make([]string, 0, len(a)+len(b))
	i, j := 0, 0
	for i < len(a) && j < len(b) {
		switch {
		case a[i] == b[j]:
			out = append(out, a[i])
			i++
			j++
		case a[i] < b[j]:
			out = append(out, a[i])
			i++
		default:
			out = append(out, b[j])
			j++
		}
	}
	out = append(out, a[i:]...)
	out = append(out, b[j:]...)
	if len(out) == len(a) {
		return a
	}
	return out
}

const maxDir = 96

// AllDeps returns own and children's dependencies (and the atoms of the direct paths).
func (in *Interp) AllDeps(v *Val) Bits {
	if v == nil {
		return nil
	}
	return in.allDeps(v, 0)
}

func (in *Interp) allDeps(v *Val, depth int) Bits {
	if v == nil || depth > 12 {
		return nil
	}
	d := v.Deps
	for _, p := range v.Dir {
		d = d.With(in.Atoms.ID(genPath(p)))
	}
	for _, k := range v.Kids {
		d = d.Or(in.allDeps(k, depth+1))
	}
	for _, s := range v.Seq {
		d = d.Or(in.allDeps(s, depth+1))
	}
	for _, b := range v.Bound {
		d = d.Or(in.allDeps(b, depth+1))
	}
	if v.Cell != nil && v.Cell.Content != nil && depth < 6 {
		d = d.Or(in.allDeps(in.cellRead(v.Cell, v.CSel), depth+1))
	}
	return d
}

func constEq(a, b constant.Value) bool {
	if a == nil || b == nil {
		return a == nil && b == nil
	}
	if a.Kind() != b.Kind() {
		return false
	}
	return constant.Compare(a, token.EQL, b)
}

// Join is the least upper bound (may-union). nil is bottom.
func (in *Interp) Join(a, b *Val) *Val {
	if a == nil {
		return b
	}
	if b == nil || a == b {
		return a
	}
	r := &Val{}
	r.Dir = sortedUnion(a.Dir, b.Dir)
	r.Mixed = a.Mixed || b.Mixed
	// a value that is described by no path and no children is "something computed"
	if (len(a.Dir) == 0 && len(a.Kids) == 0 && a.Cell == nil) != (len(b.Dir) == 0 && len(b.Kids) == 0 && b.Cell == nil) {
		r.Mixed = true
	}
	if len(r.Dir) > maxDir {
		for _, p := range r.Dir {
			r.Deps = r.Deps.With(in.Atoms.ID(genPath(p)))
		}
		r.Dir = nil
		r.Mixed = true
	}
	r.From = sortedUnion(a.From, b.From)
	if len(r.From) > maxDir {
		r.From = nil
	}
	if len(a.bnd) > 0 && len(b.bnd) > 0 {
		r.bnd = sortedUnion(a.bnd, b.bnd)
		if len(r.bnd) > maxDir {
			r.bnd = nil
		}
	}
	r.Deps = r.Deps.Or(a.Deps).Or(b.Deps)
	if constEq(a.K, b.K) {
		r.K = a.K
	}
	if a.Sym == b.Sym {
		r.Sym = a.Sym
	}
	r.LenOf = sortedUnion(a.LenOf, b.LenOf)
	if len(a.Kids) > 0 || len(b.Kids) > 0 {
		r.Kids = map[string]*Val{}
		for k, x := range a.Kids {
			r.Kids[k] = x
		}
		for k, y := range b.Kids {
			r.Kids[k] = in.Join(r.Kids[k], y)
		}
	}
	if a.Cell != nil {
		a.Cell = a.Cell.find()
	}
	if b.Cell != nil {
		b.Cell = b.Cell.find()
	}
	switch {
	case a.Cell == b.Cell && a.CSel == b.CSel:
		r.Cell, r.CSel = a.Cell, a.CSel
	case a.Cell == b.Cell && a.Cell != nil && baseSel(a.CSel) == baseSel(b.CSel):
		r.Cell, r.CSel = a.Cell, a.CSel
		if len(b.CSel) > len(a.CSel) {
			r.CSel = b.CSel // the view that is marked as a sub-slice wins (conservative for coverage)
		}
	case a.Cell != nil && b.Cell == nil && len(b.Dir) == 0 && len(b.Kids) == 0:
		r.Cell, r.CSel = a.Cell, a.CSel // nil-slice ⊔ slice
	case b.Cell != nil && a.Cell == nil && len(a.Dir) == 0 && len(a.Kids) == 0:
		r.Cell, r.CSel = b.Cell, b.CSel
	case a.Cell != nil && b.Cell != nil && baseSel(a.CSel) == baseSel(b.CSel):
		// a pointer to either of two cells: merge the cells (they are one abstract object from now on)
		r.Cell, r.CSel = in.mergeCells(a.Cell, b.Cell), a.CSel
		if len(b.CSel) > len(a.CSel) {
			r.CSel = b.CSel
		}
	case a.Cell != nil && b.Cell != nil:
		r.Cell, r.CSel = a.Cell, a.CSel
		r.Deps = r.Deps.Or(in.AllDeps(b))
		r.Mixed = true
	case a.Cell != nil:
		r.Cell, r.CSel = a.Cell, a.CSel
		r.Mixed = true
	case b.Cell != nil:
		r.Cell, r.CSel = b.Cell, b.CSel
		r.Mixed = true
	}
	if a.Fn == b.Fn {
		r.Fn = a.Fn
		r.Bound = a.Bound
	}
	if a.Ex == b.Ex {
		r.Ex = a.Ex
		r.exd = a.exd
	} else if a.Ex != nil && b.Ex != nil && a.Ex.Site == b.Ex.Site && a.Ex.Op == b.Ex.Op && len(a.Ex.Args) == len(b.Ex.Args) {
		e := &Expr{Op: a.Ex.Op, Site: a.Ex.Site}
		for i := range a.Ex.Args {
			e.Args = append(e.Args, in.Join(a.Ex.Args[i], b.Ex.Args[i]))
		}
		r.Ex = e
		r.exd = a.exd
		if b.exd > r.exd {
			r.exd = b.exd
		}
	}
	if a.Bin == b.Bin {
		r.Bin = a.Bin
	}
	if a.SeqOK && b.SeqOK && len(a.Seq) == len(b.Seq) {
		same := true
		for i := range a.Seq {
			if in.FP(a.Seq[i]) != in.FP(b.Seq[i]) {
				same = false
			}
		}
		if same {
			r.Seq, r.SeqOK = a.Seq, true
		}
	}
	return r
}

// Narrow selects a component (".Field", "[3]", "[iv7]", "[?]", "#1") of an aggregate value.
func (in *Interp) Narrow(v *Val, sel string) *Val {
	if v == nil {
		return nil
	}
	var r *Val
	found := false
	if len(v.Kids) > 0 {
		if strings.HasPrefix(sel, "[") {
			_, isConst := selConstIndex(sel)
			for k, kid := range v.Kids {
				if !strings.HasPrefix(k, "[") {
					continue
				}
				if k == sel || k == "[*]" || !isConst {
					r = in.Join(r, kid)
					found = true
				} else if _, kc := selConstIndex(k); !kc {
					r = in.Join(r, kid)
					found = true
				}
			}
		} else if kid, ok := v.Kids[sel]; ok {
			r = in.Join(r, kid)
			found = true
		}
	}
	if r == nil {
		r = &Val{}
	} else {
		// r may alias a child: copy before adding
		c := *r
		c.fpOK = false
		r = &c
	}
	if len(v.Dir) > 0 {
		ext := make([]string, len(v.Dir))
		for i, p := range v.Dir {
			ext[i] = p + sel
		}
		sort.Strings(ext)
		r.Dir = sortedUnion(r.Dir, ext)
		if found {
			r.Mixed = true
		}
	}
	if len(v.From) > 0 {
		ext := make([]string, len(v.From))
		for i, p := range v.From {
			ext[i] = p + sel
		}
		sort.Strings(ext)
		r.From = sortedUnion(r.From, ext)
	}
	if len(v.bnd) > 0 {
		ext := make([]string, len(v.bnd))
		for i, p := range v.bnd {
			ext[i] = p + sel
		}
		sort.Strings(ext)
		r.bnd = ext // the narrowed value is that component of v, whatever the child carried before
	}
	if v.Mixed || (!found && len(v.Dir) == 0) {
		r.Mixed = true
	}
	if v.Mixed || !found {
		r.Deps = r.Deps.Or(v.Deps)
	}
	if v.SeqOK && strings.HasPrefix(sel, "[") {
		if k, ok := selConstIndex(sel); ok && !found && len(v.Dir) == 0 {
			// index into a definite sequence of single elements
			pos := 0
			for _, s := range v.Seq {
				if s.SeqOK { // embedded whole slice: length unknown, stop
					break
				}
				if pos == k {
					return s
				}
				pos++
			}
		}
		if !found && len(v.Dir) == 0 {
			for _, s := range v.Seq {
				if s.SeqOK {
					r = in.Join(r, in.Narrow(s, "[?]"))
				} else {
					r = in.Join(r, s)
				}
			}
		}
	}
	if v.Cell != nil && strings.HasPrefix(sel, "[") {
		// element of a slice that refers to a local cell
		c := in.cellRead(v.Cell, v.CSel+sel)
		r = in.Join(r, c)
	}
	return r
}

func selConstIndex(sel string) (int, bool) {
	if len(sel) < 3 || sel[0] != '[' {
		return 0, false
	}
	n := 0
	for _, ch := range sel[1 : len(sel)-1] {
		if ch < '0' || ch > '9' {
			return 0, false
		}
		n = n*10 + int(ch-'0')
	}
	return n, true
}

// splitSel splits a selector string ".a[3].b" into components.
func baseSel(sel string) string {
	if !strings.Contains(sel, "[s:") {
		return sel
	}
	return strings.Join(dropSliceSels(splitSel(sel)), "")
}

func dropSliceSels(sels []string) []string {
	out := sels[:0:0]
	for _, s := range sels {
		if !strings.HasPrefix(s, "[s:") {
			out = append(out, s)
		}
	}
	return out
}

func splitSel(s string) []string {
	var out []string
	i := 0
	for i < len(s) {
		j := i + 1
		if s[i] == '[' {
			for j < len(s) && s[j-1] != ']' {
				j++
			}
		} else {
			for j < len(s) && s[j] != '.' && s[j] != '[' && s[j] != '#' {
				j++
			}
		}
		out = append(out, s[i:j])
		i = j
	}
	return out
}

func (c *Cell) find() *Cell {
	for c.Alias != nil {
		c = c.Alias
	}
	return c
}

func (in *Interp) mergeCells(a, b *Cell) *Cell {
	a, b = a.find(), b.find()
	if a == b {
		return a
	}
	if b.ID < a.ID {
		a, b = b, a
	}
	before := in.FP(a.Content)
	a.Content = in.Join(a.Content, b.Content)
	if a.LenVal == nil || b.LenVal == nil {
		a.LenVal = nil // an unknown length (appended to, or not made here) stays unknown when merged with a known one
	} else if in.FP(a.LenVal) != in.FP(b.LenVal) {
		a.LenVal = in.Join(a.LenVal, b.LenVal)
	}
	b.Alias = a
	b.Content = nil
	if in.FP(a.Content) != before {
		a.Ver++
		in.markChanged(a.ID)
	}
	return a
}

func (in *Interp) cellRead(c *Cell, sel string) *Val {
	c = c.find()
	v := c.Content
	for _, s := range dropSliceSels(splitSel(sel)) {
		if v == nil {
			break
		}
		v = in.Narrow(v, s)
	}
	if v == nil {
		v = &Val{}
	}
	r := *v
	r.fpOK = false
	if strings.Contains(r.Sym, "iv@") {
		ss := splitSel(sel)
		last := ""
		if len(ss) > 0 {
			last = ss[len(ss)-1]
		}
		switch {
		case strings.HasPrefix(last, "[iv"):
			r.Sym = strings.ReplaceAll(r.Sym, "iv@", last[1:len(last)-1])
		default:
			r.Sym = ""
		}
	}
	r.From = sortedUnion(r.From, []string{c.Tag + sel})
	if c.TypeTag != "" {
		r.From = sortedUnion(r.From, []string{c.TypeTag + strings.Join(dropSliceSels(splitSel(sel)), "")})
	}
	return &r
}

func (in *Interp) cellWrite(c *Cell, sel string, x *Val) {
	if x == nil {
		return
	}
	c = c.find()
	before := in.FP(c.Content)
	// a table filled by its own index (t[k] = f(k)): the symbolic value is stored index-parametrically, so that a read
	// at t[j] yields f(j)
	if ss := splitSel(sel); len(ss) > 0 && x.Sym != "" {
		last := ss[len(ss)-1]
		if strings.HasPrefix(last, "[iv") {
			iv := last[1 : len(last)-1]
			if re := regexp.MustCompile(`\b` + iv + `\b`); re.MatchString(x.Sym) {
				cp := *x
				cp.fpOK = false
				cp.Sym = re.ReplaceAllString(x.Sym, "iv@")
				x = &cp
			}
		}
	}
	c.Content = in.writeAt(c.Content, dropSliceSels(splitSel(sel)), x)
	if in.FP(c.Content) != before {
		c.Ver++
		in.markChanged(c.ID)
	}
}

func (in *Interp) writeAt(tree *Val, sels []string, x *Val) *Val {
	if len(sels) == 0 {
		return in.Join(tree, x)
	}
	var r Val
	if tree != nil {
		r = *tree
		r.fpOK = false
	}
	kids := map[string]*Val{}
	for k, v := range r.Kids {
		kids[k] = v
	}
	s := sels[0]
	if strings.HasPrefix(s, "[") {
		if _, ok := selConstIndex(s); !ok {
			s = "[*]"
		}
	}
	kids[s] = in.writeAt(kids[s], sels[1:], x)
	r.Kids = kids
	r.SeqOK = false
	r.Seq = nil
	return &r
}

// FP is a structural fingerprint used for memoisation and change detection. Values that (transitively) refer
// to a local cell include the cell's version, so their fingerprint is never cached.
func (in *Interp) FP(v *Val) uint64 {
	h, _ := in.fp(v)
	return h
}

func (in *Interp) fp(v *Val) (uint64, bool) {
	if v == nil {
		return 0, true
	}
	if v.fpOK {
		return v.fp, true
	}
	cacheable := true
	h := fnv.New64a()
	w := func(s string) { h.Write([]byte(s)); h.Write([]byte{0}) }
	sub := func(x *Val) {
		f, c := in.fp(x)
		if !c {
			cacheable = false
		}
		var b [8]byte
		for i := 0; i < 8; i++ {
			b[i] = byte(f >> (8 * uint(i)))
		}
		h.Write(b[:])
	}
	for _, p := range v.Dir {
		w(p)
	}
	w("|")
	if v.Mixed {
		w("M")
	}
	for _, p := range v.From {
		w(p)
	}
	w("|")
	for _, p := range v.bnd {
		w(p)
	}
	w("|")
	for _, x := range v.Deps {
		var b [8]byte
		for i := 0; i < 8; i++ {
			b[i] = byte(x >> (8 * uint(i)))
		}
		h.Write(b[:])
	}
	if v.K != nil {
		w(v.K.ExactString())
	}
	w(v.Sym)
	for _, p := range v.LenOf {
		w(p)
	}
	if len(v.Kids) > 0 {
		keys := make([]string, 0, len(v.Kids))
		for k := range v.Kids {
			keys = append(keys, k)
		}
		sort.Strings(keys)
		for _, k := range keys {
			w(k)
			sub(v.Kids[k])
		}
	}
	if v.Cell != nil {
		fc := v.Cell.find()
		w(fmt.Sprintf("c%d%s", fc.ID, v.CSel))
		cacheable = false
		if in.fpVisit == nil {
			in.fpVisit = map[*Cell]bool{}
		}
		if !in.fpVisit[fc] {
			in.fpVisit[fc] = true
			sub(fc.Content)
			delete(in.fpVisit, fc)
		}
	}
	if v.Fn != nil {
		w(v.Fn.String())
		for _, b := range v.Bound {
			sub(b)
		}
	}
	if v.Ex != nil {
		w(v.Ex.Op)
		w(fmt.Sprintf("%d", v.Ex.Site))
		for _, a := range v.Ex.Args {
			sub(a)
		}
	}
	if v.SeqOK {
		w("seq")
		for _, s := range v.Seq {
			sub(s)
		}
	}
	r := h.Sum64()
	if cacheable {
		v.fp = r
		v.fpOK = true
	}
	return r, cacheable
}

// Singleton direct origin, if the value is definitely the data at exactly one access path.
func (v *Val) Definite() (string, bool) {
	if v != nil && len(v.Dir) == 1 && !v.Mixed && len(v.Kids) == 0 {
		return v.Dir[0], true
	}
	return "", false
}

// Dump prints the whole value tree (debugging).
func (in *Interp) Dump(v *Val, indent string, depth int) string {
	if v == nil {
		return indent + "⊥\n"
	}
	var sb strings.Builder
	sb.WriteString(indent + v.short(2))
	if d := in.Atoms.Names(v.Deps); len(d) > 0 {
		sb.WriteString(fmt.Sprintf(" owndeps=%v", d))
	}
	sb.WriteString(fmt.Sprintf(" exd=%d fp=%x\n", v.exd, in.FP(v)))
	if depth <= 0 {
		return sb.String()
	}
	if v.Ex != nil {
		for i, a := range v.Ex.Args {
			sb.WriteString(fmt.Sprintf("%s  ex.arg%d:\n", indent, i))
			sb.WriteString(in.Dump(a, indent+"    ", depth-1))
		}
	}
	if v.Cell != nil {
		sb.WriteString(fmt.Sprintf("%s  cell c%d (%s) content:\n", indent, v.Cell.ID, v.Cell.Tag))
		sb.WriteString(in.Dump(v.Cell.Content, indent+"    ", depth-1))
	}
	keys := make([]string, 0, len(v.Kids))
	for k := range v.Kids {
		keys = append(keys, k)
	}
	sort.Strings(keys)
	for _, k := range keys {
		sb.WriteString(indent + "  " + k + ":\n")
		sb.WriteString(in.Dump(v.Kids[k], indent+"    ", depth-1))
	}
	return sb.String()
}
