package main

// C20 — proof shapes inconsistent with the circuit description are refused: T3 guard table, keyed by the
// compared quantities (never by position), evaluated on the paths from the circuit entry points.

import (
	"fmt"
	"go/token"
	"regexp"
	"strings"
)

type guardSpec struct {
	key   string
	what  string
	op    token.Token    // condition under which execution continues (X op Y; symmetric ops match either order)
	x, y  *regexp.Regexp // over descr() of the two sides
	ydeps []string       // for sides the engine cannot name: dependency atoms (suffixes) the side must have
	count int            // minimum number of distinct guard sites (same comparison made in several places)
	cover string         // access-path pattern the guard must hold for all elements of (full-range loops)
	alt   *guardAlt      // an equivalent formulation of the same refusal
}

type guardAlt struct {
	op   token.Token
	x, y *regexp.Regexp
}

func rx(s string) *regexp.Regexp { return regexp.MustCompile("^" + s + "$") }

const qrp = `[a-zA-Z0-9_.]*\.OpeningProof\.QueryRoundProofs\[i\]`

var guardTable = []guardSpec{
	{"cap-size/commit", "every commit-phase cap has 2^CapHeight entries", token.EQL, rx(`<<\(1,.*\.CapHeight\)`), rx(`len\(.*\.CommitPhaseMerkleCaps\[i\]\)`), nil, 1, ".OpeningProof.CommitPhaseMerkleCaps[]", nil},
	{"evalproofs=oracles|caps", "every query round opens exactly one leaf per oracle and per initial cap (count 4), checked both by the shape validation and by the initial-tree verification", token.EQL, rx(`len\(` + qrp + `\.InitialTreesProof\.EvalsProofs\)`), rx(`4|len\(local.*\)`), nil, 2, ".OpeningProof.QueryRoundProofs[]", nil},
	{"leaf=numpolys", "every opened initial leaf has as many elements as its oracle has polynomials", token.EQL, rx(`len\(` + qrp + `\.InitialTreesProof\.EvalsProofs\[i\]\.Elements\)`), rx(`.*`), []string{".NumWires", ".QuotientDegreeFactor", ".NumPartialProducts"}, 1, ".OpeningProof.QueryRoundProofs[].InitialTreesProof.EvalsProofs[]", nil},
	{"initpath+cap=lde", "initial Merkle path length + CapHeight = LDE bits", token.EQL, rx(`\+\(len\(` + qrp + `\.InitialTreesProof\.EvalsProofs\[i\]\.MerkleProof\.Siblings\),.*\.CapHeight\)`), rx(`\+\(.*\.DegreeBits,.*\.RateBits\)`), nil, 1, ".OpeningProof.QueryRoundProofs[].InitialTreesProof.EvalsProofs[]",
		// the same refusal with CapHeight moved to the other side: len(path) = LDE bits − CapHeight
		&guardAlt{token.EQL, rx(`^len\(` + qrp + `\.InitialTreesProof\.EvalsProofs\[i\]\.MerkleProof\.Siblings\)$`), rx(`^-\(\+\(.*\.DegreeBits,.*\.RateBits\),.*\.CapHeight\)$`)}},
	{"steps=arities", "every query round has one step per reduction arity", token.EQL, rx(`len\(` + qrp + `\.Steps\)`), rx(`len\(.*\.ReductionArityBits\)`), nil, 1, ".OpeningProof.QueryRoundProofs[]", nil},
	{"evals=arity", "every step has 2^arityBits evaluations (checked by the shape validation and again by the interpolation)", token.EQL, rx(`len\(` + qrp + `\.Steps\[i\]\.Evals\)`), rx(`<<\(1,.*\.ReductionArityBits\[i\]\)`), nil, 2, ".OpeningProof.QueryRoundProofs[].Steps[]", nil},
	{"steppath+cap=codeword", "step Merkle path length + CapHeight = remaining codeword bits", token.EQL, rx(`\+\(len\(` + qrp + `\.Steps\[i\]\.MerkleProof\.Siblings\),.*\.CapHeight\)`), rx(`.*`), []string{".DegreeBits", ".RateBits", ".ReductionArityBits[*]"}, 1, ".OpeningProof.QueryRoundProofs[].Steps[]", nil},
	{"finalpoly-len", "the final polynomial has 2^(DegreeBits − Σ arities) coefficients", token.EQL, rx(`len\(.*\.OpeningProof\.FinalPoly\.Coeffs\)`), rx(`.*`), []string{".DegreeBits", ".ReductionArityBits[*]"}, 1, "", nil},
	{"rounds=config", "the number of query round proofs equals the configured NumQueryRounds", token.EQL, rx(`.*\.NumQueryRounds`), rx(`len\(.*\.OpeningProof\.QueryRoundProofs\)`), nil, 1, "", nil},
	{"indices=rounds", "the number of query indices drawn equals the number of query round proofs", token.EQL, rx(`len\(local(:.*)?\)`), rx(`len\(.*\.OpeningProof\.QueryRoundProofs\)`), nil, 1, "", nil},
	{"capbits=4", "the Merkle check is given exactly 4 cap-index bits (both tree families)", token.EQL, rx(`len\(X:ToBinary@.*\)`), rx(`4`), nil, 2, "", nil},
	{"cap=16/initial", "the Merkle check of the initial trees is given 16-entry caps", token.EQL, rx(`len\(.*ConstantSigmasCap.*\)|len\(.*WiresCap.*\)`), rx(`16`), nil, 1, "", nil},
	{"cap=16/commit", "the Merkle check of the commit-phase trees is given 16-entry caps", token.EQL, rx(`len\(.*\.CommitPhaseMerkleCaps\[i\]\)`), rx(`16`), nil, 1, "", nil},
	{"batches=reduced", "one reduced opening per opening batch", token.EQL, rx(`2|len\(local.*\)`), rx(`len\(local.*\)`), nil, 1, "", nil},
	{"interp-lengths", "interpolation points, values and weights have equal lengths (two comparisons)", token.EQL, rx(`len\(local:len\(` + qrp + `\.Steps\[i\]\.Evals\)\)`), rx(`len\(local:len\(` + qrp + `\.Steps\[i\]\.Evals\)\)`), nil, 2, "", nil},
	{"arity<=8", "the arity fits the 8-bit index reversal used for the coset permutation", token.LEQ, rx(`.*\.ReductionArityBits\[i\]`), rx(`8`), nil, 1, "", nil},
	{"arity=4", "the within-coset selection tree assumes arity bits = 4", token.EQL, rx(`.*\.ReductionArityBits\[i\]`), rx(`4`), nil, 1, "", nil},
	{"gate-constraints-overflow", "a gate producing more constraints than NumGateConstraints is refused", token.LSS, rx(`iv\d+|\[i\]|i`), rx(`.*\.numGateConstraints`), nil, 1, "",
		// once per gate instead of once per constraint: len(filtered) ≤ NumGateConstraints
		&guardAlt{token.LEQ, rx(`len\(.*\)`), rx(`.*\.numGateConstraints`)}},
}

func mirror(op token.Token) token.Token {
	switch op {
	case token.LSS:
		return token.GTR
	case token.LEQ:
		return token.GEQ
	case token.GTR:
		return token.LSS
	case token.GEQ:
		return token.LEQ
	}
	return op
}

func depsSuffix(r *Run, v *Val, suffixes []string) bool {
	if v == nil {
		return false
	}
	names := r.In.Atoms.Names(r.In.AllDeps(v))
	for _, s := range suffixes {
		found := false
		for _, n := range names {
			if strings.HasSuffix(n, s) {
				found = true
			}
		}
		if !found {
			return false
		}
	}
	return true
}

func rulesC20(cx *Ctx) []Obligation {
	r := cx.verify()
	if r == nil {
		return []Obligation{undecided("C20/anchor", "entry VerifierChip.Verify exists", "not found")}
	}
	obs := engineNotes(r, "C20")
	gs := r.guards()
	for _, sp := range guardTable {
		key := "C20/guard/" + sp.key
		desc := "refusal (panic or error, on every path, for every element of the validated list): " + sp.what
		sites := map[string]bool{}
		var diag []string
		for _, g := range gs {
			if g.x == nil || g.y == nil {
				continue
			}
			for _, o := range []struct {
				x, y *Val
				op   token.Token
			}{{g.x, g.y, g.op}, {g.y, g.x, mirror(g.op)}} {
				dx, dy := descr(o.x), descr(o.y)
				wantOp := sp.op
				if !sp.x.MatchString(dx) || !sp.y.MatchString(dy) {
					if sp.alt == nil || !sp.alt.x.MatchString(dx) || !sp.alt.y.MatchString(dy) {
						continue
					}
					wantOp = sp.alt.op
				}
				if len(sp.ydeps) > 0 && !depsSuffix(r, o.y, sp.ydeps) {
					continue
				}
				site := r.site(g.rec)
				if o.op != wantOp {
					diag = append(diag, fmt.Sprintf("%s: compares %s %s %s — continues under a weaker or different condition than %s", site, dx, o.op, dy, wantOp))
					continue
				}
				if !g.rec.Must {
					diag = append(diag, site+": the refusal does not execute on every path / for every element")
					continue
				}
				if sp.cover != "" {
					covered := false
					why := ""
					for _, p := range append(lenPaths(o.x, 0), lenPaths(o.y, 0)...) {
						if strings.Contains(genPath(p), genPath(strings.ReplaceAll(sp.cover, "[]", "[*]"))) {
							if okk, w := r.covered(g.rec, p); okk {
								covered = true
							} else {
								why = w
							}
						}
					}
					if !covered {
						diag = append(diag, site+": not checked for every element: "+why)
						continue
					}
				}
				sites[fmt.Sprintf("%s\x00%d", site, g.rec.Site)] = true
			}
		}
		var shown []string
		for _, k := range keysOf(sites) {
			shown = append(shown, k[:strings.IndexByte(k, 0)])
		}
		if len(sites) >= sp.count {
			obs = append(obs, good(key, desc, shown...))
		} else {
			d := fmt.Sprintf("%d guard site(s) found, %d required", len(sites), sp.count)
			if len(diag) > 0 {
				d += " | " + strings.Join(diag, " | ")
			}
			obs = append(obs, bad(key, desc, d, shown...))
		}
	}
	// 16 public inputs (CircuitFixed.Define) and hiding refusal (ReadCommonCircuitData)
	obs = append(obs, rulePis16(cx)...)
	obs = append(obs, ruleHiding(cx, "C20")...)
	return obs
}

func rulePis16(cx *Ctx) []Obligation {
	key := "C20/guard/pis=16"
	desc := "the fixed wrapper refuses (returns an error) unless the inner proof has exactly 16 public inputs"
	r := cx.Entry("verifier", "(*CircuitFixed).Define")
	if r == nil {
		return []Obligation{undecided(key, desc, "verifier.CircuitFixed.Define not found")}
	}
	for _, g := range r.guards() {
		if g.x == nil || g.y == nil || len(g.rec.Chain) != 0 {
			continue
		}
		for _, o := range [][2]*Val{{g.x, g.y}, {g.y, g.x}} {
			dx, dy := descr(o[0]), descr(o[1])
			if strings.HasPrefix(dx, "len(") && strings.HasSuffix(dx, ".PublicInputs)") && dy == "16" {
				if g.op != token.EQL {
					return []Obligation{bad(key, desc, "the guard continues under "+g.op.String()+" instead of ==", r.site(g.rec))}
				}
				if !g.rec.Must {
					return []Obligation{bad(key, desc, "the guard is conditional", r.site(g.rec))}
				}
				return []Obligation{good(key, desc, r.site(g.rec))}
			}
		}
	}
	return []Obligation{bad(key, desc, "no refusal comparing len(PublicInputs) with 16 in Define")}
}

func ruleHiding(cx *Ctx, prop string) []Obligation {
	key := prop + "/guard/hiding-refused"
	desc := "reading a circuit description with FRI hiding enabled is refused (the verifier does not implement salted leaves)"
	r := cx.Entry("types", "ReadCommonCircuitData")
	if r == nil {
		return []Obligation{undecided(key, desc, "types.ReadCommonCircuitData not found")}
	}
	for _, rec := range r.Recs {
		if rec.Kind != "guard" || len(rec.Args) == 0 || rec.Args[0] == nil {
			continue
		}
		c := rec.Args[0]
		neg := rec.Neg
		for c.Bin != nil && c.Bin.Op == token.NOT && c.Bin.Not != nil {
			c = c.Bin.Not
			neg = !neg
		}
		hit := false
		for _, f := range append(append([]string{}, c.From...), c.Dir...) {
			if strings.HasSuffix(f, ".FriParams.Hiding") {
				hit = true
			}
		}
		if !hit {
			continue
		}
		if !neg {
			return []Obligation{bad(key, desc, "the guard refuses when hiding is DISABLED", r.site(rec))}
		}
		if !rec.Must {
			return []Obligation{bad(key, desc, "the refusal is conditional", r.site(rec))}
		}
		return []Obligation{good(key, desc, r.site(rec))}
	}
	return []Obligation{bad(key, desc, "no refusal on raw.FriParams.Hiding")}
}

// lenPaths: the access paths whose lengths occur in an integer expression.
func lenPaths(v *Val, depth int) []string {
	if v == nil || depth > 6 {
		return nil
	}
	out := append([]string{}, v.LenOf...)
	if v.Bin != nil {
		out = append(out, lenPaths(v.Bin.X, depth+1)...)
		out = append(out, lenPaths(v.Bin.Y, depth+1)...)
	}
	return out
}
