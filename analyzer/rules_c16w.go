package main

// O16.5 — the permutation argument consumes the partial-product openings round by round: within the plonk package the
// list Openings.PartialProducts is only ever read through consecutive, disjoint windows of width NumPartialProducts,
// one per challenge round. Two idioms are recognised on the SSA:
//
//	affine   base[c·n : (c+1)·n]   with c the index of a full loop over NumChallenges (directly, or as the argument
//	                               bound to the parameter c at every call site)
//	cursor   w := cur[:n]; cur = cur[n:]   with cur a loop-carried slice starting at base, in a full loop over
//	                               NumChallenges
//
// Anything else that touches the list inside the plonk package is reported (violated when a window is recognisably
// shifted or re-based, undecided when the shape is unknown).

import (
	"fmt"
	"go/token"
	"go/types"
	"sort"
	"strings"

	"golang.org/x/tools/go/ssa"
)

// ipoly: a polynomial with integer coefficients over SSA leaf values (monomial = sorted list of leaf keys)
type ipoly map[string]int64

func ipolyOf(v ssa.Value, leaves map[string]ssa.Value, depth int) ipoly {
	v = stripCopies(v)
	if depth > 8 {
		return nil
	}
	if k, ok := constInt(v); ok {
		if k == 0 {
			return ipoly{}
		}
		return ipoly{"": k}
	}
	if b, ok := v.(*ssa.BinOp); ok {
		x, y := ipolyOf(b.X, leaves, depth+1), ipolyOf(b.Y, leaves, depth+1)
		if x == nil || y == nil {
			return nil
		}
		r := ipoly{}
		switch b.Op {
		case token.ADD, token.SUB:
			for m, c := range x {
				r[m] += c
			}
			for m, c := range y {
				if b.Op == token.ADD {
					r[m] += c
				} else {
					r[m] -= c
				}
			}
		case token.MUL:
			for m1, c1 := range x {
				for m2, c2 := range y {
					parts := append(strings.Split(m1, "*"), strings.Split(m2, "*")...)
					var nz []string
					for _, q := range parts {
						if q != "" {
							nz = append(nz, q)
						}
					}
					sort.Strings(nz)
					r[strings.Join(nz, "*")] += c1 * c2
				}
			}
		default:
			return nil
		}
		for m, c := range r {
			if c == 0 {
				delete(r, m)
			}
		}
		return r
	}
	// a leaf: loads of the same place are one symbol
	k := accessPath(v, 0)
	leaves[k] = v
	return ipoly{k: 1}
}

func ipolyEq(a, b ipoly) bool {
	if a == nil || b == nil || len(a) != len(b) {
		return false
	}
	for m, c := range a {
		if b[m] != c {
			return false
		}
	}
	return true
}

func ruleC16Windows(cx *Ctx) []Obligation {
	P := cx.P
	key := "C16/O16.5/partial-products-windows"
	desc := "round c of the permutation argument reads exactly the partial-product openings [c·n, (c+1)·n), n = NumPartialProducts, for every challenge round c (consecutive disjoint windows; no round re-reads another round's openings)"
	isBase := func(v ssa.Value) bool {
		return strings.HasSuffix(accessPath(v, 0), ".PartialProducts") && !strings.Contains(accessPath(v, 0), "NumPartialProducts")
	}
	isN := func(v ssa.Value) bool {
		return strings.HasSuffix(accessPath(stripCopies(v), 0), ".NumPartialProducts")
	}
	// roundIndex: v is the index of a loop 0 ≤ c < NumChallenges (step 1), directly or through a parameter
	var roundIndex func(fn *ssa.Function, v ssa.Value, depth int) (bool, string)
	roundIndex = func(fn *ssa.Function, v ssa.Value, depth int) (bool, string) {
		v = stripCopies(v)
		fi := GetFnInfo(fn)
		if l := fi.IvOf[v]; l != nil {
			if !l.Counted || l.StartConst == nil || *l.StartConst != 0 || l.Step != 1 || l.Op != token.LSS || !l.SingleExit {
				return false, "the round loop is not c = 0; c < NumChallenges; c++ without break"
			}
			if !strings.HasSuffix(accessPath(stripCopies(l.Bound), 0), ".NumChallenges") {
				return false, "the round loop is bounded by " + accessPath(stripCopies(l.Bound), 0) + ", not by NumChallenges"
			}
			return true, ""
		}
		if p, ok := v.(*ssa.Parameter); ok && depth < 2 {
			idx := paramIndex(fn, p)
			n := 0
			for _, caller := range P.ModuleFuncsSorted() {
				for _, b := range caller.Blocks {
					for _, ins := range b.Instrs {
						c, ok := ins.(ssa.CallInstruction)
						if !ok || c.Common().StaticCallee() != fn || idx >= len(c.Common().Args) {
							continue
						}
						n++
						if okk, why := roundIndex(caller, c.Common().Args[idx], depth+1); !okk {
							return false, "at " + P.Pos(ins.Pos()) + ": " + why
						}
						if !GetFnInfo(caller).MustBlock(ins.Block()) {
							return false, "the call at " + P.Pos(ins.Pos()) + " is not executed in every round"
						}
					}
				}
			}
			if n == 0 {
				return false, "no call site binds the round parameter " + p.Name()
			}
			return true, ""
		}
		return false, "the window index " + v.Name() + " is not the index of the loop over the challenge rounds"
	}
	windows := 0
	var problems, undec []string
	for _, fn := range P.ModuleFuncsSorted() {
		if fnPkgShort(fn) != "plonk" {
			continue
		}
		for _, b := range fn.Blocks {
			for _, ins := range b.Instrs {
				v, ok := ins.(ssa.Value)
				if !ok || !isBase(v) || v.Referrers() == nil {
					continue
				}
				if _, isLoad := v.(*ssa.UnOp); !isLoad {
					if _, isField := v.(*ssa.Field); !isField {
						continue
					}
				}
				for _, r := range *v.Referrers() {
					site := ""
					if ri, ok := r.(ssa.Instruction); ok {
						site = P.Pos(ri.Pos())
					}
					switch x := r.(type) {
					case *ssa.DebugRef:
					case *ssa.Call:
						if bi, ok := x.Common().Value.(*ssa.Builtin); ok && bi.Name() == "len" {
							continue
						}
						undec = append(undec, site+": the whole list is handed to a call")
					case *ssa.Slice:
						// affine window: Low ≡ c·n and High − Low ≡ n as polynomials over the SSA leaves
						if x.Low == nil || x.High == nil {
							undec = append(undec, site+": a window without both bounds")
							continue
						}
						leaves := map[string]ssa.Value{}
						lo, hi := ipolyOf(x.Low, leaves, 0), ipolyOf(x.High, leaves, 0)
						if lo == nil || hi == nil {
							undec = append(undec, site+": slice bounds are not polynomial in loop indices and configuration values")
							continue
						}
						nKey := ""
						for k, lv := range leaves {
							if isN(lv) {
								nKey = k
							}
						}
						diff := ipoly{}
						for m, cc := range hi {
							diff[m] += cc
						}
						for m, cc := range lo {
							diff[m] -= cc
							if diff[m] == 0 {
								delete(diff, m)
							}
						}
						if nKey == "" || !ipolyEq(diff, ipoly{nKey: 1}) {
							problems = append(problems, site+": the window is not NumPartialProducts wide")
							continue
						}
						// Low = c·n for a single leaf c
						var c ssa.Value
						if len(lo) == 1 {
							for m, cc := range lo {
								parts := strings.Split(m, "*")
								if cc == 1 && len(parts) == 2 {
									for _, q := range parts {
										if q != nKey {
											c = leaves[q]
										}
									}
									if parts[0] != nKey && parts[1] != nKey {
										c = nil
									}
								}
							}
						}
						if c == nil {
							problems = append(problems, site+": the window does not start at c·NumPartialProducts for a round index c")
							continue
						}
						if okk, why := roundIndex(fn, c, 0); !okk {
							problems = append(problems, site+": "+why)
							continue
						}
						windows++
					case *ssa.Phi:
						// cursor idiom: φ(base, cur[n:]) in a full loop over NumChallenges, windows cur[:n]
						fi := GetFnInfo(fn)
						l := fi.HeaderOf[x.Block()]
						if l == nil {
							undec = append(undec, site+": the list is merged outside a loop header")
							continue
						}
						good1 := true
						for _, e := range x.Edges {
							if e == v {
								continue
							}
							sl, ok := e.(*ssa.Slice)
							if !ok || sl.X != ssa.Value(x) || sl.High != nil || sl.Low == nil || !isN(sl.Low) {
								good1 = false
								if ok && sl.X != ssa.Value(x) && isBase(sl.X) {
									problems = append(problems, P.Pos(sl.Pos())+": the cursor is advanced from the start of the list instead of from its current position (every later round re-reads the same openings)")
								} else {
									problems = append(problems, site+": the loop-carried slice is not advanced by cur = cur[NumPartialProducts:]")
								}
							}
						}
						if !good1 {
							continue
						}
						if l.Phi == nil || !l.Counted || l.StartConst == nil || *l.StartConst != 0 || l.Step != 1 || l.Op != token.LSS || !l.SingleExit || !strings.HasSuffix(accessPath(stripCopies(l.Bound), 0), ".NumChallenges") {
							problems = append(problems, site+": the cursor loop is not a full loop over the challenge rounds")
							continue
						}
						w := 0
						for _, r2 := range *x.Referrers() {
							if sl, ok := r2.(*ssa.Slice); ok && sl.X == ssa.Value(x) && sl.High != nil {
								lowZero := sl.Low == nil
								if k, ok := constInt(sl.Low); sl.Low != nil && ok && k == 0 {
									lowZero = true
								}
								if lowZero && isN(sl.High) {
									w++
								} else {
									problems = append(problems, P.Pos(sl.Pos())+": the round's window is not cur[:NumPartialProducts]")
								}
							}
						}
						if w == 0 {
							undec = append(undec, site+": no window cur[:NumPartialProducts] is taken from the cursor")
						}
						windows += w
					case *ssa.IndexAddr, *ssa.Index, *ssa.Range:
						undec = append(undec, site+": elements of the list are addressed individually")
					default:
						undec = append(undec, site+": unrecognised use of the list ("+fmt.Sprintf("%T", r)+")")
					}
				}
			}
		}
	}
	switch {
	case len(problems) > 0:
		return []Obligation{bad(key, desc, strings.Join(problems, "; "))}
	case len(undec) > 0:
		return []Obligation{undecided(key, desc, strings.Join(undec, "; "))}
	case windows == 0:
		return []Obligation{undecided(key, desc, "no window into Openings.PartialProducts found in package plonk")}
	}
	return []Obligation{good(key, desc, fmt.Sprintf("%d window(s)", windows))}
}

// ruleC16ChainEnds (O16.6): the chain of running products is closed at both ends in every round, for every circuit
// shape: in each function of package plonk that reads Z(gζ) (an element of openings.PlonkZsNext), that element and an
// element of openings.PlonkZs are read and used in a block that executes on every path
// through the function (once per iteration of the enclosing loops). A closing link emitted only from inside the loop
// over the partial products (or under a condition) disappears when NumPartialProducts is 0 — routed wires ≤ chunk
// size — and then no permutation check is produced at all; shapes with at least one partial product, such as the
// shipped one, behave as before.
func ruleC16ChainEnds(cx *Ctx) []Obligation {
	P := cx.P
	key := "C16/O16.6/chain-ends"
	desc := "in every round the chain of running products starts at Z(ζ) and ends at Z(gζ) for every circuit shape: the function reading the round's PartialProducts window reads and uses an element of PlonkZs and of PlonkZsNext on every path (not only inside a loop over the partial products or under a condition — with NumPartialProducts = 0 such a link is never emitted)"
	var obs []Obligation
	found := 0
	for _, fn := range P.ModuleFuncsSorted() {
		if fnPkgShort(fn) != "plonk" || fn.Blocks == nil {
			continue
		}
		readsWindow := false
		type rd struct {
			must bool
			used bool
			site string
		}
		reads := map[string][]rd{}
		fi := GetFnInfo(fn)
		for _, b := range fn.Blocks {
			for _, ins := range b.Instrs {
				v, ok := ins.(ssa.Value)
				if !ok {
					continue
				}
				if sl, isSl := v.(*ssa.Slice); isSl {
					ap := accessPath(sl.X, 0)
					if strings.HasSuffix(ap, ".PartialProducts") && !strings.Contains(ap, "NumPartialProducts") && (sl.Low != nil || sl.High != nil) {
						readsWindow = true
					}
				}
				ld, isLd := v.(*ssa.UnOp)
				if !isLd || ld.Op != token.MUL {
					continue
				}
				ia, isIA := ld.X.(*ssa.IndexAddr)
				if !isIA {
					continue
				}
				base := accessPath(ia.X, 0)
				for _, f := range []string{"PlonkZs", "PlonkZsNext"} {
					if strings.HasSuffix(base, "."+f) {
						used := false
						if ld.Referrers() != nil {
							for _, r := range *ld.Referrers() {
								if _, dbg := r.(*ssa.DebugRef); !dbg {
									used = true
								}
							}
						}
						reads[f] = append(reads[f], rd{fi.MustBlock(b), used, P.Pos(ld.Pos())})
					}
				}
			}
		}
		_ = readsWindow
		if len(reads["PlonkZsNext"]) == 0 {
			continue // the function closing the chain is the one that reads Z(gζ)
		}
		found++
		site := P.FnName(fn) + " " + P.Pos(fn.Pos())
		var whys []string
		for _, f := range []string{"PlonkZs", "PlonkZsNext"} {
			okf := false
			for _, r := range reads[f] {
				if r.must && r.used {
					okf = true
				}
			}
			switch {
			case okf:
			case len(reads[f]) == 0:
				whys = append(whys, "no element of openings."+f+" is read in the function that reads the round's partial products")
			default:
				whys = append(whys, "openings."+f+" is read only conditionally / inside a loop that may not run ("+reads[f][0].site+")")
			}
		}
		if len(whys) > 0 {
			obs = append(obs, bad(key, desc, strings.Join(whys, " | "), site))
		} else {
			obs = append(obs, good(key, desc, site))
		}
	}
	if found == 0 {
		obs = append(obs, bad(key, desc, "no function of package plonk reads an element of openings.PlonkZsNext: the chain of running products is not closed"))
	}
	return obs
}

// ruleC16ChainLinks (O16.7): every consecutive pair of the accumulator chain Z(ζ), π_1, …, π_n, Z(gζ) is linked —
// n + 1 links for n = NumPartialProducts. Decided on the SSA: the loop that reads chain[i] and chain[i+1] of one list
// is counted on i from 0 in steps of 1 while i ≤ NumPartialProducts (or i < NumPartialProducts + 1). A loop driven by
// something else — "while at least a whole chunk of numerators is left" — emits fewer links for shapes whose routed
// wires are not a multiple of the chunk size: the last partial product is never tied to Z(gζ).
func ruleC16ChainLinks(cx *Ctx) []Obligation {
	P := cx.P
	key := "C16/O16.7/chain-links"
	desc := "the loop linking consecutive elements chain[i], chain[i+1] of the running-product chain runs i = 0 … NumPartialProducts (n + 1 links): it is counted by the configuration value, not by how many whole chunks of numerators are left"
	var obs []Obligation
	found := 0
	for _, fn := range P.ModuleFuncsSorted() {
		if fnPkgShort(fn) != "plonk" || fn.Blocks == nil {
			continue
		}
		fi := GetFnInfo(fn)
		// pairs X[e], X[e+1] read in one loop
		type rd struct {
			x   ssa.Value
			idx ssa.Value
			b   *ssa.BasicBlock
		}
		var reads []rd
		for _, b := range fn.Blocks {
			if len(fi.LoopsOf[b.Index]) == 0 {
				continue
			}
			for _, ins := range b.Instrs {
				ia, ok := ins.(*ssa.IndexAddr)
				if !ok || !isQESlice(ia.X.Type()) {
					continue
				}
				reads = append(reads, rd{ia.X, ia.Index, b})
			}
		}
		// chain[i+1] read in the loop while the previous element is carried in a φ that starts as chain[0]: the same
		// pair, written as a running (prev, next) walk — add the implied read chain[i]
		for _, c := range append([]rd{}, reads...) {
			one, ok := polyConst(polySub(poly(c.idx), ipoly{}))
			_ = one
			_ = ok
			la := fi.LoopsOf[c.b.Index]
			l := la[len(la)-1]
			if l.Phi == nil {
				continue
			}
			if d, ok := polyConst(polySub(poly(c.idx), ipoly{l.Phi.Name(): 1})); !ok || d != 1 {
				continue
			}
			for _, hi := range l.Header.Instrs {
				phi, ok := hi.(*ssa.Phi)
				if !ok {
					break
				}
				if phi == l.Phi || !isQEType(phi.Type()) {
					continue
				}
				okInit, okBack := false, false
				for i, pb := range l.Header.Preds {
					e := stripCopies(phi.Edges[i])
					ld, isLd := e.(*ssa.UnOp)
					if !isLd || ld.Op != token.MUL {
						continue
					}
					ia, isIA := ld.X.(*ssa.IndexAddr)
					if !isIA || ia.X != c.x {
						continue
					}
					if l.Blocks[pb] {
						okBack = ipolyEq(poly(ia.Index), poly(c.idx))
					} else if k, isC := constInt(ia.Index); isC && k == 0 {
						okInit = true
					}
				}
				if okInit && okBack {
					reads = append(reads, rd{c.x, l.Phi, c.b})
				}
			}
		}
		done := map[ssa.Value]bool{}
		for _, a := range reads {
			for _, c := range reads {
				if a.x != c.x || done[a.x] {
					continue
				}
				if d, ok := polyConst(polySub(poly(c.idx), poly(a.idx))); !ok || d != 1 {
					continue
				}
				// only the chain that is closed with Z(gζ) is of interest: built here, or by a helper of the package
				if !readsField(fn, "PlonkZsNext") {
					viaHelper := false
					if hc, ok := stripCopies(a.x).(*ssa.Call); ok {
						if g := hc.Common().StaticCallee(); g != nil && g.Blocks != nil && g.Pkg == fn.Pkg && readsField(g, "PlonkZsNext") {
							viaHelper = true
						}
					}
					if !viaHelper {
						continue
					}
				}
				done[a.x] = true
				found++
				site := P.FnName(fn) + " " + P.Pos(a.idx.Pos())
				la := fi.LoopsOf[a.b.Index]
				l := la[len(la)-1]
				pi := poly(a.idx)
				okLoop := l.Counted && l.Phi != nil && l.StartConst != nil && *l.StartConst == 0 && l.Step == 1 && l.SingleExit && ipolyEq(pi, ipoly{l.Phi.Name(): 1})
				if !okLoop {
					obs = append(obs, bad(key, desc, "the linking loop is not counted on the chain index from 0 in steps of 1 (it is driven by another quantity)", site))
					continue
				}
				leaves := map[string]ssa.Value{}
				pb := ipolyOf(l.Bound, leaves, 0)
				nKey := ""
				for k, lv := range leaves {
					if strings.HasSuffix(accessPath(stripCopies(lv), 0), ".NumPartialProducts") {
						nKey = k
					}
				}
				want := ipoly{nKey: 1}
				if l.Op == token.LSS {
					want = ipoly{nKey: 1, "": 1}
				}
				if nKey == "" || (l.Op != token.LEQ && l.Op != token.LSS) || !ipolyEq(pb, want) {
					obs = append(obs, bad(key, desc, "the linking loop is not bounded by NumPartialProducts (i ≤ n, n + 1 links): bound "+l.Bound.String(), site))
					continue
				}
				obs = append(obs, good(key, desc, site))
			}
		}
	}
	if found == 0 {
		obs = append(obs, undecided(key, desc, "no loop reading chain[i] and chain[i+1] of one list was found in the function that closes the running-product chain"))
	}
	return obs
}

func isQESlice(t types.Type) bool {
	st, ok := t.Underlying().(*types.Slice)
	return ok && isQEType(st.Elem())
}

func readsField(fn *ssa.Function, name string) bool {
	for _, b := range fn.Blocks {
		for _, ins := range b.Instrs {
			if fa, ok := ins.(*ssa.FieldAddr); ok && fieldName(fa.X.Type(), fa.Field) == name {
				return true
			}
			if f, ok := ins.(*ssa.Field); ok && fieldName(types.NewPointer(f.X.Type()), f.Field) == name {
				return true
			}
		}
	}
	return false
}
