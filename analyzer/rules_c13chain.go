package main

// C13/O13.6/running-evaluation: the value that is carried from one FRI reduction step to the next is recomputed
// from this step's data, never derived from the previous running value, and the running value is only ever compared.
//
// Per step the verifier (1) asserts that the claimed evaluation selected by the index bits equals the running
// evaluation and (2) replaces the running evaluation by the fold of the step's evaluations at the challenge. If the
// new running value could keep (or blend in) the old one — `next = Select(guard, old, folded)` with a guard the
// prover controls through proof data — a step's fold is skipped and the final-polynomial check compares a value of
// the prover's choosing, while every honest proof (whose data never hits the guard) still verifies. The presence /
// coverage rules of C13 cannot see this: all equalities are still there and depend on everything they should.
//
// Decided on the SSA form. R := a local of extension type that is written before a loop and inside it and whose
// loads are operands of an equality inside that loop (the running evaluation). Then
//   (a) no value stored into R inside the loop depends on a load of R (dependence through calls' arguments, API
//       operations, φs and local memory);
//   (c) before the loop R is assigned the result of one module call (the combination of the initial openings) that
//       does not read the reduction steps' data;
//   (b) every load of R flows only into equality assertions (api.AssertIsEqual, directly or through module
//       functions whose parameter again flows only there) — it is compared as it is, before and after the loop.

import (
	"go/token"
	"go/types"
	"strings"

	"golang.org/x/tools/go/ssa"
)

func isQEType(t types.Type) bool {
	if p, ok := t.Underlying().(*types.Pointer); ok {
		t = p.Elem()
	}
	a, ok := t.Underlying().(*types.Array)
	return ok && a.Len() == 2 && typeIs(a.Elem(), "goldilocks.Variable")
}

// allocOf: the local an (element) load reads from
func allocOfLoad(v ssa.Value) *ssa.Alloc {
	v = stripCopies(v)
	u, ok := v.(*ssa.UnOp)
	if !ok || u.Op != token.MUL {
		return nil
	}
	x := u.X
	for {
		switch a := x.(type) {
		case *ssa.IndexAddr:
			x = a.X
			continue
		case *ssa.FieldAddr:
			x = a.X
			continue
		case *ssa.Alloc:
			return a
		}
		return nil
	}
}

func isEqualityCall(c ssa.CallInstruction) bool {
	if isAPIMethod(c, "AssertIsEqual") {
		return true
	}
	g := c.Common().StaticCallee()
	return g != nil && fnPkgShort(g) == "goldilocks" && (g.Name() == "AssertIsEqual" || g.Name() == "AssertIsEqualExtension")
}

// storesInto: the values stored into local a (whole or by element / field), with the storing instruction
func storesInto(a *ssa.Alloc) []*ssa.Store {
	var out []*ssa.Store
	var walk func(p ssa.Value)
	walk = func(p ssa.Value) {
		if p.Referrers() == nil {
			return
		}
		for _, r := range *p.Referrers() {
			switch u := r.(type) {
			case *ssa.Store:
				if u.Addr == p {
					out = append(out, u)
				}
			case *ssa.IndexAddr:
				if u.X == p {
					walk(u)
				}
			case *ssa.FieldAddr:
				if u.X == p {
					walk(u)
				}
			}
		}
	}
	walk(a)
	return out
}

// dependsOnLocal: v is computed from a load of local a (through operands, call arguments, φs and local memory)
func dependsOnLocal(v ssa.Value, a *ssa.Alloc) bool {
	return sliceHits(v, func(x ssa.Value) bool {
		if al := allocOfLoad(x); al != nil && al == a {
			return true
		}
		return x == ssa.Value(a)
	})
}

// sliceHits: some value in the backward slice of v (operands, call arguments, φs, local memory) satisfies hit
func sliceHits(v ssa.Value, hit func(ssa.Value) bool) bool {
	seen := map[ssa.Value]bool{}
	var walk func(x ssa.Value, d int) bool
	walk = func(x ssa.Value, d int) bool {
		if x == nil || seen[x] || d > 60 {
			return false
		}
		seen[x] = true
		if hit(x) {
			return true
		}
		if al := allocOfLoad(x); al != nil {
			for _, st := range storesInto(al) {
				if walk(st.Val, d+1) {
					return true
				}
			}
			// the address computation itself (an index or field of something else)
			if u, ok := stripCopies(x).(*ssa.UnOp); ok {
				return walk(u.X, d+1)
			}
			return false
		}
		switch u := x.(type) {
		case *ssa.Alloc:
			for _, st := range storesInto(u) {
				if walk(st.Val, d+1) {
					return true
				}
			}
			return false
		}
		ins, ok := x.(ssa.Instruction)
		if !ok {
			return false
		}
		for _, op := range ins.Operands(nil) {
			if op != nil && *op != nil && walk(*op, d+1) {
				return true
			}
		}
		return false
	}
	return walk(v, 0)
}

// onlyCompared: every use of v (a value read from the running evaluation) ends in an equality assertion
func onlyCompared(P *Program, v ssa.Value, depth int, seen map[ssa.Value]bool) (bool, string) {
	if seen[v] {
		return true, ""
	}
	seen[v] = true
	if v.Referrers() == nil {
		return true, ""
	}
	for _, r := range *v.Referrers() {
		switch u := r.(type) {
		case *ssa.DebugRef:
		case *ssa.Field, *ssa.Index, *ssa.MakeInterface, *ssa.ChangeType, *ssa.ChangeInterface, *ssa.Phi:
			if ok, why := onlyCompared(P, u.(ssa.Value), depth, seen); !ok {
				return false, why
			}
		case *ssa.Store:
			if u.Val != v {
				continue
			}
			// spilled to a temporary (argument passing, element access of an array value): follow its loads
			base := u.Addr
			for {
				if ia, ok := base.(*ssa.IndexAddr); ok {
					base = ia.X
					continue
				}
				if fa, ok := base.(*ssa.FieldAddr); ok {
					base = fa.X
					continue
				}
				break
			}
			al, ok := base.(*ssa.Alloc)
			if !ok {
				return false, "the running evaluation is stored to non-local memory at " + P.Pos(u.Pos())
			}
			if ok, why := localOnlyCompared(P, al, depth, seen); !ok {
				return false, why
			}
		case ssa.CallInstruction:
			if isEqualityCall(u) {
				continue
			}
			g := u.Common().StaticCallee()
			if g == nil || g.Blocks == nil || !P.InModule(g) || depth >= 2 {
				return false, "the running evaluation is an operand of " + u.Common().String() + " at " + P.Pos(u.Pos())
			}
			for i, a := range u.Common().Args {
				if a == v && i < len(g.Params) {
					if ok, why := onlyCompared(P, g.Params[i], depth+1, seen); !ok {
						return false, why
					}
				}
			}
		default:
			return false, "the running evaluation flows into " + strings.TrimPrefix(strings.TrimPrefix(r.String(), "*"), "ssa.") + " at " + P.Pos(r.Pos())
		}
	}
	return true, ""
}

func localOnlyCompared(P *Program, al *ssa.Alloc, depth int, seen map[ssa.Value]bool) (bool, string) {
	var walk func(p ssa.Value) (bool, string)
	walk = func(p ssa.Value) (bool, string) {
		if p.Referrers() == nil {
			return true, ""
		}
		for _, r := range *p.Referrers() {
			switch u := r.(type) {
			case *ssa.UnOp:
				if u.Op == token.MUL {
					if ok, why := onlyCompared(P, u, depth, seen); !ok {
						return false, why
					}
				}
			case *ssa.IndexAddr:
				if ok, why := walk(u); !ok {
					return false, why
				}
			case *ssa.FieldAddr:
				if ok, why := walk(u); !ok {
					return false, why
				}
			case *ssa.Store, *ssa.DebugRef:
			default:
				return false, "the running evaluation's storage is used by " + r.String() + " at " + P.Pos(r.Pos())
			}
		}
		return true, ""
	}
	return walk(al)
}

func containsEquality(g *ssa.Function) bool {
	for _, b := range g.Blocks {
		for _, ins := range b.Instrs {
			if c, ok := ins.(ssa.CallInstruction); ok && isEqualityCall(c) {
				return true
			}
		}
	}
	return false
}

func ruleRunningEvaluation(cx *Ctx) []Obligation {
	P := cx.P
	key := "C13/O13.6/running-evaluation"
	desc := "the running evaluation of the FRI query is recomputed in every reduction step from that step's data — no value stored into it inside the step loop depends on its previous value (no Select / blend that could keep the old value on a prover-chosen condition) — and it is only ever compared (its loads flow into equality assertions only), before, inside and after the loop"
	var obs []Obligation
	found := 0
	for _, fn := range P.ModuleFuncsSorted() {
		if fn.Blocks == nil || fnPkgShort(fn) != "fri" {
			continue
		}
		fi := GetFnInfo(fn)
		for _, b := range fn.Blocks {
			for _, ins := range b.Instrs {
				al, ok := ins.(*ssa.Alloc)
				if !ok || al.Heap || !isQEType(al.Type()) {
					continue
				}
				var inLoop, outLoop []*ssa.Store
				for _, st := range storesInto(al) {
					if len(fi.LoopsOf[st.Block().Index]) > 0 {
						inLoop = append(inLoop, st)
					} else {
						outLoop = append(outLoop, st)
					}
				}
				if len(inLoop) == 0 || len(outLoop) == 0 {
					continue
				}
				// is it compared inside a loop?
				compared := false
				for _, bb := range fn.Blocks {
					if len(fi.LoopsOf[bb.Index]) == 0 {
						continue
					}
					for _, i2 := range bb.Instrs {
						c, ok := i2.(ssa.CallInstruction)
						if !ok {
							continue
						}
						for ai, a := range c.Common().Args {
							if allocOfLoad(a) != al {
								continue
							}
							if isEqualityCall(c) {
								compared = true
							} else if g := c.Common().StaticCallee(); g != nil && g.Blocks != nil && P.InModule(g) && ai < len(g.Params) && containsEquality(g) {
								// a comparing helper: its parameter flows into equality assertions only
								if okc, _ := onlyCompared(P, g.Params[ai], 1, map[ssa.Value]bool{}); okc {
									compared = true
								}
							}
						}
					}
				}
				if !compared {
					continue
				}
				found++
				site := P.FnName(fn) + " " + P.Pos(al.Pos())
				var whys []string
				for _, st := range inLoop {
					if dependsOnLocal(st.Val, al) {
						whys = append(whys, "the value stored into the running evaluation at "+P.Pos(st.Pos())+" is derived from its previous value")
					}
				}
				if ok, why := localOnlyCompared(P, al, 0, map[ssa.Value]bool{}); !ok {
					whys = append(whys, why)
				}
				// the value it starts with: the result of one call (the combination of the initial openings), computed
				// without the step data — otherwise the first consistency check compares the step's claim with itself
				for _, st := range outLoop {
					src := stripCopies(st.Val)
					for k := 0; k < 4; k++ {
						a2 := allocOfLoad(src)
						if a2 == nil || a2 == al {
							break
						}
						sts := storesInto(a2)
						if len(sts) != 1 {
							break
						}
						src = stripCopies(sts[0].Val)
					}
					if c, isCall := src.(*ssa.Call); !isCall || c.Common().StaticCallee() == nil || !P.InModule(c.Common().StaticCallee()) {
						whys = append(whys, "the running evaluation does not start as the result of one call (the combined initial openings) at "+P.Pos(st.Pos())+": "+src.String())
						continue
					}
					if sliceHits(src, func(x ssa.Value) bool {
						fa, ok := x.(*ssa.FieldAddr)
						return ok && fieldName(fa.X.Type(), fa.Field) == "Steps"
					}) {
						whys = append(whys, "the initial running evaluation at "+P.Pos(st.Pos())+" is computed from the reduction steps' data")
					}
				}
				if len(whys) > 0 {
					obs = append(obs, bad(key, desc, strings.Join(whys, " | "), site))
				} else {
					obs = append(obs, good(key, desc, site))
				}
			}
		}
	}
	// the same running value held in a register: an extension-typed φ of a loop header (the local is never indexed,
	// e.g. compared through AssertIsEqualExtension only)
	for _, fn := range P.ModuleFuncsSorted() {
		if fn.Blocks == nil || fnPkgShort(fn) != "fri" {
			continue
		}
		fi := GetFnInfo(fn)
		for _, l := range fi.Loops {
			for _, ins := range l.Header.Instrs {
				phi, ok := ins.(*ssa.Phi)
				if !ok {
					break
				}
				if !isQEType(phi.Type()) || phi.Referrers() == nil {
					continue
				}
				compared := false
				for _, r := range *phi.Referrers() {
					c, ok := r.(ssa.CallInstruction)
					if !ok || r.Block() == nil || !l.Blocks[r.Block()] {
						continue
					}
					if isEqualityCall(c) {
						compared = true
					} else if g := c.Common().StaticCallee(); g != nil && g.Blocks != nil && P.InModule(g) && containsEquality(g) {
						for ai, a := range c.Common().Args {
							if a == ssa.Value(phi) && ai < len(g.Params) {
								if okc, _ := onlyCompared(P, g.Params[ai], 1, map[ssa.Value]bool{}); okc {
									compared = true
								}
							}
						}
					}
				}
				if !compared {
					continue
				}
				found++
				site := P.FnName(fn) + " " + P.Pos(phi.Pos())
				var whys []string
				for i, p := range l.Header.Preds {
					e := phi.Edges[i]
					if l.Blocks[p] {
						if sliceHits(e, func(x ssa.Value) bool { return x == ssa.Value(phi) }) {
							whys = append(whys, "the value carried to the next step is derived from the previous running evaluation ("+e.Name()+")")
						}
						continue
					}
					src := stripCopies(e)
					if c, isCall := src.(*ssa.Call); !isCall || c.Common().StaticCallee() == nil || !P.InModule(c.Common().StaticCallee()) {
						whys = append(whys, "the running evaluation does not start as the result of one call (the combined initial openings): "+src.String())
					} else if sliceHits(src, func(x ssa.Value) bool {
						fa, ok := x.(*ssa.FieldAddr)
						return ok && fieldName(fa.X.Type(), fa.Field) == "Steps"
					}) {
						whys = append(whys, "the initial running evaluation is computed from the reduction steps' data")
					}
				}
				if ok, why := onlyCompared(P, phi, 0, map[ssa.Value]bool{}); !ok {
					whys = append(whys, why)
				}
				if len(whys) > 0 {
					obs = append(obs, bad(key, desc, strings.Join(whys, " | "), site))
				} else {
					obs = append(obs, good(key, desc, site))
				}
			}
		}
	}
	if found == 0 {
		obs = append(obs, undecided(key, desc, "no loop-carried extension value that is compared inside its loop was found in package fri"))
	}
	return obs
}
