package main

// Reads package-level constant tables (composite literals of integer constants, possibly wrapped in
// conversions such as frontend.Variable(uint64(0x…))) from the type-checked syntax.

import (
	"go/ast"
	"go/constant"
	"go/token"
	"math/big"
	"strings"

	"golang.org/x/tools/go/packages"
	"golang.org/x/tools/go/ssa"
)

func (P *Program) pkgOf(sp *ssa.Package) *packages.Package {
	var out *packages.Package
	packages.Visit(P.Pkgs, nil, func(p *packages.Package) {
		if p.Types == sp.Pkg {
			out = p
		}
	})
	return out
}

func readConstTables(P *Program, sp *ssa.Package) map[string][]*big.Int {
	out := map[string][]*big.Int{}
	pk := P.pkgOf(sp)
	if pk == nil {
		return out
	}
	for pass := 0; pass < 2; pass++ {
		for _, f := range pk.Syntax {
			for _, d := range f.Decls {
				gd, ok := d.(*ast.GenDecl)
				if !ok || gd.Tok != token.VAR {
					continue
				}
				for _, s := range gd.Specs {
					vs, ok := s.(*ast.ValueSpec)
					if !ok || len(vs.Names) != 1 || len(vs.Values) != 1 {
						continue
					}
					var vals []*big.Int
					okAll := true
					var walk func(e ast.Expr)
					walk = func(e ast.Expr) {
						switch x := e.(type) {
						case *ast.CompositeLit:
							for _, el := range x.Elts {
								if kv, ok := el.(*ast.KeyValueExpr); ok {
									walk(kv.Value)
								} else {
									walk(el)
								}
							}
							return
						case *ast.ParenExpr:
							walk(x.X)
							return
						}
						if id, ok := e.(*ast.Ident); ok {
							if prev, ok := out[id.Name]; ok && len(prev) == 1 {
								vals = append(vals, prev[0])
								return
							}
						}
						// unwrap conversions until a constant is found
						cur := e
						for i := 0; i < 4; i++ {
							if tv, ok := pk.TypesInfo.Types[cur]; ok && tv.Value != nil && tv.Value.Kind() == constant.Int {
								z, ok := new(big.Int).SetString(tv.Value.ExactString(), 10)
								if ok {
									vals = append(vals, z)
									return
								}
							}
							if ce, ok := cur.(*ast.CallExpr); ok && len(ce.Args) == 1 {
								cur = ce.Args[0]
								continue
							}
							break
						}
						okAll = false
					}
					walk(vs.Values[0])
					if okAll && len(vals) > 0 {
						out[vs.Names[0].Name] = vals
					}
				}
			}
		}
	}
	_ = strings.TrimSpace
	return out
}
