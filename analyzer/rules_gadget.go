package main

// Gadget-level rules (entries are functions of package goldilocks / poseidon, evaluated with full descent):
// C05 R1 hint discipline + W1 no-wrap of the hint equations, width census (W3), C07, C08, C09.1.

import (
	"fmt"
	"go/token"
	"go/types"
	"math/big"
	"sort"
	"strings"

	"golang.org/x/tools/go/ssa"
)

func (cx *Ctx) EntryFn(fn *ssa.Function) *Run {
	key := "fn:" + fn.String()
	if r, ok := cx.runs[key]; ok {
		return r
	}
	in := NewInterp(cx.P)
	in.OpaquePure = !in.Layer[fnPkgShort(fn)]
	res := in.Run(fn)
	r := &Run{In: in, Entry: fn, Res: res, Recs: in.Flatten(res)}
	cx.runs[key] = r
	n, _ := cx.Stats["entries_evaluated"].(int)
	cx.Stats["entries_evaluated"] = n + 1
	return r
}

// hintHosts: module functions (non-test) that call Compiler().NewHint directly.
func hintHosts(P *Program) []*ssa.Function {
	var out []*ssa.Function
	for _, f := range P.ModuleFuncsSorted() {
		found := false
		for _, b := range f.Blocks {
			for _, ins := range b.Instrs {
				if c, ok := ins.(*ssa.Call); ok && c.Common().IsInvoke() && c.Common().Method.Name() == "NewHint" {
					found = true
				}
			}
		}
		if found {
			out = append(out, f)
		}
	}
	// an unexported helper that only witnesses the values (its callers apply the checks) is represented by its
	// callers: the discipline is decided where the helper's results are used
	callersOf := func(g *ssa.Function) []*ssa.Function {
		var cs []*ssa.Function
		seen := map[*ssa.Function]bool{}
		for _, f := range P.ModuleFuncsSorted() {
			for _, b := range f.Blocks {
				for _, ins := range b.Instrs {
					if c, ok := ins.(ssa.CallInstruction); ok && c.Common().StaticCallee() == g && !seen[f] {
						seen[f] = true
						cs = append(cs, f)
					}
				}
			}
		}
		return cs
	}
	for depth := 0; depth < 2; depth++ {
		var next []*ssa.Function
		seen := map[*ssa.Function]bool{}
		for _, f := range out {
			cs := callersOf(f)
			samePkg := len(cs) > 0
			for _, c := range cs {
				if fnPkgShort(c) != fnPkgShort(f) {
					samePkg = false
				}
			}
			if f.Object() != nil && !f.Object().Exported() && samePkg {
				for _, c := range cs {
					if !seen[c] {
						seen[c] = true
						next = append(next, c)
					}
				}
			} else if !seen[f] {
				seen[f] = true
				next = append(next, f)
			}
		}
		out = next
	}
	sort.Slice(out, func(i, j int) bool { return out[i].String() < out[j].String() })
	return out
}

// helperChain: the record was produced inside unexported helpers of the entry's own package (a gadget split into
// steps), not inside another gadget
func helperChain(entry *ssa.Function, chain []CallStep) bool {
	for _, cs := range chain {
		if cs.Callee == nil || cs.Callee.Object() == nil || cs.Callee.Object().Exported() || fnPkgShort(cs.Callee) != fnPkgShort(entry) {
			return false
		}
	}
	return true
}

type widthSite struct {
	Site      string
	N         *big.Int // nil = not a compile-time constant
	Expr      string
	NonCommit bool // the width is chosen only on a branch where Chip.rangeCheckerType equals a non-commit kind
}

// guardedNonCommit reports whether block b is only reached through the true edge of `x.rangeCheckerType == K` for a
// declared checker kind K other than the commit-based one
func guardedNonCommit(P *Program, b *ssa.BasicBlock) bool {
	enum := P.enumOf("goldilocks", "RangeCheckerType")
	if enum == nil {
		return false
	}
	commit, has := enum.ByName["COMMIT_RANGE_CHECKER"]
	if !has {
		return false
	}
	for c := b; c != nil && c.Idom() != nil; c = c.Idom() {
		p := c.Idom()
		if len(c.Preds) != 1 || c.Preds[0] != p || len(p.Instrs) == 0 {
			continue
		}
		iff, ok := p.Instrs[len(p.Instrs)-1].(*ssa.If)
		if !ok || p.Succs[0] != c {
			continue
		}
		bo, ok := iff.Cond.(*ssa.BinOp)
		if !ok || bo.Op != token.EQL {
			continue
		}
		for _, pr := range [][2]ssa.Value{{bo.X, bo.Y}, {bo.Y, bo.X}} {
			if _, ok := fieldLoad(stripCopies(pr[0]), "rangeCheckerType"); !ok {
				continue
			}
			if k, ok := pr[1].(*ssa.Const); ok {
				if n, ok := constInt(k); ok && n != commit {
					if _, declared := enum.ByVal[n]; declared {
						return true
					}
				}
			}
		}
	}
	return false
}

// widthVals resolves one width argument to the constants it can hold: conversions are looked through, a φ contributes
// every incoming edge, a parameter is followed to the caller's call sites
func widthVals(P *Program, caller *ssa.Function, v ssa.Value, site string, depth int, seen map[ssa.Value]bool) []widthSite {
	for {
		if cv, ok := v.(*ssa.Convert); ok {
			v = cv.X
			continue
		}
		if ct, ok := v.(*ssa.ChangeType); ok {
			v = ct.X
			continue
		}
		break
	}
	if seen[v] {
		return nil
	}
	seen[v] = true
	switch x := v.(type) {
	case *ssa.Const:
		if i, ok := constInt(x); ok {
			return []widthSite{{Site: site, N: big.NewInt(i)}}
		}
	case *ssa.Phi:
		var out []widthSite
		for i, e := range x.Edges {
			nc := guardedNonCommit(P, x.Block().Preds[i])
			for _, w := range widthVals(P, caller, e, site, depth, seen) {
				w.NonCommit = w.NonCommit || nc
				out = append(out, w)
			}
		}
		return out
	case *ssa.UnOp:
		if g, ok := x.X.(*ssa.Global); ok && x.Op == token.MUL {
			if init, ok := P.GlobalInit(g); ok {
				if cc, ok := init.(*ssa.Const); ok {
					if i, ok := constInt(cc); ok {
						return []widthSite{{Site: site + " (global " + g.Name() + ")", N: big.NewInt(i)}}
					}
				}
			}
			return []widthSite{{Site: site, Expr: "global " + g.Name() + " is re-assigned or not constant"}}
		}
	case *ssa.Parameter:
		var out []widthSite
		for pi, p := range caller.Params {
			if p == x {
				for _, w := range widthsReaching(P, caller, pi, depth+1) {
					w.Site = w.Site + " → " + site
					out = append(out, w)
				}
			}
		}
		return out
	}
	return []widthSite{{Site: site, Expr: v.String()}}
}

// widthsReaching: the constants that reach parameter idx of fn through the module's static call sites
// (interprocedural constant propagation over direct calls; globals count only if never re-assigned).
func widthsReaching(P *Program, fn *ssa.Function, idx int, depth int) []widthSite {
	var out []widthSite
	if depth > 4 {
		return []widthSite{{Site: P.FnName(fn), Expr: "call chain too deep"}}
	}
	for _, caller := range P.ModuleFuncsSorted() {
		for _, b := range caller.Blocks {
			for _, ins := range b.Instrs {
				c, ok := ins.(ssa.CallInstruction)
				if !ok || c.Common().StaticCallee() != fn || idx >= len(c.Common().Args) {
					continue
				}
				site := P.FnName(caller) + " " + P.Pos(ins.Pos())
				out = append(out, widthVals(P, caller, c.Common().Args[idx], site, depth, map[ssa.Value]bool{})...)
			}
		}
	}
	return out
}

type hintFacts struct {
	host    *ssa.Function
	rec     *Rec
	root    string
	bounds  map[string]*big.Int // per output path: enforced upper bound (nil with symW = symbolic width)
	symW    map[string]string   // output path → name of the width parameter
	sinkAt  map[string]string
	tying   *Rec
	missing []int
	resolve func(vs ...*Val) (map[string]bool, Bits)
}

func limbPath(v *Val, in *Interp) (string, bool) {
	if v == nil {
		return "", false
	}
	if p, ok := v.Definite(); ok {
		return p, true
	}
	if len(v.Kids) == 1 && len(v.Dir) == 0 {
		if l, ok := v.Kids[".Limb"]; ok {
			return l.Definite()
		}
	}
	return "", false
}

func collectHintFacts(cx *Ctx, host *ssa.Function) (*Run, []*hintFacts) {
	r := cx.EntryFn(host)
	var out []*hintFacts
	for _, rec := range r.Recs {
		if rec.Kind != "hint" || !helperChain(host, rec.Chain) {
			continue
		}
		name := "?"
		if rec.HintFn != nil {
			name = rec.HintFn.Name()
		}
		hf := &hintFacts{host: host, rec: rec, root: fmt.Sprintf("H:%s@%s", name, r.In.P.Pos(rec.Site)), bounds: map[string]*big.Int{}, symW: map[string]string{}, sinkAt: map[string]string{}}
		for k := 0; k < rec.HintN; k++ {
			out := fmt.Sprintf("%s#%d", hf.root, k)
			found := false
			for _, s := range r.Recs {
				if !s.Must || len(s.Args) == 0 {
					continue
				}
				switch s.Kind {
				case "canon":
					if p, ok := limbPath(s.Args[0], r.In); ok && (p == out || p == out+".Limb") {
						hf.bounds[out] = new(big.Int).Sub(bigP, big.NewInt(1))
						hf.sinkAt[out] = r.site(s)
						found = true
					}
				case "range":
					if p, ok := s.Args[0].Definite(); ok && p == out {
						if w := constOf(s.Width); w != nil && w.IsInt64() && w.Int64() >= 0 && w.Int64() < 300 {
							hf.bounds[out] = new(big.Int).Sub(pow2(uint(w.Int64())), big.NewInt(1))
							hf.sinkAt[out] = r.site(s)
							found = true
						} else if wp, ok := s.Width.Definite(); ok {
							hf.symW[out] = wp
							hf.sinkAt[out] = r.site(s)
							found = true
						}
					}
				}
				if found {
					break
				}
			}
			if !found {
				hf.missing = append(hf.missing, k)
			}
		}
		// the equality that ties outputs to inputs. An output of ANOTHER hint occurring in a candidate (e.g. the
		// product computed by a nested Mul) stands for that hint's inputs: it is resolved through the hint record.
		// Equalities of the host's own body are preferred over those of callees (which define the callee's own
		// hint outputs, not the host's).
		hintByRoot := map[string]*Rec{}
		for _, h := range r.Recs {
			if h.Kind == "hint" {
				nm := "?"
				if h.HintFn != nil {
					nm = h.HintFn.Name()
				}
				hintByRoot[fmt.Sprintf("H:%s@%s", nm, r.In.P.Pos(h.Site))] = h
			}
		}
		resolved := func(vs ...*Val) (map[string]bool, Bits) {
			names := map[string]bool{}
			var all Bits
			var work []*Val
			work = append(work, vs...)
			seen := map[string]bool{hf.root: true}
			for len(work) > 0 {
				v := work[len(work)-1]
				work = work[:len(work)-1]
				d := r.In.AllDeps(v)
				all = all.Or(d)
				for _, n := range r.In.Atoms.Names(d) {
					names[n] = true
					if strings.HasPrefix(n, "H:") {
						root := n
						if i := strings.LastIndex(n, "#"); i > 0 {
							root = n[:i]
						}
						if h := hintByRoot[root]; h != nil && !seen[root] {
							seen[root] = true
							work = append(work, h.Args...)
						}
					}
				}
			}
			return names, all
		}
		hf.resolve = resolved
		var cands []*Rec
		for pass := 0; pass < 2; pass++ {
			for _, s := range r.Recs {
				if s.Kind == "eq" && s.Must && len(s.Args) == 2 && helperChain(host, s.Chain) == (pass == 0) {
					cands = append(cands, s)
				}
			}
		}
		for _, s := range cands {
			names, d := resolved(s.Args[0], s.Args[1])
			all := true
			for k := 0; k < rec.HintN; k++ {
				if !names[fmt.Sprintf("%s#%d", hf.root, k)] {
					all = false
				}
			}
			for _, inp := range rec.Args {
				if inp == nil || (inp.K != nil && len(inp.Dir) == 0) {
					continue
				}
				for _, p := range inp.Dir {
					if !names[genPath(p)] {
						all = false
					}
				}
				if len(inp.Dir) == 0 && !d.Intersects(r.In.AllDeps(inp)) {
					all = false
				}
			}
			if all {
				hf.tying = s
				break
			}
		}
		out = append(out, hf)
	}
	return r, out
}

// maxWidth: the largest n for which side stays below r when the symbolic-width output is bounded by 2^n-1.
func w1Bound(r *Run, hf *hintFacts, side *Val, n int, host *ssa.Function) (*big.Int, string) {
	leaf := func(p string) *big.Int {
		p = strings.TrimSuffix(p, ".Limb")
		if b, ok := hf.bounds[p]; ok {
			return b
		}
		if _, ok := hf.symW[p]; ok && n >= 0 {
			return new(big.Int).Sub(pow2(uint(n)), big.NewInt(1))
		}
		if strings.HasPrefix(p, "H:") {
			// an output of a nested hint site: its bound is whatever sink that site applies
			for _, s := range r.Recs {
				if !s.Must || len(s.Args) == 0 {
					continue
				}
				if q, ok := limbPath(s.Args[0], r.In); ok && strings.TrimSuffix(q, ".Limb") == p {
					switch s.Kind {
					case "canon":
						return new(big.Int).Sub(bigP, big.NewInt(1))
					case "range":
						if w := constOf(s.Width); w != nil && w.IsInt64() && w.Int64() < 300 {
							return new(big.Int).Sub(pow2(uint(w.Int64())), big.NewInt(1))
						}
					}
				}
			}
			return nil
		}
		// operand contract of the arithmetic gadgets: Goldilocks-typed parameters are canonical (< p)
		for _, prm := range host.Params {
			if (p == prm.Name() || strings.HasPrefix(p, prm.Name()+".") || strings.HasPrefix(p, prm.Name()+"[")) && typeIs(prm.Type(), "goldilocks.Variable", "goldilocks.QuadraticExtensionVariable") {
				return new(big.Int).Sub(bigP, big.NewInt(1))
			}
		}
		return nil
	}
	return BoundOf(side, leaf, 0)
}

func rulesC05(cx *Ctx) []Obligation {
	var obs []Obligation
	P := cx.P
	hosts := hintHosts(P)
	if len(hosts) < 4 {
		obs = append(obs, undecided("C05/R1/census", "the hint sites of the module are found", fmt.Sprintf("%d functions call NewHint; 4 were confirmed by hand", len(hosts))))
	}
	nSites := 0
	for _, host := range hosts {
		r, facts := collectHintFacts(cx, host)
		hn := strings.TrimPrefix(P.FnName(host), "(*goldilocks.Chip).")
		for _, n := range r.In.Notes {
			if strings.HasPrefix(n, "fixpoint not reached") {
				obs = append(obs, undecided("C05/engine/"+hn, "analysis completes", n))
			}
		}
		for _, hf := range facts {
			nSites++
			where := r.site(hf.rec)
			for k := 0; k < hf.rec.HintN; k++ {
				out := fmt.Sprintf("%s#%d", hf.root, k)
				key := fmt.Sprintf("C05/R1/%s/out%d", hn, k)
				desc := "every prover-supplied hint output is itself the argument of a range check that executes on every path (its enforced bound is recorded)"
				if s, ok := hf.sinkAt[out]; ok {
					b := "width parameter " + hf.symW[out]
					if hf.bounds[out] != nil {
						b = "≤ " + bitsStr(hf.bounds[out])
					}
					obs = append(obs, good(key, desc, s+" bound "+b))
				} else {
					obs = append(obs, bad(key, desc, "hint output "+out+" reaches no must-executed canonical or n-bit range check: any field element is accepted for it", where))
				}
			}
			// a hint output that the gadget returns is a Goldilocks value determined only modulo p by the
			// constraints: it must be confined to [0, p); an n-bit check (even n = 64) admits value + p
			retPaths := map[string]bool{}
			var collect func(v *Val, d int)
			collect = func(v *Val, d int) {
				if v == nil || d > 4 {
					return
				}
				for _, p := range v.Dir {
					retPaths[strings.TrimSuffix(p, ".Limb")] = true
				}
				for _, k := range v.Kids {
					collect(k, d+1)
				}
			}
			collect(r.Res.Ret, 0)
			for k := 0; k < hf.rec.HintN; k++ {
				out := fmt.Sprintf("%s#%d", hf.root, k)
				if !retPaths[out] {
					continue
				}
				ckey := fmt.Sprintf("C05/R1/%s/out%d-returned-canonical", hn, k)
				cdesc := "a hint output that the gadget returns as a field element is confined to [0, p) by the canonical range check (a plain n-bit check would also accept value + p)"
				b := hf.bounds[out]
				if b != nil && b.Cmp(bigP) < 0 {
					obs = append(obs, good(ckey, cdesc, hf.sinkAt[out]))
				} else if _, has := hf.sinkAt[out]; has {
					obs = append(obs, bad(ckey, cdesc, "the returned hint output is only checked to "+boundDesc(b, hf.symW[out])+", which admits non-canonical values", hf.sinkAt[out]))
				}
			}
			key := fmt.Sprintf("C05/R1/%s/eq", hn)
			desc := "an equality that executes on every path ties all hint outputs to all hint inputs"
			if hf.tying == nil {
				obs = append(obs, bad(key, desc, "no must-executed equality whose operands depend on every output and every input of the hint", where))
				continue
			}
			obs = append(obs, good(key, desc, r.site(hf.tying)))
			// a Select inside the tying equality may switch it off: its condition must not be under the prover's
			// control (it may depend on the hint's inputs, never on its outputs)
			gkey := fmt.Sprintf("C05/R1/%s/eq-guard", hn)
			gdesc := "where the tying equality is conditional (a Select among its operands), the condition does not depend on any output of the hint"
			gbad := ""
			var walk func(v *Val, depth int)
			walk = func(v *Val, depth int) {
				if v == nil || v.Ex == nil || depth > 12 {
					return
				}
				if (v.Ex.Op == "Select" || v.Ex.Op == "Lookup2") && len(v.Ex.Args) >= 1 {
					nc := 1
					if v.Ex.Op == "Lookup2" {
						nc = 2
					}
					for ci := 0; ci < nc && ci < len(v.Ex.Args); ci++ {
						names, _ := hf.resolve(v.Ex.Args[ci])
						for n := range names {
							if strings.HasPrefix(n, hf.root+"#") {
								gbad = "the condition of a " + v.Ex.Op + " in the tying equality depends on hint output " + n + ": the prover can switch the equality off"
							}
						}
					}
				}
				for _, a := range v.Ex.Args {
					walk(a, depth+1)
				}
			}
			for _, side := range hf.tying.Args {
				walk(side, 0)
			}
			if gbad != "" {
				obs = append(obs, bad(gkey, gdesc, gbad, r.site(hf.tying)))
			} else {
				obs = append(obs, good(gkey, gdesc, r.site(hf.tying)))
			}
			// W1
			hasSym := len(hf.symW) > 0
			wkey := fmt.Sprintf("C05/W1/%s", hn)
			wdesc := "both sides of the tying equality stay below the BN254 scalar field for all values within the enforced bounds (no wrap-around, so the integer identity holds and the result is unique)"
			evalSides := func(n int) (bool, string) {
				for i, side := range hf.tying.Args {
					if _, bare := side.Definite(); bare && side.Ex == nil {
						continue // a single field element is below r by definition
					}
					if c := constOf(side); c != nil && side.Ex == nil {
						continue
					}
					b, why := w1Bound(r, hf, side, n, host)
					if b == nil {
						return false, fmt.Sprintf("side %d cannot be bounded: %s", i, why)
					}
					if b.Cmp(bigR) >= 0 {
						return false, fmt.Sprintf("side %d can reach %s ≥ r (≈2^253.6)", i, bitsStr(b))
					}
				}
				return true, ""
			}
			if !hasSym {
				if okk, why := evalSides(-1); okk {
					obs = append(obs, good(wkey, wdesc, r.site(hf.tying)))
				} else {
					obs = append(obs, bad(wkey, wdesc, why, r.site(hf.tying)))
				}
				continue
			}
			// symbolic width: largest admissible n, then every constant reaching the parameter
			maxN := -1
			for n := 0; n <= 253; n++ {
				if okk, _ := evalSides(n); okk {
					maxN = n
				} else {
					break
				}
			}
			var wparam string
			for _, w := range hf.symW {
				wparam = w
			}
			pidx := -1
			for i, prm := range host.Params {
				if prm.Name() == wparam {
					pidx = i
				}
			}
			if pidx < 0 || maxN < 0 {
				obs = append(obs, undecided(wkey, wdesc, "width parameter "+wparam+" not resolved"))
				continue
			}
			sites := widthsReaching(P, host, pidx, 0)
			if len(sites) == 0 {
				obs = append(obs, undecided(wkey, wdesc, "no call site passes a width to "+P.FnName(host)))
			}
			for _, ws := range sites {
				k := fmt.Sprintf("%s/width@%s", wkey, siteFn(ws.Site))
				d := fmt.Sprintf("%s — the quotient width reaching %s must be ≤ %d (2^n·p + p ≤ r)", wdesc, hn, maxN)
				switch {
				case ws.N == nil:
					obs = append(obs, undecided(k, d, "width is not a compile-time constant: "+ws.Expr+" at "+ws.Site))
				case ws.N.Cmp(big.NewInt(int64(maxN))) > 0:
					obs = append(obs, bad(k, d, fmt.Sprintf("width %s allows quotient·p + remainder to exceed r: a second (quotient, remainder) pair satisfies the identity modulo r", ws.N), ws.Site))
				default:
					obs = append(obs, good(k, d, fmt.Sprintf("%s width %s", ws.Site, ws.N)))
				}
			}
		}
	}
	if nSites < 4 {
		obs = append(obs, undecided("C05/R1/floor", "at least the four hand-confirmed hint sites are analysed", fmt.Sprintf("%d sites", nSites)))
	}
	return obs
}

// siteFn: the function name part of a "Func file:line → …" site string, used in obligation keys (no line numbers).
func siteFn(s string) string {
	parts := strings.Split(s, " → ")
	var names []string
	for _, p := range parts {
		f := strings.Fields(p)
		if len(f) > 0 {
			names = append(names, f[0])
		}
	}
	return strings.Join(names, ">")
}

func bitsStr(b *big.Int) string {
	return fmt.Sprintf("2^%d-ish (%d bits)", b.BitLen(), b.BitLen())
}

// ---------------------------------------------------------------- W3: widths reaching the n-bit range primitive

func rulesW3(cx *Ctx, prop string) []Obligation {
	var obs []Obligation
	P := cx.P
	in := NewInterp(P)
	base := int64(16)
	if sp := P.SPkgs["goldilocks"]; sp != nil {
		if g, ok := sp.Members["EXPECTED_OPTIMAL_BASEWIDTH"].(*ssa.Global); ok {
			if init, ok := P.GlobalInit(g); ok {
				if c, ok := init.(*ssa.Const); ok {
					if v, ok := constInt(c); ok {
						base = v
					}
				}
			} else {
				obs = append(obs, bad(prop+"/W3/basewidth-constant", "EXPECTED_OPTIMAL_BASEWIDTH is a never-reassigned global with a constant initialiser", "it is assigned outside its initialiser"))
			}
		}
	}
	for fn := range in.RangePrm {
		for _, ws := range widthsReaching(P, fn, 2, 0) {
			key := prop + "/W3/" + siteFn(ws.Site)
			desc := fmt.Sprintf("every constant width reaching the n-bit range check is a multiple of the commit checker's base width %d (else the deferred drain panics on commit-based builders)", base)
			if ws.N == nil {
				obs = append(obs, Obligation{Key: key, Desc: desc, Status: INFO, Detail: "configuration-dependent width: " + ws.Expr + " at " + ws.Site})
				continue
			}
			if ws.NonCommit {
				obs = append(obs, good(key, desc, fmt.Sprintf("%s width %s is chosen only when the checker kind is not commit-based", ws.Site, ws.N)))
			} else if new(big.Int).Mod(ws.N, big.NewInt(base)).Sign() != 0 {
				obs = append(obs, bad(key, desc, fmt.Sprintf("width %s is not a multiple of %d", ws.N, base), ws.Site))
			} else {
				obs = append(obs, good(key, desc, fmt.Sprintf("%s width %s", ws.Site, ws.N)))
			}
		}
	}
	return obs
}

// ---------------------------------------------------------------- C07

// evalBoolExpr evaluates a 0/1-valued expression built from IsZero(x) (taking the value z), constants, Sub(1, e) and
// Select; −1 when it cannot be evaluated
func evalBoolExpr(v *Val, isZx func(*Expr) bool, z int64, depth int) int64 {
	if v == nil || depth > 8 {
		return -1
	}
	if k := constOf(v); k != nil && k.IsInt64() {
		return k.Int64()
	}
	if v.Ex == nil {
		return -1
	}
	switch v.Ex.Op {
	case "IsZero":
		if isZx(v.Ex) {
			return z
		}
	case "Sub":
		extraOK := true
		for _, e := range v.Ex.Args[min(2, len(v.Ex.Args)):] {
			if e != nil && (e.Ex != nil || len(e.Dir) > 0 || len(e.From) > 0) {
				extraOK = false // a third real operand
			}
		}
		if len(v.Ex.Args) >= 2 && extraOK {
			a, b := evalBoolExpr(v.Ex.Args[0], isZx, z, depth+1), evalBoolExpr(v.Ex.Args[1], isZx, z, depth+1)
			if a >= 0 && b >= 0 {
				return a - b
			}
		}
	case "Select":
		if len(v.Ex.Args) == 3 {
			switch evalBoolExpr(v.Ex.Args[0], isZx, z, depth+1) {
			case 1:
				return evalBoolExpr(v.Ex.Args[1], isZx, z, depth+1)
			case 0:
				return evalBoolExpr(v.Ex.Args[2], isZx, z, depth+1)
			}
		}
	}
	return -1
}

func rulesC07(cx *Ctx) []Obligation {
	var obs []Obligation
	P := cx.P
	// O7.1 zero branch of Inverse
	if r := cx.Entry("goldilocks", "(*Chip).Inverse"); r == nil {
		obs = append(obs, undecided("C07/O7.1/anchor", "gl.Chip.Inverse exists", "not found"))
	} else {
		x := r.Entry.Params[1].Name() + ".Limb"
		isZx := func(e *Expr) bool {
			if len(e.Args) < 1 {
				return false
			}
			p, ok := e.Args[0].Definite()
			return ok && p == x
		}
		key := "C07/O7.1/zero-branch"
		desc := "inverse of zero reports 'no inverse' instead of failing: the product assertion is a Select conditioned on IsZero(x), and the returned flag depends on the same IsZero(x)"
		found := false
		polarity := ""
		for _, rec := range r.Recs {
			if rec.Kind != "eq" || !rec.Must || !helperChain(r.Entry, rec.Chain) || len(rec.Args) != 2 {
				continue
			}
			for _, a := range rec.Args {
				if a.Ex != nil && a.Ex.Op == "Select" && len(a.Ex.Args) == 3 && exprFind(a.Ex.Args[0], "IsZero", isZx, 0) {
					flag := r.In.Narrow(r.Res.Ret, "#1")
					if !exprFind(flag, "IsZero", isZx, 0) {
						continue
					}
					// polarity: with x = 0 (IsZero = 1) the Select must yield the constant 1 and the flag 0; with x ≠ 0 the
					// product and the flag 1 — exchanged arms assert nothing for every invertible x
					armFor := func(z int64) *Val {
						switch evalBoolExpr(a.Ex.Args[0], isZx, z, 0) {
						case 1:
							return a.Ex.Args[1]
						case 0:
							return a.Ex.Args[2]
						}
						return nil
					}
					isOne := func(v *Val) bool { k := constOf(v); return k != nil && k.Cmp(big.NewInt(1)) == 0 }
					whenZero, whenNonZero := armFor(1), armFor(0)
					switch {
					case whenZero == nil || whenNonZero == nil:
						polarity = "the condition of the Select is not IsZero(x) or 1 − IsZero(x)"
					case !isOne(whenZero) || isOne(whenNonZero):
						polarity = "the arms of the Select are exchanged: the product is compared only when x = 0, nothing is asserted for an invertible x"
					case evalBoolExpr(flag, isZx, 1, 0) != 0 || evalBoolExpr(flag, isZx, 0, 0) != 1:
						polarity = "the returned flag is not 1 − IsZero(x)"
					default:
						found = true
						obs = append(obs, good(key, desc, r.site(rec)))
					}
				}
			}
		}
		if !found && polarity != "" {
			obs = append(obs, bad(key, desc, polarity, P.FnName(r.Entry)))
		} else if !found {
			obs = append(obs, bad(key, desc, "the equality asserting inverse·x = 1 is not conditioned on IsZero(x) (x = 0 makes the circuit unsatisfiable) or the flag is not derived from it", P.FnName(r.Entry)))
		}
	}
	// O7.2 reduce width
	red := P.Func("goldilocks", "(*Chip).Reduce")
	rw := P.Func("goldilocks", "(*Chip).ReduceWithMaxBits")
	key := "C07/O7.2/reduce-width"
	desc := "Reduce accepts inputs up to 2^144·p: it passes the never-reassigned global RANGE_CHECK_NB_BITS (constant initialiser ≥ 144) as quotient width"
	if red == nil || rw == nil {
		obs = append(obs, undecided(key, desc, "gl.Chip.Reduce / ReduceWithMaxBits not found"))
	} else {
		okk := false
		for _, b := range red.Blocks {
			for _, ins := range b.Instrs {
				c, ok := ins.(*ssa.Call)
				if !ok || c.Common().StaticCallee() != rw || len(c.Common().Args) < 3 {
					continue
				}
				v := stripCopies(c.Common().Args[2])
				if u, ok := v.(*ssa.UnOp); ok && u.Op == token.MUL {
					if g, ok := u.X.(*ssa.Global); ok {
						if init, ok := P.GlobalInit(g); ok {
							if cc, ok := init.(*ssa.Const); ok {
								if n, ok := constInt(cc); ok && n >= 144 {
									okk = true
									obs = append(obs, good(key, desc, fmt.Sprintf("%s global %s = %d", P.Pos(ins.Pos()), g.Name(), n)))
								} else {
									obs = append(obs, bad(key, desc, fmt.Sprintf("global %s = %d < 144: honest unreduced accumulations no longer fit", g.Name(), n), P.Pos(ins.Pos())))
									okk = true
								}
							}
						} else {
							obs = append(obs, bad(key, desc, "global "+g.Name()+" is re-assigned somewhere or has no constant initialiser", P.Pos(ins.Pos())))
							okk = true
						}
					}
				} else if cc, ok := v.(*ssa.Const); ok {
					if n, ok := constInt(cc); ok && n >= 144 {
						okk = true
						obs = append(obs, good(key, desc, fmt.Sprintf("%s constant %d", P.Pos(ins.Pos()), n)))
					}
				}
			}
		}
		if !okk {
			obs = append(obs, bad(key, desc, "Reduce does not forward a constant width ≥ 144 to the witnessed reduction", P.FnName(red)))
		}
	}
	// O7.3 reducing methods return a canonical remainder
	chip := P.NamedType("goldilocks", "Chip")
	if chip == nil {
		return append(obs, undecided("C07/O7.3/anchor", "type gl.Chip exists", "not found"))
	}
	ms := P.Prog.MethodSets.MethodSet(types.NewPointer(chip))
	n := 0
	for i := 0; i < ms.Len(); i++ {
		f := P.Prog.MethodValue(ms.At(i))
		if f == nil || f.Blocks == nil || strings.Contains(f.Name(), "NoReduce") {
			continue
		}
		if f.Object() != nil && !f.Object().Exported() {
			continue // an unexported witness helper hands its outputs to the exported gadget that checks them
		}
		res := f.Signature.Results()
		if res.Len() == 0 || !typeIs(res.At(0).Type(), "goldilocks.Variable") {
			continue
		}
		n++
		r := cx.EntryFn(f)
		ret := r.Res.Ret
		if res.Len() > 1 {
			ret = r.In.Narrow(ret, "#0")
		}
		key := "C07/O7.3/" + f.Name()
		desc := "the reducing arithmetic method returns a witnessed value that a canonical range check (executing on every path) confines to [0, p)"
		p, okk := limbPath(ret, r.In)
		if !okk || !strings.HasPrefix(p, "H:") {
			obs = append(obs, bad(key, desc, "the returned value is not (definitely) a hint output: "+ret.short(2), P.FnName(f)))
			continue
		}
		p = strings.TrimSuffix(p, ".Limb")
		found := false
		for _, s := range r.Recs {
			if s.Kind == "canon" && s.Must && len(s.Args) > 0 {
				if q, ok := limbPath(s.Args[0], r.In); ok && strings.TrimSuffix(q, ".Limb") == p {
					found = true
					obs = append(obs, good(key, desc, r.site(s)))
					break
				}
			}
		}
		if !found {
			obs = append(obs, bad(key, desc, "the returned hint output "+p+" is not canonically range-checked on every path", P.FnName(f)))
		}
	}
	if n < 6 {
		obs = append(obs, undecided("C07/O7.3/floor", "the reducing methods of gl.Chip are enumerated", fmt.Sprintf("%d found, 7 confirmed by hand", n)))
	}
	return obs
}

// ---------------------------------------------------------------- C08

func rulesC08(cx *Ctx) []Obligation {
	var obs []Obligation
	P := cx.P
	r := cx.Entry("goldilocks", "(*Chip).InverseExtension")
	if r == nil {
		return []Obligation{undecided("C08/O8.1/anchor", "gl.Chip.InverseExtension exists", "not found")}
	}
	a := r.Entry.Params[1].Name()
	key := "C08/O8.1/nonzero"
	desc := "inversion of zero is rejected: an equality executing on every path asserts IsZero(a[0])·IsZero(a[1]) == 0, the zero test covering both coordinates"
	found := false
	why := "no must-executed equality-to-zero on a zero test of the argument"
	for _, rec := range r.Recs {
		if rec.Kind != "eq" || !rec.Must || len(rec.Args) != 2 {
			continue
		}
		for _, pair := range [][2]*Val{{rec.Args[0], rec.Args[1]}, {rec.Args[1], rec.Args[0]}} {
			z := constOf(pair[1])
			if z == nil || z.Sign() != 0 || pair[0].Ex == nil {
				continue
			}
			e := pair[0].Ex
			if e.Op != "Mul" && e.Op != "And" {
				continue
			}
			has := map[string]bool{}
			for _, f := range e.Args {
				if f != nil && f.Ex != nil && f.Ex.Op == "IsZero" && len(f.Ex.Args) >= 1 {
					if p, ok := f.Ex.Args[0].Definite(); ok {
						has[p] = true
					}
				}
			}
			if has[a+"[0].Limb"] && has[a+"[1].Limb"] {
				found = true
				obs = append(obs, good(key, desc, r.site(rec)))
			} else if len(has) > 0 {
				why = fmt.Sprintf("the zero test covers only %v", keysOf(has))
			}
		}
	}
	if !found {
		obs = append(obs, bad(key, desc, why, P.FnName(r.Entry)))
	}
	// O8.2 DivExtension forwards its divisor to InverseExtension
	key = "C08/O8.2/div"
	desc = "division passes its divisor, itself, to InverseExtension on every path (so division by zero is rejected)"
	rd := cx.Entry("goldilocks", "(*Chip).DivExtension")
	if rd == nil {
		obs = append(obs, undecided(key, desc, "gl.Chip.DivExtension not found"))
	} else {
		b := rd.Entry.Params[2].Name()
		found := false
		for _, rec := range rd.Recs {
			if rec.Kind == "call" && rec.Must && rec.Callee == r.Entry && len(rec.Args) >= 2 {
				if p, ok := rec.Args[1].Definite(); ok && p == b {
					found = true
					obs = append(obs, good(key, desc, rd.site(rec)))
				}
			}
		}
		if !found {
			// the same sink inlined: accept a must-executed O8.1-shaped assertion on b
			obs = append(obs, bad(key, desc, "no must-executed call InverseExtension(divisor)", P.FnName(rd.Entry)))
		}
	}
	return obs
}

// ---------------------------------------------------------------- C09 (O9.1 inputs reduced first; O9.3 sibling tables)

func rulesC09(cx *Ctx) []Obligation {
	var obs []Obligation
	P := cx.P
	r := cx.Entry("poseidon", "(*GoldilocksChip).HashNoPad")
	key := "C09/O9.1/reduce-first"
	desc := "HashNoPad hands to the sponge exactly the reductions of its inputs: every input element is passed to gl.Chip.Reduce (full-range loop), and the slice given to the sponge contains only results of those reductions"
	if r == nil {
		return []Obligation{undecided(key, desc, "poseidon.GoldilocksChip.HashNoPad not found")}
	}
	input := r.Entry.Params[1].Name()
	reduce := P.Func("goldilocks", "(*Chip).Reduce")
	sponge := P.Func("poseidon", "(*GoldilocksChip).HashNToMNoPad")
	var redSites []string
	whyR := "no call gl.Chip.Reduce(input[i])"
	for _, rec := range r.Recs {
		if rec.Kind != "call" || rec.Callee != reduce || len(rec.Args) < 2 {
			continue
		}
		// directly in HashNoPad or in a helper of the same package it calls (extracted loop)
		inPkg := true
		for _, cs := range rec.Chain {
			if cs.Callee == nil || fnPkgShort(cs.Callee) != "poseidon" || cs.Callee == sponge {
				inPkg = false
			}
		}
		if !inPkg {
			continue
		}
		p, okk := rec.Args[1].Definite()
		if !okk || !strings.HasPrefix(p, input+"[") {
			continue
		}
		if !rec.Must {
			whyR = "the reduction of the inputs is conditional"
			continue
		}
		if c, w := r.covered(rec, p); !c {
			whyR = w
			continue
		}
		redSites = append(redSites, r.site(rec))
	}
	if len(redSites) == 0 {
		obs = append(obs, bad(key, desc, whyR, P.FnName(r.Entry)))
		return obs
	}
	// what reaches the sponge
	okSponge := false
	whyS := "no call into the sponge with a slice argument found"
	for _, rec := range r.Recs {
		if rec.Kind != "call" || len(rec.Chain) != 0 || rec.Callee == reduce || fnPkgShort(rec.Callee) != "poseidon" {
			continue
		}
		for i, prm := range rec.Callee.Params {
			if i == 0 || i >= len(rec.Args)+0 {
				continue
			}
			if _, isSlice := prm.Type().Underlying().(*types.Slice); !isSlice {
				continue
			}
			arg := rec.Args[i]
			el := r.In.Narrow(r.In.Narrow(arg, "[?]"), ".Limb")
			bad := ""
			if el == nil {
				bad = "sponge input has unknown content"
			} else {
				for _, p := range el.Dir {
					if !strings.HasPrefix(p, "H:ReduceHint@") || !strings.HasSuffix(p, "#1") {
						bad = "the sponge input may contain " + p + " (not a reduction result)"
					}
				}
				if len(el.Dir) == 0 {
					bad = "sponge input elements are not reduction results: " + el.short(1)
				}
			}
			if bad != "" {
				whyS = bad
			} else if rec.Must {
				okSponge = true
				redSites = append(redSites, r.site(rec))
			}
		}
	}
	if okSponge {
		obs = append(obs, good(key, desc, redSites...))
	} else {
		obs = append(obs, bad(key, desc, whyS, P.FnName(r.Entry)))
	}
	obs = append(obs, rulesSiblingTables(cx)...)
	return obs
}

// rulesSiblingTables: the constant tables used by the base-field Poseidon and their *_VARS / extension siblings
// must agree element-wise, and every table constant must be a canonical Goldilocks element.
func rulesSiblingTables(cx *Ctx) []Obligation {
	var obs []Obligation
	P := cx.P
	sp := P.SPkgs["poseidon"]
	if sp == nil {
		return nil
	}
	tables := readConstTables(P, sp)
	pairs := [][2]string{{"MDS_MATRIX_CIRC", "MDS_MATRIX_CIRC_VARS"}, {"MDS_MATRIX_DIAG", "MDS_MATRIX_DIAG_VARS"}, {"MDS0TO0", "MDS0TO0_VAR"}, {"FAST_PARTIAL_ROUND_W_HATS", "FAST_PARTIAL_ROUND_W_HATS_VARS"}}
	for _, pr := range pairs {
		a, okA := tables[pr[0]]
		b, okB := tables[pr[1]]
		key := "C09/O9.3/siblings/" + pr[0]
		desc := "the table used by the base-field permutation and its sibling used by the extension-field (gate) implementation agree element-wise"
		if !okA || !okB {
			obs = append(obs, Obligation{Key: key, Desc: desc, Status: INFO, Detail: "one of the two tables does not exist (nothing to compare)"})
			continue
		}
		if len(a) != len(b) {
			obs = append(obs, bad(key, desc, fmt.Sprintf("%s has %d entries, %s has %d", pr[0], len(a), pr[1], len(b))))
			continue
		}
		diff := -1
		for i := range a {
			if a[i].Cmp(b[i]) != 0 {
				diff = i
				break
			}
		}
		if diff >= 0 {
			obs = append(obs, bad(key, desc, fmt.Sprintf("entry %d differs: %s vs %s", diff, a[diff], b[diff]), pr[0]+" / "+pr[1]))
		} else {
			obs = append(obs, good(key, desc, fmt.Sprintf("%s == %s (%d entries)", pr[0], pr[1], len(a))))
		}
	}
	var names []string
	for n := range tables {
		names = append(names, n)
	}
	sort.Strings(names)
	for _, n := range names {
		if !strings.Contains(n, "ROUND") && !strings.Contains(n, "MDS") {
			continue
		}
		key := "C09/O9.3/canonical/" + n
		desc := "every constant of the Goldilocks Poseidon tables is a canonical field element (< p); MulAdd's hint refuses other operands even for honest provers"
		badIdx := -1
		for i, v := range tables[n] {
			if v.Cmp(bigP) >= 0 || v.Sign() < 0 {
				badIdx = i
				break
			}
		}
		if badIdx >= 0 {
			obs = append(obs, bad(key, desc, fmt.Sprintf("entry %d = %s ≥ p", badIdx, tables[n][badIdx]), n))
		} else {
			obs = append(obs, good(key, desc, fmt.Sprintf("%s (%d entries)", n, len(tables[n]))))
		}
	}
	return obs
}

// rulesC09Function: "the permutation is a function" — the W1 obligations of the hint sites, restricted to the
// quotient widths that reach the witnessed reduction from package poseidon (the s-box reductions), plus R1 of
// the reduction gadget itself.
func rulesC09Function(cx *Ctx) []Obligation {
	var obs []Obligation
	n := 0
	for _, o := range rulesC05(cx) {
		if strings.HasPrefix(o.Key, "C05/W1/ReduceWithMaxBits/width@") && strings.Contains(o.Key, "poseidon.") {
			o.Key = "C09/O9.2/" + strings.TrimPrefix(o.Key, "C05/")
			obs = append(obs, o)
			n++
		}
		if strings.HasPrefix(o.Key, "C05/R1/ReduceWithMaxBits/") || strings.HasPrefix(o.Key, "C05/R1/MulAdd/") {
			o.Key = "C09/O9.2/" + strings.TrimPrefix(o.Key, "C05/")
			obs = append(obs, o)
		} else if (strings.HasPrefix(o.Key, "C05/R1/") || strings.HasPrefix(o.Key, "C05/W1/")) && strings.Contains(o.Key, "poseidon.") {
			// a hint used by the permutation's own package (none today): the same discipline applies
			o.Key = "C09/O9.2/" + strings.TrimPrefix(o.Key, "C05/")
			obs = append(obs, o)
		}
	}
	if n == 0 {
		obs = append(obs, undecided("C09/O9.2/floor", "the quotient widths used by the Goldilocks Poseidon s-box are found", "no constant width reaches the witnessed reduction from package poseidon"))
	}
	return obs
}

func boundDesc(b *big.Int, sym string) string {
	if b != nil {
		return fmt.Sprintf("%d bits", b.BitLen())
	}
	return "a width given by parameter " + sym
}

// ruleSpongeOverwrite (C09/O9.4): the Goldilocks sponge absorbs in overwrite mode — inside the absorption loops the
// only writes to the state are state[j] = input[i+j] (guarded by i+j < len(input)) for j below the rate, and the
// permutation's result; in particular a short last chunk leaves the remaining rate elements in place.
// ruleSpongeSqueeze (O9.5): outputs are squeezed from the rate part only — the loop that appends state[i] to the
// output list ranges over 0..SPONGE_RATE-1 (never into the capacity) and the permutation is applied between rounds.
func ruleSpongeSqueeze(cx *Ctx) []Obligation {
	P := cx.P
	key := "C09/O9.5/squeeze-rate"
	desc := "outputs are taken from the rate part of the state only: the loop appending state[i] to the outputs runs i = 0 … SPONGE_RATE−1 (SPONGE_RATE smaller than the state width), so capacity elements are never output and a request for more than SPONGE_RATE outputs permutes again"
	fn := P.Func("poseidon", "(*GoldilocksChip).HashNToMNoPad")
	if fn == nil {
		return []Obligation{undecided(key, desc, "poseidon.GoldilocksChip.HashNToMNoPad not found")}
	}
	rate := int64(-1)
	if c, ok := P.SPkgs["poseidon"].Members["SPONGE_RATE"].(*ssa.NamedConst); ok {
		rate, _ = constInt(c.Value)
	}
	if rate <= 0 {
		return []Obligation{undecided(key, desc, "constant SPONGE_RATE not found")}
	}
	found := 0
	// the squeeze phase may live in a helper of the same package that HashNToMNoPad calls (squeeze(state, n))
	scan := []*ssa.Function{fn}
	for _, b := range fn.Blocks {
		for _, ins := range b.Instrs {
			if c, ok := ins.(ssa.CallInstruction); ok {
				if g := c.Common().StaticCallee(); g != nil && g.Blocks != nil && fnPkgShort(g) == "poseidon" && g.Name() != "Poseidon" && g != fn {
					scan = append(scan, g)
				}
			}
		}
	}
	var blocks []*ssa.BasicBlock
	for _, g := range scan {
		blocks = append(blocks, g.Blocks...)
	}
	for _, b := range blocks {
		fi := GetFnInfo(b.Parent())
		for _, ins := range b.Instrs {
			ld, ok := ins.(*ssa.UnOp)
			if !ok || ld.Op != token.MUL {
				continue
			}
			ia, ok := ld.X.(*ssa.IndexAddr)
			if !ok {
				continue
			}
			al, ok := ia.X.(*ssa.Alloc)
			if !ok {
				// the rate part as a sub-slice: an element of state[:SPONGE_RATE] (or state[0:SPONGE_RATE]) lies in the
				// rate part whatever the index is (Go's bounds check), e.g. `for _, s := range state[:SPONGE_RATE]`
				if sl, isSl := ia.X.(*ssa.Slice); isSl && reachesAppend(ld, 0) {
					if sal, isAl := sl.X.(*ssa.Alloc); isAl {
						if sat, isArr := sal.Type().Underlying().(*types.Pointer).Elem().Underlying().(*types.Array); isArr && typeIs(sat.Elem(), "goldilocks.Variable") && sat.Len() > 4 {
							site := P.Pos(ld.Pos())
							lowOK := sl.Low == nil
							if lo, isC := constInt(sl.Low); sl.Low != nil && isC && lo == 0 {
								lowOK = true
							}
							hi, hiC := int64(0), false
							if sl.High != nil {
								hi, hiC = constInt(stripCopies(sl.High))
							}
							if !lowOK || !hiC || hi != rate || rate >= sat.Len() {
								return []Obligation{bad(key, desc, "state elements are output from a window of the state that is not state[:SPONGE_RATE]", site)}
							}
							found++
						}
					}
				}
				continue
			}
			at, isArr := al.Type().Underlying().(*types.Pointer).Elem().Underlying().(*types.Array)
			if !isArr || !typeIs(at.Elem(), "goldilocks.Variable") || at.Len() <= 4 {
				continue
			}
			// does the loaded element reach an append (through the variadic temporary)?
			if !reachesAppend(ld, 0) {
				continue
			}
			l := fi.IvOf[ia.Index]
			site := P.Pos(ld.Pos())
			if l == nil {
				return []Obligation{bad(key, desc, "a state element is output at an index that is not a loop variable", site)}
			}
			found++
			if !l.Counted || l.StartConst == nil || *l.StartConst != 0 || l.Step != 1 || l.Op != token.LSS {
				return []Obligation{bad(key, desc, "the squeeze loop is not i = 0; i < n; i++", site)}
			}
			n, isConst := constInt(stripCopies(l.Bound))
			if !isConst {
				return []Obligation{bad(key, desc, "the squeeze loop is bounded by "+l.Bound.String()+", not by the constant SPONGE_RATE", site)}
			}
			if n != rate || rate >= at.Len() {
				return []Obligation{bad(key, desc, fmt.Sprintf("the squeeze loop outputs %d state elements; the rate is %d of a state of %d", n, rate, at.Len()), site)}
			}
		}
	}
	if found == 0 {
		return []Obligation{undecided(key, desc, "no loop appending state elements to the outputs was found")}
	}
	return []Obligation{good(key, desc, P.FnName(fn))}
}

// reachesAppend: v is stored into the temporary of a variadic append (or passed to append directly)
func reachesAppend(v ssa.Value, depth int) bool {
	if depth > 4 || v.Referrers() == nil {
		return false
	}
	for _, r := range *v.Referrers() {
		switch x := r.(type) {
		case *ssa.Store:
			if x.Val != v {
				continue
			}
			if ia, ok := x.Addr.(*ssa.IndexAddr); ok {
				if al, ok := ia.X.(*ssa.Alloc); ok && al.Comment == "varargs" {
					for _, r2 := range *al.Referrers() {
						if sl, ok := r2.(*ssa.Slice); ok && reachesAppend(sl, depth+1) {
							return true
						}
					}
				}
			}
		case *ssa.Call:
			if b, ok := x.Common().Value.(*ssa.Builtin); ok && b.Name() == "append" {
				return true
			}
		}
	}
	return false
}

func ruleSpongeOverwrite(cx *Ctx) []Obligation {
	P := cx.P
	key := "C09/O9.4/overwrite-mode"
	desc := "the sponge absorbs in overwrite mode: within the absorption loops the state is written only as state[j] = input[i+j] for j < SPONGE_RATE (nothing else is stored into the rate part, so a partial last chunk keeps the earlier elements, as plonky2's hash_n_to_m_no_pad does)"
	fn := P.Func("poseidon", "(*GoldilocksChip).HashNToMNoPad")
	if fn == nil {
		return []Obligation{undecided(key, desc, "poseidon.GoldilocksChip.HashNToMNoPad not found")}
	}
	rate := int64(-1)
	if c, ok := P.SPkgs["poseidon"].Members["SPONGE_RATE"].(*ssa.NamedConst); ok {
		rate, _ = constInt(c.Value)
	}
	if rate <= 0 {
		return []Obligation{undecided(key, desc, "constant SPONGE_RATE not found")}
	}
	isStateArr := func(t types.Type) bool {
		if pt, ok := t.Underlying().(*types.Pointer); ok {
			t = pt.Elem()
		}
		at, ok := t.Underlying().(*types.Array)
		return ok && typeIs(at.Elem(), "goldilocks.Variable") && at.Len() > 4
	}
	isInputList := func(v ssa.Value) bool {
		for k := 0; k < 6; k++ {
			switch x := v.(type) {
			case *ssa.Slice:
				v = x.X
				continue
			case *ssa.ChangeType:
				v = x.X
				continue
			case *ssa.Parameter:
				st, ok := x.Type().Underlying().(*types.Slice)
				return ok && typeIs(st.Elem(), "goldilocks.Variable")
			}
			break
		}
		return false
	}
	// the functions that take part in the absorption: HashNToMNoPad and the helpers of its package it calls from
	// inside a loop that reads the input, handing them the state
	type region struct {
		fn     *ssa.Function
		helper bool
	}
	regions := []region{{fn, false}}
	fiTop := GetFnInfo(fn)
	input := ssa.Value(fn.Params[1])
	for _, b := range fn.Blocks {
		loops := fiTop.LoopsOf[b.Index]
		if len(loops) == 0 || !usesInputDeep(fn, loops[0], input) {
			continue
		}
		for _, ins := range b.Instrs {
			c, ok := ins.(ssa.CallInstruction)
			if !ok {
				continue
			}
			g := c.Common().StaticCallee()
			if g == nil || g.Blocks == nil || fnPkgShort(g) != "poseidon" || g.Name() == "Poseidon" || g == fn {
				continue
			}
			takesState := false
			for _, a := range c.Common().Args {
				if isStateArr(a.Type()) {
					takesState = true
				}
			}
			if takesState {
				regions = append(regions, region{g, true})
			}
		}
	}
	nGood := 0
	for _, rg := range regions {
		f := rg.fn
		fi := GetFnInfo(f)
		for _, b := range f.Blocks {
			loops := fi.LoopsOf[b.Index]
			for _, ins := range b.Instrs {
				st, ok := ins.(*ssa.Store)
				if !ok {
					continue
				}
				ia, ok := st.Addr.(*ssa.IndexAddr)
				if !ok || !isStateArr(ia.X.Type()) {
					continue
				}
				if _, isSl := ia.X.Type().Underlying().(*types.Slice); isSl {
					continue
				}
				site := P.Pos(st.Pos())
				if !rg.helper && (len(loops) == 0 || !usesInputDeep(f, loops[0], input)) {
					continue // initialisation (state[i] = 0) before absorption
				}
				// absorption: the stored value is an element of the input …
				ld, isLd := st.Val.(*ssa.UnOp)
				var src *ssa.IndexAddr
				if isLd && ld.Op == token.MUL {
					src, _ = ld.X.(*ssa.IndexAddr)
				}
				if src == nil || !isInputList(src.X) {
					return []Obligation{bad(key, desc, "inside the absorption loops the state is also written with something other than an input element (e.g. zero-filling of a partial chunk): "+st.Val.String(), site)}
				}
				// … the one at (chunk start + lane): source index − lane is one variable (the chunk start)
				d, p := poly(ia.Index), poly(src.Index)
				diff := polySub(p, d)
				okDiff := false
				if len(diff) == 1 {
					for m, c := range diff {
						if m != "" && c == 1 && !strings.Contains(m, "*") {
							okDiff = true
						}
					}
				}
				if !okDiff {
					return []Obligation{bad(key, desc, "the lane written and the input element read are not related as state[j] = input[chunk start + j]", site)}
				}
				// … into a lane below the rate
				if len(loops) == 0 {
					return []Obligation{bad(key, desc, "a single lane is written outside a loop over the chunk", site)}
				}
				li := loops[len(loops)-1]
				laneOK := false
				if li.Counted && li.Step == 1 && li.Op == token.LSS && li.Phi != nil {
					ivp := ipoly{li.Phi.Name(): 1}
					if li.RangeForm {
						ivp = poly(li.IndexVal)
					}
					switch {
					case li.StartConst != nil && *li.StartConst == 0 && ipolyEq(d, ivp):
						if bnd, isC := constInt(stripCopies(li.Bound)); isC && bnd <= rate {
							laneOK = true
						}
					case li.StartVal != nil && ipolyEq(polySub(ivp, poly(li.StartVal)), d):
						if w, wok := widthOf(li.Bound, li.StartVal, src.X); wok && w <= rate {
							laneOK = true
						}
					}
				}
				if !laneOK {
					return []Obligation{bad(key, desc, "cannot show that the lane written is below SPONGE_RATE (the rate loop does not run over j = 0 … SPONGE_RATE−1)", site)}
				}
				nGood++
			}
		}
	}
	if nGood == 0 {
		return []Obligation{bad(key, desc, "no absorption store state[j] = input[i+j] found", P.FnName(fn))}
	}
	return []Obligation{good(key, desc, P.FnName(fn)+" "+P.Pos(fn.Pos()))}
}

// usesInputDeep: the loop reads the input list itself or hands it to a call
func usesInputDeep(fn *ssa.Function, l *SLoop, input ssa.Value) bool {
	for b := range l.Blocks {
		for _, ins := range b.Instrs {
			switch x := ins.(type) {
			case *ssa.IndexAddr:
				if x.X == input {
					return true
				}
			case *ssa.Slice:
				if x.X == input {
					return true
				}
			case ssa.CallInstruction:
				for _, a := range x.Common().Args {
					if a == input {
						return true
					}
				}
			}
		}
	}
	return false
}

func usesInput(fn *ssa.Function, l *SLoop, input ssa.Value) bool {
	for b := range l.Blocks {
		for _, ins := range b.Instrs {
			if ia, ok := ins.(*ssa.IndexAddr); ok && ia.X == input {
				return true
			}
		}
	}
	return false
}

// rulesC08Widths (C08/O8.3, partial): the quotient widths of the witnessed reductions reached from the extension-field
// API admit a single result (W1) — the C05 obligations for every width reaching ReduceWithMaxBits.
func rulesC08Widths(cx *Ctx) []Obligation {
	var obs []Obligation
	for _, o := range rulesC05(cx) {
		if strings.HasPrefix(o.Key, "C05/W1/ReduceWithMaxBits/width@") || strings.HasPrefix(o.Key, "C05/W1/MulAdd") || strings.HasPrefix(o.Key, "C05/R1/ReduceWithMaxBits/") || strings.HasPrefix(o.Key, "C05/R1/MulAdd/") {
			o.Key = "C08/O8.3/" + strings.TrimPrefix(o.Key, "C05/")
			obs = append(obs, o)
		}
	}
	return obs
}
