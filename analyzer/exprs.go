package main

// Small evaluators over the depth-limited expression shapes of circuit values:
// linear forms (Σ coef·atom + const) and non-negative upper bounds.

import (
	"go/constant"
	"math/big"
	"sort"
	"strings"
)

var (
	bigP = func() *big.Int { z, _ := new(big.Int).SetString(goldilocksP.ExactString(), 10); return z }()
	bigR = func() *big.Int {
		z, _ := new(big.Int).SetString("21888242871839275222246405745257275088548364400416034343698204186575808495617", 10)
		return z
	}()
)

func isNilArg(v *Val) bool {
	return v == nil || (v.K != nil && v.K.Kind() == constant.Bool && len(v.Dir) == 0 && v.Ex == nil)
}

// constOf: compile-time constant of a value (including the MODULUS global, resolved by the interpreter).
func constOf(v *Val) *big.Int {
	if v == nil || v.K == nil {
		return nil
	}
	switch v.K.Kind() {
	case constant.Int:
		z, ok := new(big.Int).SetString(v.K.ExactString(), 10)
		if ok {
			return z
		}
	case constant.Float:
		if i := constant.ToInt(v.K); i.Kind() == constant.Int {
			z, ok := new(big.Int).SetString(i.ExactString(), 10)
			if ok {
				return z
			}
		}
	}
	return nil
}

type Lin struct {
	Coef map[string]*big.Int
	C    *big.Int
}

func (l *Lin) String() string {
	var ks []string
	for k := range l.Coef {
		ks = append(ks, k)
	}
	sort.Strings(ks)
	var parts []string
	for _, k := range ks {
		parts = append(parts, l.Coef[k].String()+"·"+k)
	}
	if l.C.Sign() != 0 || len(parts) == 0 {
		parts = append(parts, l.C.String())
	}
	return strings.Join(parts, " + ")
}

func linConst(c *big.Int) *Lin { return &Lin{Coef: map[string]*big.Int{}, C: new(big.Int).Set(c)} }

func (l *Lin) add(o *Lin, sign int64) *Lin {
	r := &Lin{Coef: map[string]*big.Int{}, C: new(big.Int).Set(l.C)}
	for k, v := range l.Coef {
		r.Coef[k] = new(big.Int).Set(v)
	}
	s := big.NewInt(sign)
	r.C.Add(r.C, new(big.Int).Mul(s, o.C))
	for k, v := range o.Coef {
		if r.Coef[k] == nil {
			r.Coef[k] = new(big.Int)
		}
		r.Coef[k].Add(r.Coef[k], new(big.Int).Mul(s, v))
		if r.Coef[k].Sign() == 0 {
			delete(r.Coef, k)
		}
	}
	return r
}

func (l *Lin) scale(c *big.Int) *Lin {
	r := &Lin{Coef: map[string]*big.Int{}, C: new(big.Int).Mul(l.C, c)}
	for k, v := range l.Coef {
		x := new(big.Int).Mul(v, c)
		if x.Sign() != 0 {
			r.Coef[k] = x
		}
	}
	return r
}

func (l *Lin) isConst() bool { return len(l.Coef) == 0 }

// LinOf evaluates a value as an integer linear form over its definite leaves, if it is one.
func LinOf(v *Val, depth int) (*Lin, bool) {
	if v == nil || depth > 12 {
		return nil, false
	}
	if c := constOf(v); c != nil && v.Ex == nil {
		return linConst(c), true
	}
	if v.Ex == nil {
		if p, ok := v.Definite(); ok {
			return &Lin{Coef: map[string]*big.Int{p: big.NewInt(1)}, C: new(big.Int)}, true
		}
		return nil, false
	}
	var args []*Val
	for _, a := range v.Ex.Args {
		if !isNilArg(a) || constOf(a) != nil {
			args = append(args, a)
		}
	}
	switch v.Ex.Op {
	case "Add", "Sub":
		var acc *Lin
		for i, a := range args {
			l, ok := LinOf(a, depth+1)
			if !ok {
				return nil, false
			}
			if i == 0 {
				acc = l
			} else if v.Ex.Op == "Add" {
				acc = acc.add(l, 1)
			} else {
				acc = acc.add(l, -1)
			}
		}
		return acc, acc != nil
	case "Neg":
		if len(args) == 1 {
			if l, ok := LinOf(args[0], depth+1); ok {
				return l.scale(big.NewInt(-1)), true
			}
		}
	case "Mul":
		var acc *Lin
		for _, a := range args {
			l, ok := LinOf(a, depth+1)
			if !ok {
				return nil, false
			}
			switch {
			case acc == nil:
				acc = l
			case l.isConst():
				acc = acc.scale(l.C)
			case acc.isConst():
				acc = l.scale(acc.C)
			default:
				return nil, false
			}
		}
		return acc, acc != nil
	case "MulAcc":
		if len(args) == 3 {
			a, ok1 := LinOf(args[0], depth+1)
			b, ok2 := LinOf(args[1], depth+1)
			c, ok3 := LinOf(args[2], depth+1)
			if ok1 && ok2 && ok3 {
				switch {
				case b.isConst():
					return a.add(c.scale(b.C), 1), true
				case c.isConst():
					return a.add(b.scale(c.C), 1), true
				}
			}
		}
	}
	return nil, false
}

// BoundOf: an upper bound of a non-negative polynomial expression given bounds of its leaves (nil = unbounded).
func BoundOf(v *Val, leaf func(path string) *big.Int, depth int) (*big.Int, string) {
	if v == nil || depth > 12 {
		return nil, "expression too deep"
	}
	if c := constOf(v); c != nil && v.Ex == nil {
		if c.Sign() < 0 {
			return nil, "negative constant"
		}
		return c, ""
	}
	if v.Ex == nil {
		if p, ok := v.Definite(); ok {
			if b := leaf(p); b != nil {
				return b, ""
			}
			return nil, "no bound known for " + p
		}
		return nil, "operand of unknown origin: " + v.short(1)
	}
	var args []*Val
	for _, a := range v.Ex.Args {
		if !isNilArg(a) || constOf(a) != nil {
			args = append(args, a)
		}
	}
	switch v.Ex.Op {
	case "Add":
		acc := new(big.Int)
		for _, a := range args {
			b, why := BoundOf(a, leaf, depth+1)
			if b == nil {
				return nil, why
			}
			acc.Add(acc, b)
		}
		return acc, ""
	case "Mul":
		acc := big.NewInt(1)
		for _, a := range args {
			b, why := BoundOf(a, leaf, depth+1)
			if b == nil {
				return nil, why
			}
			acc.Mul(acc, b)
		}
		return acc, ""
	case "MulAcc":
		if len(args) == 3 {
			a, w1 := BoundOf(args[0], leaf, depth+1)
			b, w2 := BoundOf(args[1], leaf, depth+1)
			c, w3 := BoundOf(args[2], leaf, depth+1)
			if a == nil {
				return nil, w1
			}
			if b == nil {
				return nil, w2
			}
			if c == nil {
				return nil, w3
			}
			return new(big.Int).Add(a, new(big.Int).Mul(b, c)), ""
		}
	case "Select":
		if len(args) == 3 {
			b, w2 := BoundOf(args[1], leaf, depth+1)
			c, w3 := BoundOf(args[2], leaf, depth+1)
			if b == nil {
				return nil, w2
			}
			if c == nil {
				return nil, w3
			}
			if b.Cmp(c) < 0 {
				return c, ""
			}
			return b, ""
		}
	case "IsZero":
		return big.NewInt(1), ""
	}
	return nil, "operation " + v.Ex.Op + " has no bound rule"
}

// exprHas: the expression tree contains an application of op satisfying pred.
func exprFind(v *Val, op string, pred func(*Expr) bool, depth int) bool {
	if v == nil || v.Ex == nil || depth > 12 {
		return false
	}
	if v.Ex.Op == op && (pred == nil || pred(v.Ex)) {
		return true
	}
	for _, a := range v.Ex.Args {
		if exprFind(a, op, pred, depth+1) {
			return true
		}
	}
	return false
}
