package main

// E0 — CFG utilities: refusal blocks (panic / non-nil error return), must-execute modulo refusal,
// natural loops and counted-loop descriptors.

import (
	"go/constant"
	"go/token"
	"go/types"

	"golang.org/x/tools/go/ssa"
)

type SLoop struct {
	Fn         *ssa.Function
	Header     *ssa.BasicBlock
	Blocks     map[*ssa.BasicBlock]bool
	Latches    []*ssa.BasicBlock
	Parent     *SLoop
	Counted    bool
	Phi        *ssa.Phi
	IndexVal   ssa.Value   // the value that is the element index inside the body
	StartConst *int64      // constant first index (nil if not constant)
	StartVal   ssa.Value   // first index as SSA value (for down-counting loops: len(x)-1)
	Step       int64       // +1 / -1 / other
	Bound      ssa.Value   // the value the index is compared with
	Op         token.Token // normalised so that the loop continues while (IndexVal Op Bound)
	SingleExit bool
	RangeForm  bool
}

type FnInfo struct {
	Fn       *ssa.Function
	Refuse   []bool
	Normal   []bool
	Must     []bool
	HasExit  bool
	Loops    []*SLoop
	LoopsOf  [][]*SLoop // per block index, outer → inner
	IvOf     map[ssa.Value]*SLoop
	HeaderOf map[*ssa.BasicBlock]*SLoop
}

var fnInfoCache = map[*ssa.Function]*FnInfo{}

// vacuousExitFns: functions whose obligations quantify over the elements of one list (the deferred drain). There a
// normal return taken only when that list is empty (`if len(list) == 0 { return }`) skips nothing and is treated
// like a refusal edge by the must-execute analysis. Never set for other functions.
var vacuousExitFns = map[*ssa.Function]bool{}

// emptyListReturn: b returns normally and is entered only through the edge of `len(x) == 0` (or the false edge of
// `len(x) != 0` / `len(x) > 0`)
func emptyListReturn(b *ssa.BasicBlock) bool {
	if len(b.Preds) != 1 || len(b.Instrs) == 0 {
		return false
	}
	if _, ok := b.Instrs[len(b.Instrs)-1].(*ssa.Return); !ok {
		return false
	}
	for _, ins := range b.Instrs[:len(b.Instrs)-1] {
		switch ins.(type) {
		case *ssa.DebugRef, *ssa.RunDefers:
		default:
			return false
		}
	}
	p := b.Preds[0]
	iff, ok := p.Instrs[len(p.Instrs)-1].(*ssa.If)
	if !ok {
		return false
	}
	cmp, ok := iff.Cond.(*ssa.BinOp)
	if !ok {
		return false
	}
	isLen := func(v ssa.Value) bool {
		c, ok := v.(*ssa.Call)
		if !ok {
			return false
		}
		bi, ok := c.Common().Value.(*ssa.Builtin)
		return ok && bi.Name() == "len"
	}
	isZero := func(v ssa.Value) bool { k, ok := constInt(v); return ok && k == 0 }
	onTrue := p.Succs[0] == b
	switch {
	case isLen(cmp.X) && isZero(cmp.Y):
		switch cmp.Op {
		case token.EQL, token.LEQ:
			return onTrue
		case token.NEQ, token.GTR:
			return !onTrue
		}
	case isZero(cmp.X) && isLen(cmp.Y):
		switch cmp.Op {
		case token.EQL, token.GEQ:
			return onTrue
		case token.NEQ, token.LSS:
			return !onTrue
		}
	}
	return false
}

func isNilConst(v ssa.Value) bool {
	c, ok := v.(*ssa.Const)
	return ok && c.Value == nil
}

func errorType(t types.Type) bool {
	return types.Identical(t, types.Universe.Lookup("error").Type())
}

func GetFnInfo(fn *ssa.Function) *FnInfo {
	if fi, ok := fnInfoCache[fn]; ok {
		return fi
	}
	n := len(fn.Blocks)
	fi := &FnInfo{Fn: fn, Refuse: make([]bool, n), Normal: make([]bool, n), Must: make([]bool, n), IvOf: map[ssa.Value]*SLoop{}, HeaderOf: map[*ssa.BasicBlock]*SLoop{}}
	fnInfoCache[fn] = fi
	if n == 0 {
		return fi
	}
	res := fn.Signature.Results()
	lastErr := res.Len() > 0 && errorType(res.At(res.Len()-1).Type())
	for i, b := range fn.Blocks {
		if len(b.Instrs) == 0 {
			continue
		}
		switch t := b.Instrs[len(b.Instrs)-1].(type) {
		case *ssa.Panic:
			fi.Refuse[i] = true
		case *ssa.Return:
			if vacuousExitFns[fn] && emptyListReturn(b) {
				fi.Refuse[i] = true
				continue
			}
			if lastErr && len(t.Results) > 0 && !isNilConst(t.Results[len(t.Results)-1]) {
				// a return whose error result is not the nil constant refuses; a return of a variable error
				// (e.g. `return err` after a nil check) is treated as refusal only if it is not a plain phi/nil.
				fi.Refuse[i] = true
			} else {
				fi.Normal[i] = true
			}
		}
	}
	// blocks that cannot reach a normal return are refusal blocks too
	reach := make([]bool, n)
	var stack []*ssa.BasicBlock
	for i, b := range fn.Blocks {
		if fi.Normal[i] {
			reach[i] = true
			stack = append(stack, b)
			fi.HasExit = true
		}
	}
	for len(stack) > 0 {
		b := stack[len(stack)-1]
		stack = stack[:len(stack)-1]
		for _, p := range b.Preds {
			if !reach[p.Index] && !fi.Refuse[p.Index] {
				reach[p.Index] = true
				stack = append(stack, p)
			}
		}
	}
	for i := range fn.Blocks {
		if !reach[i] {
			fi.Refuse[i] = true
		}
	}
	// Must: block lies on every entry→normal-return path of the reduced CFG.
	if fi.HasExit && !fi.Refuse[0] {
		for i := range fn.Blocks {
			if fi.Refuse[i] {
				continue
			}
			fi.Must[i] = !fi.reachesExitAvoiding(i)
		}
	}
	fi.findLoops()
	return fi
}

func (fi *FnInfo) reachesExitAvoiding(avoid int) bool {
	if avoid == 0 {
		return false
	}
	n := len(fi.Fn.Blocks)
	seen := make([]bool, n)
	stack := []*ssa.BasicBlock{fi.Fn.Blocks[0]}
	seen[0] = true
	for len(stack) > 0 {
		b := stack[len(stack)-1]
		stack = stack[:len(stack)-1]
		if fi.Normal[b.Index] {
			return true
		}
		for _, s := range b.Succs {
			if s.Index == avoid || seen[s.Index] || fi.Refuse[s.Index] {
				continue
			}
			seen[s.Index] = true
			stack = append(stack, s)
		}
	}
	return false
}

func (fi *FnInfo) findLoops() {
	fn := fi.Fn
	byHeader := map[*ssa.BasicBlock]*SLoop{}
	for _, b := range fn.Blocks {
		for _, s := range b.Succs {
			if s.Dominates(b) { // back edge b → s
				l := byHeader[s]
				if l == nil {
					l = &SLoop{Fn: fn, Header: s, Blocks: map[*ssa.BasicBlock]bool{s: true}}
					byHeader[s] = l
					fi.Loops = append(fi.Loops, l)
				}
				l.Latches = append(l.Latches, b)
				// natural loop body
				stack := []*ssa.BasicBlock{b}
				for len(stack) > 0 {
					x := stack[len(stack)-1]
					stack = stack[:len(stack)-1]
					if l.Blocks[x] {
						continue
					}
					l.Blocks[x] = true
					stack = append(stack, x.Preds...)
				}
			}
		}
	}
	fi.HeaderOf = byHeader
	// nesting
	for _, l := range fi.Loops {
		for _, m := range fi.Loops {
			if l == m || !m.Blocks[l.Header] || len(m.Blocks) <= len(l.Blocks) {
				continue
			}
			if l.Parent == nil || len(m.Blocks) < len(l.Parent.Blocks) {
				l.Parent = m
			}
		}
	}
	fi.LoopsOf = make([][]*SLoop, len(fn.Blocks))
	for _, b := range fn.Blocks {
		var inner *SLoop
		for _, l := range fi.Loops {
			if l.Blocks[b] && (inner == nil || len(l.Blocks) < len(inner.Blocks)) {
				inner = l
			}
		}
		var chain []*SLoop
		for l := inner; l != nil; l = l.Parent {
			chain = append([]*SLoop{l}, chain...)
		}
		fi.LoopsOf[b.Index] = chain
	}
	for _, l := range fi.Loops {
		fi.describeLoop(l)
	}
}

func constInt(v ssa.Value) (int64, bool) {
	c, ok := v.(*ssa.Const)
	if !ok || c.Value == nil || c.Value.Kind() != constant.Int {
		return 0, false
	}
	i, ok := constant.Int64Val(c.Value)
	return i, ok
}

func (fi *FnInfo) describeLoop(l *SLoop) {
	// single exit: the only edges leaving the loop towards non-refusal blocks start at the header
	l.SingleExit = true
	for b := range l.Blocks {
		for _, s := range b.Succs {
			if !l.Blocks[s] && !fi.Refuse[s.Index] && b != l.Header {
				l.SingleExit = false
			}
		}
	}
	h := l.Header
	if len(h.Instrs) == 0 {
		return
	}
	iff, ok := h.Instrs[len(h.Instrs)-1].(*ssa.If)
	if !ok {
		l.SingleExit = false // no test in the header: any exit is an "other" exit
		return
	}
	cmp, ok := iff.Cond.(*ssa.BinOp)
	if !ok {
		return
	}
	inTrue := l.Blocks[h.Succs[0]]
	inFalse := l.Blocks[h.Succs[1]]
	if inTrue == inFalse {
		return
	}
	op := cmp.Op
	if !inTrue {
		switch op {
		case token.LSS:
			op = token.GEQ
		case token.LEQ:
			op = token.GTR
		case token.GTR:
			op = token.LEQ
		case token.GEQ:
			op = token.LSS
		case token.EQL:
			op = token.NEQ
		case token.NEQ:
			op = token.EQL
		default:
			return
		}
	}
	// find the induction phi
	for _, ins := range h.Instrs {
		phi, ok := ins.(*ssa.Phi)
		if !ok {
			break
		}
		if len(phi.Edges) != len(h.Preds) {
			continue
		}
		var init ssa.Value
		var next ssa.Value
		okPhi := true
		for i, p := range h.Preds {
			if l.Blocks[p] {
				if next != nil && next != phi.Edges[i] {
					okPhi = false
				}
				next = phi.Edges[i]
			} else {
				if init != nil && init != phi.Edges[i] {
					okPhi = false
				}
				init = phi.Edges[i]
			}
		}
		if !okPhi || init == nil || next == nil {
			continue
		}
		nb, ok := next.(*ssa.BinOp)
		if !ok || (nb.Op != token.ADD && nb.Op != token.SUB) {
			continue
		}
		var step int64
		if nb.X == ssa.Value(phi) {
			s, ok := constInt(nb.Y)
			if !ok {
				continue
			}
			step = s
		} else if nb.Y == ssa.Value(phi) && nb.Op == token.ADD {
			s, ok := constInt(nb.X)
			if !ok {
				continue
			}
			step = s
		} else {
			continue
		}
		if nb.Op == token.SUB {
			step = -step
		}
		// which side of the comparison is the index?
		var idx, bound ssa.Value
		cop := op
		if cmp.X == ssa.Value(phi) || cmp.X == next {
			idx, bound = cmp.X, cmp.Y
		} else if cmp.Y == ssa.Value(phi) || cmp.Y == next {
			idx, bound = cmp.Y, cmp.X
			switch cop { // mirror
			case token.LSS:
				cop = token.GTR
			case token.LEQ:
				cop = token.GEQ
			case token.GTR:
				cop = token.LSS
			case token.GEQ:
				cop = token.LEQ
			}
		} else {
			// comparison through a conversion of the phi (e.g. uint64(i) < n)
			if cv, ok := cmp.X.(*ssa.Convert); ok && (cv.X == ssa.Value(phi) || cv.X == next) {
				idx, bound = cv.X, cmp.Y
			} else {
				continue
			}
		}
		l.Phi = phi
		l.Step = step
		l.Bound = bound
		l.Op = cop
		if idx == next {
			// range form: the index used in the body is phi+step, defined in the header
			if nb.Block() != h {
				continue
			}
			l.IndexVal = next
			l.RangeForm = true
			if c, ok := constInt(init); ok {
				s := c + step
				l.StartConst = &s
			}
		} else {
			l.IndexVal = phi
			l.StartVal = init
			if c, ok := constInt(init); ok {
				l.StartConst = &c
			}
		}
		l.Counted = true
		fi.IvOf[l.IndexVal] = l
		return
	}
}

// MustBlock reports whether block b executes on every non-refusing path through the function, once per
// iteration of every enclosing loop (a `continue`, conditional or early exit around it defeats this).
func (fi *FnInfo) MustBlock(b *ssa.BasicBlock) bool {
	if fi.Refuse[b.Index] {
		return false
	}
	cur := b
	loops := fi.LoopsOf[b.Index]
	for i := len(loops) - 1; i >= 0; i-- {
		l := loops[i]
		if cur != l.Header {
			for _, lt := range l.Latches {
				if !cur.Dominates(lt) {
					return false
				}
			}
		}
		cur = l.Header
	}
	return fi.Must[cur.Index]
}
